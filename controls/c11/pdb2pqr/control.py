"""Positive controls for the C11 lints: every function below violates exactly one rule."""
import functools
import random

CACHE = {}


def unordered(residues):
    seen = set(residues)
    out = []
    for res in seen:
        out.append(res)
    return out


def ambient(atoms):
    random.shuffle(atoms)
    return atoms


def shared_state(key, value):
    CACHE[key] = value
    return CACHE


def mutable_default(atom, bonds=[]):
    bonds.append(atom)
    return bonds


@functools.lru_cache(maxsize=None)
def memoised(path):
    return open(path).read()


def dynamic(expr):
    return eval(expr)


REGISTRY = {}


def shared_state_through_alias(key):
    table = REGISTRY
    table.pop(key, None)
    return table


def list_extended_by_set(atoms, extra):
    chosen = set(extra)
    atoms += chosen.difference(atoms)
    return atoms
