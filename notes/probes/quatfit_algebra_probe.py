import ast, sympy as sp
src=open('/repo/pdb2pqr/quatfit.py').read(); T=ast.parse(src)
F={n.name:n for n in T.body if isinstance(n,ast.FunctionDef)}
def sym_eval(e, env):
    if isinstance(e,ast.Constant): return sp.nsimplify(e.value)
    if isinstance(e,ast.Name): return env[e.id]
    if isinstance(e,ast.BinOp):
        a,b=sym_eval(e.left,env),sym_eval(e.right,env)
        return {ast.Add:a+b,ast.Sub:a-b,ast.Mult:a*b,ast.Div:a/b}[type(e.op)]
    if isinstance(e,ast.UnaryOp) and isinstance(e.op,ast.USub): return -sym_eval(e.operand,env)
    if isinstance(e,ast.Subscript):
        v=sym_eval(e.value,env); i=sym_eval(e.slice,env); return v[int(i)]
    if isinstance(e,ast.Call) and isinstance(e.func,ast.Attribute) and e.func.attr in("cos","sin"):
        return env["__"+e.func.attr]
    raise NotImplementedError(ast.dump(e))
# q2mat
q=sp.symbols("q0:4"); env={"quat":list(q)}
U=[[0]*3 for _ in range(3)]
for st in F["q2mat"].body:
    if isinstance(st,ast.Assign) and isinstance(st.targets[0],ast.Subscript) and isinstance(st.targets[0].value,ast.Subscript):
        t=st.targets[0]; i=t.value.slice.value; j=t.slice.value
        U[i][j]=sym_eval(st.value,env)
U=sp.Matrix(U); n=sum(x*x for x in q)
print("q2mat U*U^T - |q|^4 I == 0:", sp.simplify(U*U.T - n**2*sp.eye(3))==sp.zeros(3,3), " det - |q|^6 == 0:", sp.expand(U.det()-n**3)==0)
# qchichange
l=sp.symbols("l0:3"); c,s=sp.symbols("c s"); env={"left":list(l),"__cos":c,"__sin":s,"radangle":None}
R=[[0]*3 for _ in range(3)]
for st in F["qchichange"].body:
    if isinstance(st,ast.Assign) and isinstance(st.targets[0],ast.Subscript) and isinstance(st.targets[0].value,ast.Subscript) and getattr(st.targets[0].value.value,'id',None)=="right":
        t=st.targets[0]; i=t.value.slice.value; j=t.slice.value
        R[i][j]=sym_eval(st.value,env)
R=sp.Matrix(R)
# rotmol: out_k = sum_i lrot[i][k]*coor[i]  => applies R^T ... build from AST
x=sp.symbols("x0:3"); envr={"lrot":[[R[i,j] for j in range(3)] for i in range(3)],"coor":[list(x)],"i":0}
outs=[]
for node in ast.walk(F["rotmol"]):
    if isinstance(node,ast.Call) and isinstance(node.func,ast.Attribute) and node.func.attr=="append" and node.args and isinstance(node.args[0],ast.BinOp):
        outs.append(sym_eval(node.args[0],envr))
out=sp.Matrix(outs)
A=out.jacobian(x)   # effective matrix applied to column vector
def red(e):
    e=sp.expand(e); e=e.subs(s**2,1-c**2); e=sp.expand(e); e=e.subs(l[2]**2,1-l[0]**2-l[1]**2); return sp.expand(e)
ortho=(A*A.T-sp.eye(3)).applyfunc(red)
print("qchichange+rotmol: A A^T = I (mod c^2+s^2=1,|l|=1):", ortho==sp.zeros(3,3))
ax=(A*sp.Matrix(l)-sp.Matrix(l)).applyfunc(red); print("axis fixed:", ax==sp.zeros(3,1))
print("det=1:", red(A.det()-1)==0)
# handedness: for l=(0,0,1), A applied to (1,0,0)
A0=A.subs({l[0]:0,l[1]:0,l[2]:1}); print("A(l=z)*(1,0,0) =", list(A0*sp.Matrix([1,0,0])), " (right-handed rotation by +theta would be (c, s, 0))")
# Horn identity: q^T C q == sum_i (U(q) applied via rotmol to def_i) . ref_i
S=sp.symbols("xxyx xxyy xxyz xyyx xyyy xyyz xzyx xzyy xzyz")
envq=dict(zip([str(z) for z in S],S))
C=[[0]*4 for _ in range(4)]
for st in F["qtrfit"].body:
    if isinstance(st,ast.Assign) and isinstance(st.targets[0],ast.Subscript) and isinstance(st.targets[0].value,ast.Subscript) and getattr(st.targets[0].value.value,'id',None)=="cmat":
        t=st.targets[0]; i=t.value.slice.value; j=t.slice.value
        C[i][j]=sym_eval(st.value,envq)
C=sp.Matrix(C); Cs=C+C.T-sp.diag(*[C[i,i] for i in range(4)])
qv=sp.Matrix(q); lhs=sp.expand((qv.T*Cs*qv)[0])
# rotation applied by rotmol with lrot=U: y_k = sum_i U[i][k] x_i ; overlap = sum_k y_k * ref_k = sum_{i,k} U[i][k] * S[x_i ref_k]
names=[["xxyx","xxyy","xxyz"],["xyyx","xyyy","xyyz"],["xzyx","xzyy","xzyz"]]
rhs=sp.expand(sum(U[i,k]*envq[names[i][k]] for i in range(3) for k in range(3)))
print("Horn identity q^T C q == overlap(rotmol(def,U(q)),ref):", sp.expand(lhs-rhs)==0)
G=sp.groebner([c**2+s**2-1, l[0]**2+l[1]**2+l[2]**2-1], c,s,*l, order='grevlex')
def red2(e): return G.reduce(sp.expand(e))[1]
print("ortho (groebner):", (A*A.T-sp.eye(3)).applyfunc(red2)==sp.zeros(3,3))
print("axis fixed (groebner):", (A*sp.Matrix(l)-sp.Matrix(l)).applyfunc(red2)==sp.zeros(3,1))
print("det (groebner):", red2(A.det()-1)==0)
