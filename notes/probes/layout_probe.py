"""Probe: string-layout abstract interpretation of the PQR writer (exploratory)."""
import ast, sys
SRC=open('/repo/pdb2pqr/structures.py').read(); T=ast.parse(SRC)
cls=[n for n in T.body if isinstance(n,ast.ClassDef) and n.name=="Atom"][0]
F={n.name:n for n in cls.body if isinstance(n,ast.FunctionDef)}
# declared domains: attribute -> (kind, ...)
DOM={"type":("str",4,6),"serial":("int",1,9_999_999),"name":("str",1,4),"res_name":("str",1,4),"chain_id":("str",0,1),
     "res_seq":("int",-999,99_999),"ins_code":("str",0,1),"x":("float",-99999.999,99999.999),"y":("float",-99999.999,99999.999),"z":("float",-99999.999,99999.999),
     "ffcharge":("float",-9.9999,9.9999),"radius":("float",0.0,9.9999)}
class Seg:
    def __init__(s,label,lo,hi,trunc=False,lit=None): s.label=label; s.lo=lo; s.hi=hi; s.trunc=trunc; s.lit=lit
    def __repr__(s): return f"{s.label}[{s.lo},{s.hi}]{'!TRUNC' if s.trunc else ''}"
def width_of_format(kind,lo,hi,spec):
    import re
    vals=[lo,hi]+([0] if kind!="str" and lo<=0<=hi else [])
    if kind=="int": ws=[len(format(int(v),spec or "d")) for v in vals]
    elif kind=="float": ws=[len(format(float(v),spec)) for v in vals]
    else:
        return (lo,hi)
    return (min(ws),max(ws))
class S:  # abstract string: list of segments
    def __init__(s,segs): s.segs=segs
    def lo(s): return sum(x.lo for x in s.segs)
    def hi(s): return sum(x.hi for x in s.segs)
    def __add__(s,o): return S(s.segs+o.segs)
def lit(t): return S([Seg(repr(t),len(t),len(t),lit=t)]) if t else S([])
def ev(e,env,refine):
    if isinstance(e,ast.Constant) and isinstance(e.value,str): return lit(e.value)
    if isinstance(e,ast.Name): return env[e.id]
    if isinstance(e,ast.Attribute) and isinstance(e.value,ast.Name) and e.value.id=="self":
        k,lo,hi=DOM[e.attr]
        if k=="str":
            lo,hi=refine.get(e.attr,(lo,hi)); return S([Seg(e.attr,lo,hi)])
        raise NotImplementedError("raw number "+e.attr)
    if isinstance(e,ast.JoinedStr):
        out=S([])
        for v in e.values:
            if isinstance(v,ast.Constant): out=out+lit(v.value)
            else:
                spec="".join(x.value for x in v.format_spec.values) if v.format_spec else ""
                a=v.value
                assert isinstance(a,ast.Attribute) and a.value.id=="self"
                k,lo,hi=DOM[a.attr]
                if k=="str":
                    lo,hi=refine.get(a.attr,(lo,hi)); out=out+S([Seg(a.attr,lo,hi)])
                else:
                    w=width_of_format(k,lo,hi,spec); out=out+S([Seg(f"{a.attr}:{spec}",w[0],w[1])])
        return out
    if isinstance(e,ast.BinOp) and isinstance(e.op,ast.Add): return ev(e.left,env,refine)+ev(e.right,env,refine)
    if isinstance(e,ast.IfExp):
        pos,neg=refine_from(e.test,refine)
        a=ev(e.body,env,pos); b=ev(e.orelse,env,neg)
        return S([Seg("("+"|".join(map(repr,(a.segs,b.segs)))+")",min(a.lo(),b.lo()),max(a.hi(),b.hi()))]) if (a.lo(),a.hi())!=(b.lo(),b.hi()) else (a if a.segs else b)
    if isinstance(e,ast.Subscript) and isinstance(e.slice,ast.Slice) and e.slice.lower is None:
        n=e.slice.upper.value; v=ev(e.value,env,refine)
        tr=v.hi()>n
        return S([Seg("+".join(x.label for x in v.segs),min(v.lo(),n),min(v.hi(),n),trunc=tr)])
    if isinstance(e,ast.Call) and isinstance(e.func,ast.Attribute) and e.func.attr in("ljust","rjust"):
        if isinstance(e.func.value,ast.Name) and e.func.value.id=="str": v=ev(e.args[0],env,refine); n=e.args[1].value
        else: v=ev(e.func.value,env,refine); n=e.args[0].value
        return S([Seg("+".join(x.label for x in v.segs)+f".{e.func.attr}{n}",max(v.lo(),n),max(v.hi(),n))]) if True else None
    raise NotImplementedError(ast.dump(e)[:120])
def refine_from(test,refine):
    """len(self.attr)==k / self.attr != '' tests refine the string-length domain."""
    pos=dict(refine); neg=dict(refine)
    def attr_of(x):
        if isinstance(x,ast.Attribute): return x.attr
        if isinstance(x,ast.Name): return ALIAS.get(x.id)
    if isinstance(test,ast.BoolOp) and isinstance(test.op,ast.Or): test=test.values[0]   # first disjunct decides for the declared domain
    if isinstance(test,ast.Compare) and isinstance(test.left,ast.Call) and getattr(test.left.func,'id',None)=="len" and isinstance(test.ops[0],ast.Eq):
        a=attr_of(test.left.args[0]); k=test.comparators[0].value; lo,hi=refine.get(a,DOM[a][1:])
        pos[a]=(k,k); neg[a]=(lo,min(hi,k-1)) if hi==k else (lo,hi)
    if isinstance(test,ast.Compare) and isinstance(test.ops[0],ast.NotEq) and isinstance(test.comparators[0],ast.Constant) and test.comparators[0].value=="":
        a=attr_of(test.left); lo,hi=refine.get(a,DOM[a][1:]); pos[a]=(max(lo,1),hi); neg[a]=(0,0)
    return pos,neg
ALIAS={}
def run(fn,env=None,refine=None):
    env=env or {}; refine=refine or {}
    def block(stmts,env,refine):
        for st in stmts:
            if isinstance(st,ast.Expr): continue
            if isinstance(st,ast.Assign):
                t=st.targets[0].id
                if isinstance(st.value,ast.Attribute): ALIAS[t]=st.value.attr
                if isinstance(st.value,ast.Call) and isinstance(st.value.func,ast.Attribute) and st.value.func.attr=="get_common_string_rep":
                    env[t]=run(F["get_common_string_rep"]); continue
                env[t]=ev(st.value,env,refine)
            elif isinstance(st,ast.AugAssign): env[st.target.id]=env[st.target.id]+ev(st.value,env,refine)
            elif isinstance(st,ast.If):
                pos,neg=refine_from(st.test,refine)
                e1=dict(env); block(st.body,e1,pos); e2=dict(env); block(st.orelse,e2,neg)
                for k in e1:
                    a,b=e1[k],e2.get(k)
                    if b is None or a is b: env[k]=a
                    elif (a.lo(),a.hi())==(b.lo(),b.hi()): env[k]=a if len(a.segs)>=len(b.segs) else b
                    else: raise SystemExit(f"branch width mismatch for {k}: {a.segs} vs {b.segs}")
            elif isinstance(st,ast.Return): return ev(st.value,env,refine)
        return None
    return block(fn.body,env,refine)
out=run(F["get_pqr_string"])
pos=0
print(f"{'cols':>9}  segment")
for s in out.segs:
    print(f"{pos:>3}:{pos+s.hi:<4}  {s}"); pos+=s.hi
print("fixed width:",out.lo(),out.hi())
