"""Probe: guard-set extraction for apply_pka_values (exploratory)."""
import ast, itertools
T=ast.parse(open('/repo/pdb2pqr/biomolecule.py').read())
fn=[n for n in ast.walk(T) if isinstance(n,ast.FunctionDef) and n.name=="apply_pka_values"][0]
loop=[n for n in fn.body if isinstance(n,ast.For)][0]
sites=[]  # (effect, guard list [(test, polarity)])
def walk(stmts,guards):
    for st in stmts:
        if isinstance(st,ast.If):
            walk(st.body,guards+[(st.test,True)])
            walk(st.orelse,guards+[(st.test,False)])
            # early exit?
            if st.body and isinstance(st.body[-1],(ast.Continue,ast.Return,ast.Raise)) and not st.orelse:
                guards=guards+[(st.test,False)]
        elif isinstance(st,ast.Expr) and isinstance(st.value,ast.Call):
            c=st.value; name=ast.unparse(c.func)
            if name=="self.apply_patch": sites.append(("PATCH:"+c.args[0].value,guards))
            elif name=="_LOGGER.warning": sites.append(("WARN",guards))
walk(loop.body,[])
# finite-domain evaluation of guards
FFS=["amber","charmm","parse","tyl06","peoepb","swanson","OTHER"]
RES=["ARG","ASP","CYS","GLU","HIS","LYS","TYR","ALA"]
def ev(e,env):
    if isinstance(e,ast.BoolOp):
        vals=[ev(v,env) for v in e.values]; return all(vals) if isinstance(e.op,ast.And) else any(vals)
    if isinstance(e,ast.UnaryOp) and isinstance(e.op,ast.Not): return not ev(e.operand,env)
    if isinstance(e,ast.Compare):
        l=term(e.left,env); r=term(e.comparators[0],env); op=e.ops[0]
        if isinstance(op,ast.Eq): return l==r
        if isinstance(op,ast.NotEq): return l!=r
        if isinstance(op,ast.In): return l in r
        if isinstance(op,ast.NotIn): return l not in r
        if l=="ph" and r=="value": return {ast.Lt:env["side"]=="lt",ast.GtE:env["side"]!="lt",ast.LtE:env["side"]!="gt",ast.Gt:env["side"]=="gt"}[type(op)]
        raise NotImplementedError(ast.unparse(e))
    if isinstance(e,ast.Attribute): return env[e.attr]
    if isinstance(e,ast.Call) and ast.unparse(e.func)=='isinstance': return True  # domain: Amino residues only
    raise NotImplementedError(ast.unparse(e))
def term(e,env):
    if isinstance(e,ast.Constant): return e.value
    if isinstance(e,ast.List): return [x.value for x in e.elts]
    if isinstance(e,ast.Name):
        if e.id in("ph","value"): return e.id
        if e.id=="pkadic": return env["keys"]
        return env[e.id]
    if isinstance(e,ast.Attribute): return env[e.attr]
    raise NotImplementedError(ast.unparse(e))
rows={}
for res,ff,(n,c),side in itertools.product(RES,FFS,[(False,False),(True,False),(False,True)],["lt","eq","gt"]):
    # all three keys present in the table
    env={"resname":res,"force_field":ff,"is_n_term":n,"is_c_term":c,"side":side,"key":"K","keys":["K"]}
    eff=[]
    for effect,g in sites:
        try:
            if all(ev(t,env)==pol for t,pol in g): eff.append(effect)
        except KeyError as ex: raise
    rows[(res,ff,"N" if n else "C" if c else "mid",side)]=eff
print(len(sites),"effect sites;",len(rows),"domain tuples")
def show(res,pos):
    for side in ("lt","gt"):
        print(f"{res:4s} {pos:3s} ph{'<' if side=='lt' else '>'}pKa ", {ff:[e.replace('PATCH:','') for e in rows[(res,ff,pos,side)] if e!='WARN' ] or ('w' if 'WARN' in rows[(res,ff,pos,side)] else '-') for ff in FFS})
for res in ["CYS","LYS","TYR","ASP"]:
    for pos in ("mid","N","C"): show(res,pos)
