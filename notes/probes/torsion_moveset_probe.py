import xml.etree.ElementTree as ET, collections, copy
D="/repo/pdb2pqr/dat/"
def load(path):
    root=ET.parse(path).getroot()
    res={}
    for r in list(root.iter("residue")):
        name=r.findtext("name").strip()
        atoms={}
        for a in r.findall("atom"):
            an=a.findtext("name").strip()
            atoms[an]=dict(xyz=tuple(float(a.findtext(k)) for k in "xyz"), bonds=[b.text.strip() for b in a.findall("bond")])
        res[name]=dict(atoms=atoms, dihedrals=[d.text.strip() for d in r.findall("dihedral")])
    return res
AA=load(D+"AA.xml")
root=ET.parse(D+"PATCHES.xml").getroot()
P={}
for p in root.iter("patch"):
    name=p.findtext("name").strip()
    atoms={}
    for a in p.iter("atom"):
        an=a.findtext("name").strip()
        atoms[an]=dict(xyz=tuple(float(a.findtext(k) or 0) for k in "xyz"), bonds=[b.text.strip() for b in a.findall("bond")])
    P[name]=dict(atoms=atoms, remove=[r.text.strip() for r in p.iter("remove")], dihedrals=[d.text.strip() for d in p.iter("dihedral")])
def apply(ref,pn):
    ref=copy.deepcopy(ref); p=P[pn]
    for an,a in p["atoms"].items():
        ref["atoms"][an]=copy.deepcopy(a)
        for b in a["bonds"]:
            if b in ref["atoms"] and an not in ref["atoms"][b]["bonds"]: ref["atoms"][b]["bonds"].append(an)
    for r in p["remove"]:
        if r in ref["atoms"]:
            for b in ref["atoms"][r]["bonds"]:
                if b in ref["atoms"] and r in ref["atoms"][b]["bonds"]: ref["atoms"][b]["bonds"].remove(r)
            del ref["atoms"][r]
    ref["dihedrals"]+=p["dihedrals"]
    return ref
BACKBONE=["N","CA","C","O","O2","HA","HN","H","tN"]
def bfs(ref,src):
    dist={src:0}; q=collections.deque([src])
    while q:
        u=q.popleft()
        for v in ref["atoms"][u]["bonds"]:
            if v in ref["atoms"] and v not in dist: dist[v]=dist[u]+1; q.append(v)
    return dist
def refdist(ref,nterm,cterm):
    d=bfs(ref,"CA"); out={}
    for a in ref["atoms"]:
        if a in("N+1","C-1"): continue
        if a in BACKBONE: out[a]=-1
        elif cterm and a=="HO": out[a]=3
        elif nterm and a in("H2","H3"): out[a]=2
        else: out[a]=d.get(a)
    return out
def farside(ref,b,c):
    # atoms reachable from c without crossing bond b-c, not through b
    seen={c}; q=[c]
    while q:
        u=q.pop()
        for v in ref["atoms"][u]["bonds"]:
            if v==b and u==c: continue
            if v in ref["atoms"] and v not in seen and v not in ("N+1","C-1"): seen.add(v); q.append(v)
    return seen
tot=0; bad=[]
for rn,ref0 in AA.items():
    if rn in("WAT","LIG","HOH"): continue
    if "CA" not in ref0["atoms"]: continue
    for pos,pl in [("mid",["PEPTIDE"]),("N",["NTERM"]),("C",["CTERM"]),("nN",["NEUTRAL-NTERM"]),("nC",["NEUTRAL-CTERM"])]:
        ref=ref0
        for p in pl: ref=apply(ref,p)
        rd=refdist(ref,pos in("N","nN"),pos in("C","nC"))
        for dih in ref["dihedrals"]:
            a,b,c,d=dih.split()
            if any(x not in ref["atoms"] for x in (a,b,c,d)): continue
            tot+=1
            mv={x for x,v in rd.items() if v is not None and v>rd[c]}
            fs=farside(ref,b,c)
            ring = b in fs
            expect = fs-{c}
            if ring or mv!=expect:
                bad.append((rn,pos,dih,"RING" if ring else "", sorted(mv-expect), sorted(expect-mv)))
print(tot,"(residue,position,dihedral) instances;",len(bad),"deviate")
for b in bad: print(b)
ref=apply(AA["MET"],"NTERM")
print(sorted(ref["atoms"]))
print(refdist(ref,True,False))
print(ref["dihedrals"])
ref=apply(AA["MET"],"CTERM")
print(refdist(ref,False,True))
