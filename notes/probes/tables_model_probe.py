"""Prototype: independent model of topology + force-field tables (no pdb2pqr import)."""
import re, copy, xml.etree.ElementTree as ET
from collections import OrderedDict
D="/repo/pdb2pqr/dat/"

class RefAtom:
    def __init__(s,name,xyz,bonds,altnames): s.name=name; s.xyz=xyz; s.bonds=list(bonds); s.altnames=altnames
class Ref:
    def __init__(s,name): s.name=name; s.atoms=OrderedDict(); s.dihedrals=[]; s.altnames={}
def _atom(a):
    f=lambda k: float(a.findtext(k)) if a.findtext(k) is not None else 0.0
    return RefAtom(a.findtext("name").strip(), (f("x"),f("y"),f("z")), [b.text.strip() for b in a.findall("bond")], [x.text.strip() for x in a.findall("altname")])
def load_defs(path):
    out=OrderedDict()
    for r in ET.parse(path).getroot().iter("residue"):
        ref=Ref(r.findtext("name").strip())
        for a in r.findall("atom"):
            at=_atom(a); ref.atoms[at.name]=at
            for alt in at.altnames: ref.altnames[alt]=at.name
        ref.dihedrals=[d.text.strip() for d in r.findall("dihedral")]
        out[ref.name]=ref
    return out
class Patch:
    pass
def load_patches(path):
    out=[]
    for p in ET.parse(path).getroot().iter("patch"):
        P=Patch(); P.name=p.findtext("name").strip(); P.applyto=(p.findtext("applyto") or "").strip(); P.newname=(p.findtext("newname") or "").strip()
        P.atoms=OrderedDict(); P.altnames={}
        for a in p.iter("atom"):
            at=_atom(a); P.atoms[at.name]=at
            for alt in at.altnames: P.altnames[alt]=at.name
        P.remove=[r.text.strip() for r in p.iter("remove")]
        P.dihedrals=[d.text.strip() for d in p.iter("dihedral")]
        out.append(P)
    return out
def apply_patch(ref, P, newname=None):
    ref=copy.deepcopy(ref)
    for an,a in P.atoms.items():
        ref.atoms[an]=copy.deepcopy(a)
        for b in a.bonds:
            if b in ref.atoms and an not in ref.atoms[b].bonds: ref.atoms[b].bonds.append(an)
    ref.altnames.update(P.altnames)
    for r in P.remove:
        if r in ref.atoms:
            for b in ref.atoms[r].bonds:
                if b in ref.atoms and r in ref.atoms[b].bonds: ref.atoms[b].bonds.remove(r)
            del ref.atoms[r]
    ref.dihedrals+=P.dihedrals
    if newname: ref.name=ref.name  # name of reference object is unchanged (deepcopy)
    return ref
def definition():
    m=OrderedDict(); m.update(load_defs(D+"AA.xml")); m.update(load_defs(D+"NA.xml"))
    patches=load_patches(D+"PATCHES.xml"); pm=OrderedDict()
    for P in patches:
        if P.newname!="":
            for name in list(m.keys()):
                if re.compile(P.applyto).match(name):
                    nn=P.newname.replace("*",name)
                    m[nn]=apply_patch(m[name],P); pm[nn]=P
        if P.applyto in m:
            m[P.name]=apply_patch(m[P.applyto],P)
        pm[P.name]=P
    return m,pm
# ---- force field
class FFAtom:
    def __init__(s,name,q,r,res,grp=""): s.name=name; s.charge=q; s.radius=r; s.resname=res; s.group=grp
def load_ff(ff, defmap):
    M=OrderedDict()
    for line in open(D+ff.upper()+".DAT",encoding="utf-8"):
        if line.startswith("#"): continue
        f=line.split()
        if not f: continue
        M.setdefault(f[0],OrderedDict())[f[1]]=FFAtom(f[1],float(f[2]),float(f[3]),f[0],f[4] if len(f)>4 else "")
    def matching(regname,mp):
        rg=re.compile(regname+"$"); return [rg.match(n) for n in mp if rg.match(n)]
    def upd_res(to,frm):
        if to not in M: M[to]=OrderedDict()
        for an,a in M[frm].items(): M[to][an]=a
    root=ET.parse(D+ff.upper()+".names").getroot()
    for r in root.findall("residue"):
        new=r.findtext("name").strip(); old=r.findtext("useresname"); old=old.strip() if old else None
        amap=OrderedDict()
        for a in r.findall("atom"):
            amap[a.findtext("name").strip()]=a.findtext("useatomname").strip()
        if old is not None:
            newlist=matching(new,defmap)
            if "$group" in old:
                for mt in newlist:
                    frm=old.replace("$group",mt.group(1))
                    if frm in M: upd_res(mt.string,frm)
            else:
                for mt in newlist: upd_res(mt.string,old)
        if not amap: continue
        for mt in matching(new,M):
            res=M[mt.string]
            for nn,on in amap.items():
                if on in res: res[nn]=res[on]
    return M
if __name__=="__main__":
    import sys, logging
    sys.path.insert(0,"/repo"); logging.disable(logging.CRITICAL)
    from pdb2pqr import io, forcefield
    defn=io.get_definitions(); m,pm=definition()
    print("def keys equal:", list(defn.map.keys())==list(m.keys()), len(m), "patches equal:", list(defn.patches.keys())==list(pm.keys()), len(pm))
    bad=0
    for k in m:
        a=defn.map[k]; b=m[k]
        if list(a.map.keys())!=list(b.atoms.keys()) or a.dihedrals!=b.dihedrals or any(a.map[x].bonds!=b.atoms[x].bonds for x in a.map) or a.altnames!=b.altnames:
            bad+=1; print("DIFF def",k, set(a.map)^set(b.atoms))
    print("definition diffs:",bad)
    for ff in ["amber","charmm","parse","tyl06","peoepb","swanson"]:
        F=forcefield.Forcefield(ff,defn,None); M=load_ff(ff,m)
        d=0
        if set(F.map)!=set(M): print(ff,"res key diff",set(F.map)^set(M)); d+=1
        for rn in F.map:
            if rn not in M: continue
            fa=F.map[rn].atoms
            if set(fa)!=set(M[rn]): d+=1; print(ff,rn,"atom keys diff",set(fa)^set(M[rn])); continue
            for an,a in fa.items():
                b=M[rn][an]
                if (a.charge,a.radius,a.name,a.resname)!=(b.charge,b.radius,b.name,b.resname): d+=1; print(ff,rn,an,(a.charge,a.radius,a.name,a.resname),(b.charge,b.radius,b.name,b.resname))
        print(ff,"residues",len(M),"atoms",sum(len(v) for v in M.values()),"diffs",d)
