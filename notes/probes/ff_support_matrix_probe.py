from tables_model_probe import *
m,pm=definition()
FFS=["amber","charmm","parse","tyl06","peoepb","swanson"]
FF={f:load_ff(f,m) for f in FFS}
AA=["ALA","ARG","ASN","ASP","CYS","GLN","GLU","GLY","HIS","ILE","LEU","LYS","MET","PHE","PRO","SER","THR","TRP","TYR","VAL"]
# state: (label, patches, ffbase, formal, postprocess-removals)
STATES={
 "ARG":[("ARG",[],"ARG",+1,[]),("AR0",["AR0"],"AR0",0,[])],
 "ASP":[("ASP",[],"ASP",-1,[]),("ASH",["ASH"],"ASH",0,["HD1"])],
 "GLU":[("GLU",[],"GLU",-1,[]),("GLH",["GLH"],"GLH",0,["HE1"])],
 "CYS":[("CYS",[],"CYS",0,[]),("CYM",["CYM"],"CYM",-1,[]),("CYX",["CYX"],"CYX",0,[])],
 "HIS":[("HID",[],"HID",0,["HE2"]),("HIE",[],"HIE",0,["HD1"]),("HIP",["HIP"],"HIP",+1,[])],
 "LYS":[("LYS",[],"LYS",+1,[]),("LYN",["LYN"],"LYN",0,[])],
 "TYR":[("TYR",[],"TYR",0,[]),("TYM",["TYM"],"TYM",-1,[])],
}
POS={"mid":(["PEPTIDE"],"",0),"N":(["NTERM"],"N",+1),"C":(["CTERM"],"C",-1),"nN":(["NEUTRAL-NTERM"],"NEUTRAL-N",0),"nC":(["NEUTRAL-CTERM"],"NEUTRAL-C",0)}
def cell(res,pos,st):
    label,patches,base,q,rm=st; pp,prefix,pq=POS[pos]
    ref=m[res]
    for p in pp+patches: ref=apply_patch(ref,pm[p])
    names=[a for a in ref.atoms if a not in("N+1","C-1") and a not in rm]
    if res=="PRO" and pos in("N","nN"): pass
    return prefix+base, names, q+pq
import sys
rows={}
for ff in FFS:
    for res in AA:
        for st in STATES.get(res,[(res,[],res,0,[])]):
            for pos in POS:
                ffname,names,q=cell(res,pos,st)
                R=FF[ff].get(ffname)
                miss=[a for a in names if R is None or a not in R]
                tot=None if miss else round(sum(R[a].charge for a in names),4)
                rows[(ff,res,st[0],pos)]=(ffname,miss,tot,q)
# summary: supported & integral?
for ff in FFS:
    sup=[k for k,v in rows.items() if k[0]==ff and not v[1]]
    badq=[(k,v) for k,v in rows.items() if k[0]==ff and not v[1] and abs(v[2]-v[3])>1e-3]
    part=[(k,v) for k,v in rows.items() if k[0]==ff and v[1] and len(v[1])<4]
    print(ff,"cells",sum(1 for k in rows if k[0]==ff),"fully parameterised",len(sup),"wrong-charge",len(badq),"partially-missing(<4 atoms)",len(part))
    for k,v in badq: print("   CHARGE",k,v[0],v[2],"expected",v[3])
    for k,v in part: print("   PARTIAL",k,v[0],v[1])
# C06 support matrix for titratable states at positions mid/N/C
print()
T=[("ARG","AR0"),("ASP","ASH"),("CYS","CYM"),("GLU","GLH"),("HIS","HIP"),("LYS","LYN"),("TYR","TYM")]
for res,lab in T:
    for pos in ("mid","N","C"):
        print(f"{lab:4s} {pos:3s}", " ".join(f"{ff}:{'Y' if not rows[(ff,res,lab,pos)][1] else 'n'}" for ff in FFS))
for pos,lab in (("nN","neutral N-term"),("nC","neutral C-term")):
    print(lab, " ".join(f"{ff}:{sum(1 for r in AA for st in STATES.get(r,[(r,[],r,0,[])])[:1] if not rows[(ff,r,st[0],pos)][1])}/20" for ff in FFS))
