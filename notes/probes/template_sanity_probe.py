"""Probe for C05.R3 / C02.R3 / C01.R6 claims in DESIGN.md (exploratory, not framework)."""
import math, itertools
from tables_model_probe import *
m,pm=definition()
def dist(a,b): return math.dist(a,b)
def ang(a,b,c):
    v1=[a[i]-b[i] for i in range(3)]; v2=[c[i]-b[i] for i in range(3)]
    d=sum(x*y for x,y in zip(v1,v2))/(math.hypot(*v1)*math.hypot(*v2)); return math.degrees(math.acos(max(-1,min(1,d))))
# bond symmetry + H parent distance in every reference (incl. patched variants)
asym=[]; hd=[]; nparent=[]
for rn,ref in m.items():
    for an,a in ref.atoms.items():
        for b in a.bonds:
            if b in ref.atoms and an not in ref.atoms[b].bonds: asym.append((rn,an,b))
        if an.startswith("H"):
            par=[b for b in a.bonds if b in ref.atoms]
            if len(par)!=1: nparent.append((rn,an,a.bonds))
            for b in par: hd.append((round(dist(a.xyz,ref.atoms[b].xyz),3),rn,an,b))
print("references:",len(m),"asymmetric bonds:",len(asym),asym[:8])
print("H with !=1 parent:",len(nparent),nparent[:8])
hd.sort(); print("H-parent distance range:",hd[0],hd[-1]); print("  outside 0.90-1.15 (non-S):",[x for x in hd if not(0.90<=x[0]<=1.15) and not x[3].startswith("S")][:12]); print("  S-H:",sorted({x[0] for x in hd if x[3].startswith("S")}))
# tetrahedral groups: heavy atom with exactly 3 H and one heavy neighbour
angs=[]
for rn,ref in m.items():
    for an,a in ref.atoms.items():
        hs=[b for b in a.bonds if b.startswith("H") and b in ref.atoms]; hv=[b for b in a.bonds if not b.startswith("H") and b not in("C-1","N+1") and b in ref.atoms]
        if len(hs)==3 and len(hv)==1:
            for h1,h2 in itertools.combinations(hs,2): angs.append((round(ang(ref.atoms[h1].xyz,a.xyz,ref.atoms[h2].xyz),1),rn,an,h1,h2))
angs.sort(); print("tetrahedral H-X-H range:",angs[0],angs[-1],len(angs))
# idempotence of terminal patches on atom sets
bad=[]
AAn=[k for k in m if k in load_defs(D+"AA.xml") and "CA" in m[k].atoms]
for pn in ["NTERM","CTERM","NEUTRAL-NTERM","NEUTRAL-CTERM","PEPTIDE"]:
    for rn in AAn:
        r1=apply_patch(m[rn],pm[pn]); r2=apply_patch(r1,pm[pn])
        if list(r1.atoms)!=list(r2.atoms) or any(sorted(r1.atoms[a].bonds)!=sorted(r2.atoms[a].bonds) for a in r1.atoms): bad.append((pn,rn))
print("idempotence failures:",bad[:10], "checked", 5*len(AAn))
NAn=[k for k in load_defs(D+"NA.xml")]
for pn in ["5TERM","3TERM"]:
    for rn in NAn:
        r1=apply_patch(m[rn],pm[pn]); r2=apply_patch(r1,pm[pn])
        if list(r1.atoms)!=list(r2.atoms): bad.append((pn,rn))
print("idempotence failures incl NA:",bad[:10])
# duplicate atom names inside one template/patch (xml level)
import xml.etree.ElementTree as ET, collections
for fn in ["AA.xml","NA.xml","PATCHES.xml"]:
    root=ET.parse(D+fn).getroot()
    for r in list(root.iter("residue"))+list(root.iter("patch")):
        c=collections.Counter(a.findtext("name").strip() for a in r.iter("atom"))
        d=[k for k,v in c.items() if v>1]
        if d: print("duplicate atom names in",fn,r.findtext("name"),d)
