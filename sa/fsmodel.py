"""Model of the file system for object-model evaluations (engine level: used by the interpreter for pathlib values and by the checks)."""
from __future__ import annotations

import ast

from .core import U

PKG_ROOT = "/site/pdb2pqr"  # where the package "is installed" in every model evaluation (__file__ of module rel is PKG_ROOT/rel)


class _PathModel(dict):
    """Model of a pathlib path: an object model (hashable by identity) that also supports the `/` operator."""
    __hash__ = object.__hash__

    def __eq__(self, other):
        return isinstance(other, _PathModel) and self["__str__"] == other["__str__"]

    def __truediv__(self, other):
        tail = other["__str__"] if isinstance(other, dict) else other
        if not isinstance(tail, str):
            return NotImplemented
        return self["__fs__"].path(tail if tail.startswith("/") else self["__str__"].rstrip("/") + "/" + tail)

    def __rtruediv__(self, other):
        if not isinstance(other, str):
            return NotImplemented
        return self["__fs__"].path(self["__str__"] if self["__str__"].startswith("/") else other.rstrip("/") + "/" + self["__str__"])


class FileSystemModel:
    """A dictionary path -> text standing for the file system during a model evaluation, as an ObjRunner hook: open (read / write /
    append), read, read(n), readline, readlines, iteration, write, writelines, close, pathlib.Path (name, stem, suffix, parent, is_file,
    exists) and str(path).  read(n) hands out at most `short_read` characters at a time - the documented contract of read(size) is 'at
    most size characters', and code that reads in blocks has to cope with a block boundary anywhere in a line."""

    def __init__(self, files=None, short_read=157):
        self.files = dict(files or {})
        self.short_read = short_read
        self.opened = []

    @staticmethod
    def _text(x):
        return x["__str__"] if isinstance(x, dict) and x.get("__class__") == "<path>" else x

    def path(self, src):
        from pathlib import PurePosixPath
        from .guards import Obj
        p_ = PurePosixPath(src)
        o = _PathModel({"__class__": "<path>", "__str__": str(p_), "name": p_.name, "stem": p_.stem, "suffix": p_.suffix, "suffixes": list(p_.suffixes),
                        "__fs__": self})
        if str(p_.parent) != str(p_):
            o["parent"] = self.path(str(p_.parent))
        return o

    def hook(self, run, interp, call, args, kw):
        from .guards import Flow, Obj
        name = U(call.func)
        if name in ("Path", "pathlib.Path", "PurePath") and len(args) == 1 and isinstance(self._text(args[0]), str):
            return self.path(self._text(args[0]))
        if name == "str" and len(args) == 1 and isinstance(args[0], dict) and args[0].get("__class__") == "<path>":
            return args[0]["__str__"]
        if name == "open" and args and isinstance(self._text(args[0]), str):
            path = self._text(args[0])
            mode = args[1] if len(args) > 1 else kw.get("mode", "r")
            if "w" in mode:
                self.files[path] = ""
            elif "a" in mode:
                self.files.setdefault(path, "")
            elif path not in self.files:
                raise Flow("raise", f"FileNotFoundError({path!r})", call)
            self.opened.append((path, mode))
            f = Obj({"__class__": "<file>", "path": path, "mode": mode, "pos": 0})
            f["__lines__"] = lambda f=f: self._rest(f).splitlines(keepends=True)
            return f
        if isinstance(call.func, ast.Attribute):
            attr = call.func.attr
            if attr in ("joinpath", "with_suffix", "with_name", "resolve", "absolute", "as_posix", "open"):
                recv = interp.ev(call.func.value)
                if isinstance(recv, dict) and recv.get("__class__") == "<path>":
                    here = recv["__str__"]
                    if attr == "joinpath":
                        out = recv
                        for a in args:
                            out = out / a
                        return out
                    if attr == "with_suffix" and args:
                        return self.path(here[: len(here) - len(recv["suffix"])] + args[0])
                    if attr == "with_name" and args:
                        return recv["parent"] / args[0] if "parent" in recv else self.path(args[0])
                    if attr in ("resolve", "absolute"):
                        return recv if here.startswith("/") else self.path("/cwd/" + here)
                    if attr == "as_posix":
                        return here
                    if attr == "open":
                        fake = ast.Call(func=ast.Name(id="open", ctx=ast.Load()), args=[], keywords=[])
                        return self.hook(run, interp, ast.copy_location(fake, call), [recv, *args], kw)
                return NotImplemented
            if attr in ("read", "readline", "readlines", "write", "writelines", "close", "flush", "is_file", "exists", "is_dir"):
                recv = interp.ev(call.func.value)
                if isinstance(recv, dict) and recv.get("__class__") == "<path>" and attr in ("is_file", "exists", "is_dir"):
                    here = recv["__str__"]
                    is_file = here in self.files
                    is_dir = any(k.startswith(here.rstrip("/") + "/") for k in self.files) or here in (".", "")
                    return is_file if attr == "is_file" else is_dir if attr == "is_dir" else (is_file or is_dir)
                if not (isinstance(recv, dict) and recv.get("__class__") == "<file>"):
                    return NotImplemented
                if attr in ("close", "flush"):
                    return None
                if attr == "write":
                    self.files[recv["path"]] += args[0]
                    return len(args[0])
                if attr == "writelines":
                    self.files[recv["path"]] += "".join(args[0])
                    return None
                rest = self.files[recv["path"]][recv["pos"]:]
                if attr == "read":
                    n = len(rest) if not args or args[0] is None or args[0] < 0 else min(args[0], self.short_read)
                    out = rest[:n]
                elif attr == "readline":
                    out = rest.splitlines(keepends=True)[0] if rest else ""
                else:
                    out = rest
                recv["pos"] += len(out)
                return out.splitlines(keepends=True) if attr == "readlines" else out
        return NotImplemented

    def _rest(self, f):
        rest = self.files[f["path"]][f["pos"]:]
        f["pos"] += len(rest)
        return rest
