"""E5 decision-table extraction: evaluate loop-free guard cascades over declared finite domains.

The functions analysed with this engine (``apply_pka_values`` loop body, the ``set_state``
methods, ``assign_termini``) are ``if/elif`` cascades whose tests are drawn from a small
predicate language.  For one tuple of a *declared finite domain* the engine decides which
effect sites (patch applied, warning, name assigned, atom removed) are enabled.  Nothing of
the repository is imported or run; a construct outside the recognised language raises
AnalysisError (exit 2) -- it is never skipped.
"""
from __future__ import annotations

import ast

from .core import AnalysisError, U


_EXC_PARENTS = {
    "KeyError": {"LookupError", "Exception", "BaseException"}, "IndexError": {"LookupError", "Exception", "BaseException"},
    "ValueError": {"Exception", "BaseException"}, "TypeError": {"Exception", "BaseException"},
    "FileNotFoundError": {"OSError", "IOError", "Exception", "BaseException"}, "ZeroDivisionError": {"ArithmeticError", "Exception", "BaseException"},
    "AttributeError": {"Exception", "BaseException"}, "RuntimeError": {"Exception", "BaseException"},
    "NotImplementedError": {"RuntimeError", "Exception", "BaseException"}, "UnicodeDecodeError": {"ValueError", "Exception", "BaseException"},
}


class Obj(dict):
    """Model of an object: a dictionary of attributes that hashes and compares by identity (usable as a dictionary key)."""

    __hash__ = object.__hash__

    def __eq__(self, other):
        return self is other

    def __ne__(self, other):
        return self is not other


def _is_object(d):
    """Dictionaries that model objects (compared by identity) as opposed to dictionaries that model mappings."""
    return isinstance(d, Obj) or "name" in d or any(isinstance(k, str) and k.startswith("__") for k in d)


class Unknown:
    """A value the domain does not determine; using it in a decision is an error."""

    def __init__(self, why=""):
        self.why = why

    def __repr__(self):
        return f"Unknown({self.why})"


class Flow(Exception):
    def __init__(self, kind, value=None, node=None):
        self.kind = kind
        self.value = value
        self.node = node


class Interp:
    """Evaluator for the guard language over one domain tuple (``env``).

    env maps normalised expression text ("residue.is_n_term", "force_field") to values.
    ``call_hook(interp, call)`` handles calls (effects and pure helpers); it returns a value
    or raises AnalysisError.  ``on_store(interp, target_text, value, node)`` observes stores.
    """

    LOG_PREFIXES = ("_LOGGER.", "logging.")

    def __init__(self, env, call_hook=None, on_store=None, loop_hook=None, strict=False, name_hook=None, attr_hook=None):
        self.attr_hook = attr_hook  # attribute of a modelled object that is not stored on it (a @property of its class)
        self.str_hook = None  # text of a modelled object (its class's __str__/__repr__); set by the object-model runner
        self.yield_hook = None  # hands a yielded value to the consumer (generator evaluation)
        self.def_hook = None  # value of a nested function definition (a closure over this environment)
        self.name_hook = name_hook  # resolves free names / attributes of free names (class references, builtins) or returns NotImplemented
        self.strict = strict  # concrete evaluation: a failed lookup is the program's own KeyError/IndexError, not a missing domain
        self.env = dict(env)
        self.call_hook = call_hook
        self.on_store = on_store
        self.loop_hook = loop_hook
        self.trace = []

    # ---------------------------------------------------------------- expressions
    def ev(self, node):
        text = U(node)
        if text in self.env:
            return self.env[text]
        if isinstance(node, ast.Constant):
            return node.value
        if isinstance(node, (ast.List, ast.Tuple, ast.Set)):
            vals = []
            for e in node.elts:
                if isinstance(e, ast.Starred):
                    seq = self.ev(e.value)
                    if isinstance(seq, Unknown):
                        return Unknown("starred " + seq.why)
                    vals.extend(list(seq))
                else:
                    vals.append(self.ev(e))
            return vals if isinstance(node, ast.List) else tuple(vals) if isinstance(node, ast.Tuple) else set(vals)
        if isinstance(node, ast.Dict) and all(k is not None for k in node.keys):
            return {self.ev(k): self.ev(v) for k, v in zip(node.keys, node.values)}
        if self.name_hook is not None and (isinstance(node, ast.Name) or (isinstance(node, ast.Attribute) and isinstance(node.value, ast.Name)
                                                                           and node.value.id not in self.env)):
            got = self.name_hook(self, node)
            if got is not NotImplemented:
                return got
        if isinstance(node, ast.Name):
            # a module-level constant of the module the expression stands in (its own or imported from a sibling module)
            mod = getattr(node, "_module", None)
            prog = getattr(mod, "_prog", None)
            if prog is not None:
                genv = prog.module_env(mod.rel)
                if node.id in genv:
                    return genv[node.id]
            raise AnalysisError(f"guard language: free name {node.id!r} has no declared domain ({text})")
        if isinstance(node, ast.Attribute):
            base = self.ev(node.value) if not isinstance(node.value, ast.Name) or U(node.value) in self.env else None
            if base is None and isinstance(node.value, ast.Name) and self.name_hook is not None:
                got = self.name_hook(self, node.value)  # a class of the repository named directly: Class.attr
                if isinstance(got, dict) and got.get("__is_class__"):
                    base = got
            if isinstance(base, dict) and node.attr in base:
                return base[node.attr]
            if node.attr == "__name__" and isinstance(base, str) and U(node.value).endswith("__class__"):
                return base  # object models store their class by name
            if node.attr in ("__name__", "__qualname__") and isinstance(base, dict) and base.get("__is_class__"):
                return base["__class__"]
            if self.attr_hook is not None and isinstance(base, dict):
                got = self.attr_hook(self, base, node.attr, node)
                if got is not NotImplemented:
                    return got
            if isinstance(base, dict) and node.attr in base.get("__props__", ()):
                return base["__props__"][node.attr](base)  # a property of the modelled object, computed at access time
            if isinstance(base, Unknown):
                return Unknown(text)
            raise AnalysisError(f"guard language: attribute {text!r} has no declared domain")
        if isinstance(node, ast.BoolOp):
            if isinstance(node.op, ast.And):
                res = True
                for v in node.values:
                    res = self.truth(self.ev(v), v)
                    if not res:
                        return False
                return res
            res = False
            for v in node.values:
                res = self.truth(self.ev(v), v)
                if res:
                    return True
            return res
        if isinstance(node, ast.UnaryOp):
            if isinstance(node.op, ast.Not):
                return not self.truth(self.ev(node.operand), node.operand)
            if isinstance(node.op, ast.USub):
                return -self.ev(node.operand)
            if isinstance(node.op, ast.UAdd):
                return +self.ev(node.operand)
        if isinstance(node, ast.Compare):
            left = self.ev(node.left)
            for op, comp in zip(node.ops, node.comparators):
                right = self.ev(comp)
                res = self.compare(left, op, right, node)
                if getattr(res, "free_symbols", None):
                    if len(node.ops) == 1:
                        return res  # a symbolic relation: undetermined (explored both ways in fork mode)
                    raise AnalysisError(f"guard language: comparison on undetermined value in {U(node)!r} (symbolic chain)")
                if not res:
                    return False
                left = right
            return True
        if isinstance(node, ast.IfExp):
            return self.ev(node.body) if self.truth(self.ev(node.test), node.test) else self.ev(node.orelse)
        if isinstance(node, ast.NamedExpr) and isinstance(node.target, ast.Name):
            val = self.ev(node.value)
            self.env[node.target.id] = val
            return val
        if isinstance(node, ast.Yield) and self.yield_hook is not None:
            self.yield_hook(self.ev(node.value) if node.value is not None else None)
            return None
        if isinstance(node, ast.YieldFrom) and self.yield_hook is not None:
            for v in self.ev(node.value):
                self.yield_hook(v)
            return None
        if isinstance(node, ast.JoinedStr):
            parts = []
            for v in node.values:
                if isinstance(v, ast.Constant):
                    parts.append(str(v.value))
                else:
                    val = self.ev(v.value)
                    if isinstance(val, Unknown):
                        return Unknown("f-string of " + val.why)
                    spec = ""
                    if v.format_spec is not None:
                        spec = self.ev(v.format_spec)
                    if isinstance(val, dict) and _is_object(val) and self.str_hook is not None:
                        val = self.str_hook(val, "repr" if v.conversion == ord("r") else "str", v)
                    elif v.conversion == ord("s"):
                        val = str(val)
                    elif v.conversion == ord("r"):
                        val = repr(val)
                    try:
                        parts.append(format(val, spec))
                    except (ValueError, TypeError) as exc:
                        raise Flow("raise", f"{type(exc).__name__}({str(exc)!r} while formatting {U(v.value)})", node) from None
            return "".join(parts)
        if isinstance(node, ast.BinOp) and isinstance(node.op, (ast.Add, ast.Sub, ast.Mult, ast.FloorDiv, ast.Mod, ast.Div, ast.Pow)):
            a, b = self.ev(node.left), self.ev(node.right)
            if isinstance(a, Unknown) or isinstance(b, Unknown):
                return Unknown("arith")
            try:
                if isinstance(node.op, ast.Add):
                    return a + b
                if isinstance(node.op, ast.Sub):
                    return a - b
                if isinstance(node.op, ast.Mult):
                    return a * b
                if isinstance(node.op, ast.FloorDiv):
                    return a // b
                if isinstance(node.op, ast.Div):
                    return a / b
                if isinstance(node.op, ast.Pow):
                    return a ** b
                return a % b
            except TypeError:
                return Unknown("arith " + text)
            except ZeroDivisionError:
                raise Flow("raise", "ZeroDivisionError('division by zero')", node) from None
        if isinstance(node, ast.Subscript):
            base = self.ev(node.value)
            if isinstance(base, Unknown):
                return Unknown("subscript")
            if isinstance(node.slice, ast.Slice):
                lo = self.ev(node.slice.lower) if node.slice.lower else None
                hi = self.ev(node.slice.upper) if node.slice.upper else None
                return base[lo:hi]
            idx = self.ev(node.slice)
            try:
                return base[idx]
            except (KeyError, IndexError, TypeError) as exc:
                if self.strict and isinstance(exc, (KeyError, IndexError)):
                    raise Flow("raise", f"{type(exc).__name__}({str(exc)})", node) from None
                raise AnalysisError(f"guard language: cannot index {text!r}: {exc}") from exc
        if isinstance(node, ast.Call):
            return self.call(node)
        if isinstance(node, (ast.SetComp, ast.DictComp, ast.ListComp, ast.GeneratorExp)) and not any(g.is_async for g in node.generators):
            out = set() if isinstance(node, ast.SetComp) else {} if isinstance(node, ast.DictComp) else []
            saved = dict(self.env)
            unknown = []

            def loop(k):
                if k == len(node.generators):
                    if isinstance(node, ast.SetComp):
                        out.add(self.ev(node.elt))
                    elif isinstance(node, ast.DictComp):
                        out[self.ev(node.key)] = self.ev(node.value)
                    else:
                        out.append(self.ev(node.elt))
                    return
                gen = node.generators[k]
                seq = self.ev(gen.iter)
                if isinstance(seq, Unknown):
                    unknown.append(seq)
                    return
                for item in seq:
                    self.store(gen.target, item, node)
                    if all(self.truth(self.ev(c), c) for c in gen.ifs):
                        loop(k + 1)
                    if unknown:
                        return

            try:
                loop(0)
            finally:
                self.env = saved
            if unknown:
                return Unknown("comprehension over " + unknown[0].why)
            return out
        if isinstance(node, ast.Lambda) and self.def_hook is not None and not node.args.vararg and not node.args.kwarg and not node.args.kwonlyargs:
            return self.def_hook(self, node)  # a function value: its body is evaluated, in the defining environment, when it is called
        raise AnalysisError(f"guard language: unsupported expression {text!r} ({type(node).__name__})")

    def truth(self, val, node):
        if isinstance(val, Unknown):
            raise AnalysisError(f"guard language: decision on undetermined value {U(node)!r} ({val.why})")
        if getattr(val, "free_symbols", None):
            raise AnalysisError(f"guard language: decision on undetermined value {U(node)!r} (symbolic)")
        return bool(val)

    def compare(self, left, op, right, node):
        if isinstance(left, Unknown) or isinstance(right, Unknown):
            raise AnalysisError(f"guard language: comparison on undetermined value in {U(node)!r}")
        # ordered comparison of the two symbolic reals "ph" and "pKa": side in {lt, eq, gt}
        if isinstance(left, Sym) or isinstance(right, Sym):
            return Sym.compare(left, op, right, self.env, node)
        if isinstance(left, dict) and isinstance(right, dict) and isinstance(op, (ast.Eq, ast.NotEq)) and _is_object(left) and _is_object(right):
            return (left is right) if isinstance(op, ast.Eq) else (left is not right)
        if isinstance(op, ast.Eq):
            return left == right
        if isinstance(op, ast.NotEq):
            return left != right
        if isinstance(op, (ast.In, ast.NotIn)):
            if isinstance(left, dict) and _is_object(left) and isinstance(right, (list, tuple)):
                found = any(x is left for x in right)  # object models are compared by identity, like the objects they stand for
            else:
                found = left in right
            return found if isinstance(op, ast.In) else not found
        if isinstance(op, ast.Is):
            return left is right
        if isinstance(op, ast.IsNot):
            return left is not right
        if isinstance(op, ast.Lt):
            return left < right
        if isinstance(op, ast.LtE):
            return left <= right
        if isinstance(op, ast.Gt):
            return left > right
        if isinstance(op, ast.GtE):
            return left >= right
        raise AnalysisError(f"guard language: unsupported comparison in {U(node)!r}")

    def call(self, node):
        name = U(node.func)
        if name.startswith(self.LOG_PREFIXES):
            level = name.split(".")[-1]
            self.trace.append(("log", level, node))
            return None
        if name in ("str", "int", "float", "len", "bool", "abs"):
            args = [self.ev(a) for a in node.args]
            if any(isinstance(a, Unknown) for a in args):
                return Unknown(name)
            if name == "str" and len(args) == 1 and isinstance(args[0], dict) and _is_object(args[0]) and self.str_hook is not None:
                return self.str_hook(args[0], "str", node)
            try:
                return {"str": str, "int": int, "float": float, "len": len, "bool": bool, "abs": abs}[name](*args)
            except (ValueError, TypeError) as exc:
                if any(hasattr(a, "free_symbols") for a in args):
                    import sympy
                    return sympy.Function(name)(*args)  # symbolic evaluation: the conversion stays an uninterpreted term
                raise Flow("raise", f"{type(exc).__name__}({str(exc)!r})", node) from None
        if name in ("all", "any") and name not in self.env and len(node.args) == 1 and not node.keywords:
            seq = self.ev(node.args[0])
            if isinstance(seq, Unknown):
                return Unknown(name)
            vals = [self.truth(v, node) for v in list(seq)]
            return all(vals) if name == "all" else any(vals)
        if name in ("range", "enumerate", "zip", "min", "max", "sum", "sorted", "list", "tuple", "reversed", "round") \
                and name not in self.env and all(k.arg in ("strict", "start", "reverse", "default") for k in node.keywords):
            args = []
            for a in node.args:
                if isinstance(a, ast.Starred):
                    seq_ = self.ev(a.value)
                    if isinstance(seq_, Unknown):
                        return Unknown(name)
                    args.extend(list(seq_))
                else:
                    args.append(self.ev(a))
            kws = {k.arg: self.ev(k.value) for k in node.keywords}
            if name == "zip" and kws.get("strict") and len({len(list(a)) for a in args if not isinstance(a, Unknown)}) > 1:
                raise Flow("raise", "ValueError('zip() arguments have different lengths')", node)
            kws.pop("strict", None)
            if name == "enumerate" and "start" in kws:
                args.append(kws.pop("start"))
            if any(isinstance(a, Unknown) for a in args):
                return Unknown(name)
            try:
                res = {"range": range, "enumerate": enumerate, "zip": zip, "min": min, "max": max, "sum": sum, "sorted": sorted,
                       "list": list, "tuple": tuple, "reversed": reversed, "round": round}[name](*args, **kws)
            except (TypeError, ValueError) as exc:
                if name in ("round", "min", "max") and any(hasattr(a, "free_symbols") for a in args):
                    import sympy
                    return sympy.Function(name)(*args)  # symbolic evaluation: stays an uninterpreted term (never equal to its argument)
                raise AnalysisError(f"guard language: cannot evaluate {U(node)[:60]!r}: {exc}") from exc
            if name in ("range", "enumerate", "zip", "reversed"):
                return [list(x) if isinstance(x, tuple) and name != "zip" else x for x in res] if name == "enumerate" else list(res)
            return res
        if isinstance(node.func, ast.Attribute) and node.func.attr in ("strip", "lower", "upper", "startswith", "endswith"):
            base = self.ev(node.func.value)
            if isinstance(base, Unknown):
                return Unknown(name)
            if isinstance(base, str):
                args = [self.ev(a) for a in node.args]
                return getattr(base, node.func.attr)(*args)
        if isinstance(node.func, ast.Attribute) and node.func.attr in ("append", "pop", "extend", "remove", "insert"):
            try:
                base = self.ev(node.func.value)
            except AnalysisError:
                base = None
            if isinstance(base, list):
                args = [self.ev(a) for a in node.args]
                if node.func.attr == "remove" and args and isinstance(args[0], dict):
                    for i_, x in enumerate(base):
                        if x is args[0]:
                            del base[i_]
                            break
                    return None
                try:
                    return getattr(base, node.func.attr)(*args)
                except (IndexError, ValueError) as exc:
                    raise Flow("raise", f"{type(exc).__name__}({str(exc)!r})", node) from None
        if isinstance(node.func, ast.Attribute) and node.func.attr in ("get", "pop", "keys", "values", "items", "setdefault", "update", "copy"):
            try:
                base = self.ev(node.func.value)
            except AnalysisError:
                base = None
            if isinstance(base, dict) and not _is_object(base):
                args = [self.ev(a) for a in node.args]
                if not any(isinstance(a, Unknown) for a in args):
                    try:
                        res = getattr(base, node.func.attr)(*args)
                    except KeyError as exc:
                        raise Flow("raise", f"KeyError({str(exc)})", node) from None
                    return list(res) if node.func.attr in ("keys", "values", "items") else res
        if self.call_hook is not None:
            try:
                return self.call_hook(self, node)
            except AnalysisError as exc:
                # an error raised while a callee was being interpreted is never softened into "unknown value"
                exc.hard = True
                raise
        raise AnalysisError(f"guard language: unsupported call {name!r}")

    # ---------------------------------------------------------------- statements
    def run(self, stmts):
        for st in stmts:
            self.stmt(st)

    def stmt(self, st):
        if isinstance(st, ast.If):
            if self.truth(self.ev(st.test), st.test):
                self.run(st.body)
            else:
                self.run(st.orelse)
        elif isinstance(st, ast.Assign):
            val = self.ev_soft(st.value)
            for t in st.targets:
                self.store(t, val, st)
        elif isinstance(st, ast.AnnAssign):
            if st.value is not None:
                self.store(st.target, self.ev_soft(st.value), st)
        elif isinstance(st, ast.AugAssign):
            cur = self.ev_soft(st.target)
            val = self.ev_soft(st.value)
            ops = {ast.Add: lambda a, b: a + b, ast.Sub: lambda a, b: a - b, ast.Mult: lambda a, b: a * b, ast.Div: lambda a, b: a / b,
                   ast.FloorDiv: lambda a, b: a // b, ast.Mod: lambda a, b: a % b}
            if isinstance(cur, list) and isinstance(st.op, ast.Add) and isinstance(val, (list, tuple, set, frozenset)):
                cur.extend(val)  # list += iterable extends in place (aliases see it), whatever the iterable
                new = cur
            elif isinstance(cur, Unknown) or isinstance(val, Unknown) or type(st.op) not in ops:
                new = Unknown("augassign")
            else:
                try:
                    new = ops[type(st.op)](cur, val)
                except TypeError:
                    new = Unknown("augassign")
                except ZeroDivisionError:
                    raise Flow("raise", "ZeroDivisionError('division by zero')", st) from None
            self.store(st.target, new, st)
        elif isinstance(st, ast.Expr):
            if isinstance(st.value, ast.Constant):
                return  # docstring
            self.ev_soft(st.value)
        elif isinstance(st, ast.Return):
            raise Flow("return", self.ev_soft(st.value) if st.value else None, st)
        elif isinstance(st, ast.Continue):
            raise Flow("continue", node=st)
        elif isinstance(st, ast.Break):
            raise Flow("break", node=st)
        elif isinstance(st, ast.Raise):
            raise Flow("raise", U(st.exc) if st.exc else "", st)
        elif isinstance(st, (ast.Pass, ast.Import, ast.ImportFrom)):
            return  # imported names are resolved by the call hooks
        elif isinstance(st, ast.Delete):
            self.trace.append(("del", U(st), st))
            for tg in st.targets:
                if isinstance(tg, ast.Subscript) and isinstance(tg.slice, ast.Slice):
                    if not self.strict:
                        continue
                    base = self.ev(tg.value)
                    lo, hi, step = (None if x is None else self.ev(x) for x in (tg.slice.lower, tg.slice.upper, tg.slice.step))
                    if not isinstance(base, list) or any(isinstance(v, Unknown) for v in (lo, hi, step)):
                        raise AnalysisError(f"guard language: cannot delete the slice {U(tg)!r}")
                    del base[lo:hi:step]
                elif isinstance(tg, ast.Subscript):
                    try:
                        base, idx = self.ev(tg.value), self.ev(tg.slice)
                    except AnalysisError:
                        if self.strict:
                            raise
                        continue
                    if self.strict and (not isinstance(base, (dict, list)) or isinstance(idx, Unknown)):
                        raise AnalysisError(f"guard language: cannot delete {U(tg)!r}")
                    if isinstance(base, (dict, list)) and not isinstance(idx, Unknown):
                        try:
                            del base[idx]
                        except (KeyError, IndexError) as exc:
                            if self.strict:
                                raise Flow("raise", f"{type(exc).__name__}({str(exc)})", st) from None
                elif isinstance(tg, ast.Name) and tg.id in self.env:
                    del self.env[tg.id]
                elif isinstance(tg, ast.Attribute) and self.strict:
                    base = self.ev(tg.value)
                    if isinstance(base, dict) and tg.attr in base:
                        del base[tg.attr]
                    else:
                        raise AnalysisError(f"guard language: cannot delete {U(tg)!r}")
                elif self.strict and not isinstance(tg, ast.Name):
                    raise AnalysisError(f"guard language: cannot delete {U(tg)!r}")
        elif isinstance(st, (ast.FunctionDef, ast.Lambda)) and self.def_hook is not None:
            self.env[st.name] = self.def_hook(self, st)
        elif hasattr(ast, "Match") and isinstance(st, ast.Match) and self.loop_hook is not None:
            subject = self.ev(st.subject)
            if isinstance(subject, Unknown):
                raise AnalysisError(f"guard language: match on undetermined value {U(st.subject)!r}")
            for case in st.cases:
                if self._match(case.pattern, subject) and (case.guard is None or self.truth(self.ev(case.guard), case.guard)):
                    self.run(case.body)
                    break
        elif isinstance(st, ast.Assert) and self.loop_hook is not None:
            if not self.truth(self.ev(st.test), st.test):
                raise Flow("raise", f"AssertionError({U(st.test)[:60]})", st)
        elif isinstance(st, (ast.With, ast.AsyncWith)) and self.loop_hook is not None:
            for item in st.items:
                ctx = self.ev(item.context_expr)  # the context manager model is its own __enter__ result; __exit__ has no modelled effect
                if item.optional_vars is not None:
                    self.store(item.optional_vars, ctx, st)
            self.run(st.body)
        elif isinstance(st, ast.Try) and self.loop_hook is not None:
            try:
                try:
                    self.run(st.body)
                except Flow as fl:
                    if fl.kind != "raise":
                        raise
                    exc_cls = str(fl.value).split("(")[0].strip() or "Exception"
                    for h in st.handlers:
                        names = [] if h.type is None else [U(t).split(".")[-1] for t in (h.type.elts if isinstance(h.type, ast.Tuple) else [h.type])]
                        if h.type is None or exc_cls in names or set(names) & _EXC_PARENTS.get(exc_cls, {"Exception", "BaseException"}):
                            if h.name:
                                self.env[h.name] = Unknown("exception object")
                            self.run(h.body)
                            break
                    else:
                        raise
                else:
                    self.run(st.orelse)
            finally:
                if st.finalbody:
                    self.run(st.finalbody)
        elif isinstance(st, ast.While) and self.loop_hook is not None:
            n_iter = 0
            while self.truth(self.ev(st.test), st.test):
                n_iter += 1
                if n_iter > 10000:
                    raise AnalysisError(f"guard language: while-loop at line {st.lineno} does not terminate on the model")
                try:
                    self.run(st.body)
                except Flow as fl:
                    if fl.kind == "break":
                        break
                    if fl.kind == "continue":
                        continue
                    raise
        elif isinstance(st, ast.For) and self.loop_hook is not None:
            self.loop_hook(self, st)
        else:
            raise AnalysisError(
                f"guard language: statement {type(st).__name__} at line {st.lineno} is outside the analysable "
                f"subset: {U(st)[:70]!r}"
            )

    def _match(self, pat, subject):
        """Structural pattern matching for the patterns found in line dispatchers: literals, alternatives, wildcard / capture, sequences."""
        if isinstance(pat, ast.MatchValue):
            return self.ev(pat.value) == subject
        if isinstance(pat, ast.MatchSingleton):
            return subject is pat.value
        if isinstance(pat, ast.MatchOr):
            return any(self._match(p_, subject) for p_ in pat.patterns)
        if isinstance(pat, ast.MatchAs):
            if pat.pattern is not None and not self._match(pat.pattern, subject):
                return False
            if pat.name is not None:
                self.env[pat.name] = subject
            return True
        if isinstance(pat, ast.MatchSequence) and isinstance(subject, (list, tuple)):
            stars = [i for i, p_ in enumerate(pat.patterns) if isinstance(p_, ast.MatchStar)]
            if not stars:
                return len(pat.patterns) == len(subject) and all(self._match(p_, v) for p_, v in zip(pat.patterns, subject))
            k = stars[0]
            after = len(pat.patterns) - k - 1
            if len(subject) < k + after:
                return False
            ok = all(self._match(p_, v) for p_, v in zip(pat.patterns[:k], subject[:k])) and \
                all(self._match(p_, v) for p_, v in zip(pat.patterns[k + 1:], subject[len(subject) - after:]))
            if ok and pat.patterns[k].name is not None:
                self.env[pat.patterns[k].name] = list(subject[k:len(subject) - after])
            return ok
        raise AnalysisError(f"guard language: pattern {type(pat).__name__} is outside the analysable subset")

    def ev_soft(self, node):
        """Evaluate, mapping 'no declared domain' to Unknown (legal unless later decided on)."""
        try:
            return self.ev(node)
        except AnalysisError as exc:
            if ("no declared domain" in str(exc) or "cannot index" in str(exc)) and not getattr(exc, "hard", False):
                if self.strict and any(isinstance(n, ast.Call) and not U(n.func).startswith(self.LOG_PREFIXES) for n in ast.walk(node)):
                    raise  # object-model evaluation: a call that could not be evaluated may have had an effect; never skip it silently
                return Unknown(U(node))
            raise

    def store(self, target, val, node):
        if isinstance(target, (ast.Tuple, ast.List)):
            for i, e in enumerate(target.elts):
                if isinstance(val, (list, tuple)) and len(val) == len(target.elts):
                    self.store(e, val[i], node)
                else:
                    self.store(e, Unknown("unpack"), node)
            return
        text = U(target)
        if isinstance(target, ast.Attribute):
            try:
                base = self.ev(target.value)
            except AnalysisError:
                base = None
            if isinstance(base, dict):
                base[target.attr] = val
                if self.on_store is not None:
                    self.on_store(self, text, val, node)
                return
        if isinstance(target, ast.Subscript) and not isinstance(target.slice, ast.Slice):
            try:
                base, idx = self.ev(target.value), self.ev(target.slice)
            except AnalysisError:
                base = idx = None
            if isinstance(base, (dict, list)) and (isinstance(idx, Obj) or not isinstance(idx, (Unknown, dict, list))) and idx is not None:
                try:
                    base[idx] = val
                except (IndexError, TypeError) as exc:
                    raise AnalysisError(f"guard language: cannot store {text!r}: {exc}") from exc
                if self.on_store is not None:
                    self.on_store(self, text, val, node)
                return
        self.env[text] = val
        if self.on_store is not None:
            self.on_store(self, text, val, node)


class Sym:
    """Symbolic real for ordering tests of exactly two quantities (pH vs pKa)."""

    def __init__(self, name):
        self.name = name

    def __repr__(self):
        return f"Sym({self.name})"

    @staticmethod
    def compare(left, op, right, env, node):
        if not (isinstance(left, Sym) and isinstance(right, Sym)):
            raise AnalysisError(f"guard language: mixed symbolic comparison {U(node)!r}")
        side = env.get(f"__order__{left.name}_{right.name}")
        if side is None:
            rev = env.get(f"__order__{right.name}_{left.name}")
            if rev is None:
                raise AnalysisError(f"guard language: no declared ordering for {left.name} vs {right.name}")
            side = {"lt": "gt", "gt": "lt", "eq": "eq"}[rev]
        table = {
            ast.Lt: side == "lt", ast.LtE: side in ("lt", "eq"), ast.Gt: side == "gt",
            ast.GtE: side in ("gt", "eq"), ast.Eq: side == "eq", ast.NotEq: side != "eq",
        }
        if type(op) not in table:
            raise AnalysisError(f"guard language: unsupported ordering operator in {U(node)!r}")
        return table[type(op)]


class _NeedDecision(Exception):
    def __init__(self, key):
        self.key = key


class ForkInterp(Interp):
    """Interp whose undetermined ``if`` tests are free: ``explore`` forks on each of them (demonic choice).

    A test counts as undetermined when its evaluation meets a value with no declared domain; the test text is the
    decision key, so the same test decides the same way along one path.
    """

    def __init__(self, env, oracle, **kw):
        super().__init__(env, **kw)
        self.oracle = oracle

    def stmt(self, st):
        if isinstance(st, ast.If):
            try:
                val = self.ev(st.test)
                if isinstance(val, Unknown) or getattr(val, "free_symbols", None):
                    raise AnalysisError("undetermined")
                dec = bool(val)
            except AnalysisError as exc:
                if not any(s in str(exc) for s in ("no declared domain", "undetermined", "cannot index")):
                    raise
                key = U(st.test)
                if key not in self.oracle:
                    raise _NeedDecision(key) from None
                dec = self.oracle[key]
            self.run(st.body if dec else st.orelse)
            return
        super().stmt(st)


def explore(stmts, make_env, limit=256, **kw):
    """Run ``stmts`` on every path through their undetermined tests.  Yields (decisions, interp, flow-kind or None).

    ``make_env()`` must build a fresh environment (object models are mutated by a run).
    """
    work = [{}]
    n = 0
    while work:
        oracle = work.pop()
        n += 1
        if n > limit:
            raise AnalysisError("explore: more than %d paths through undetermined tests" % limit)
        it = ForkInterp(make_env(), oracle, **kw)
        try:
            it.run(stmts)
            yield oracle, it, None
        except _NeedDecision as nd:
            work.append({**oracle, nd.key: True})
            work.append({**oracle, nd.key: False})
        except Flow as fl:
            yield oracle, it, fl.kind
