"""Behaviour-preserving rewrites of a source file (refactoring fuzz): every check must stay silent on the rewritten package.

Modes: locals (consistent renaming of every local), loopvars, swapcmp (CONST on the left of comparisons), annassign
(annotated local assignments), logs / logs-everywhere (a debug log call inserted at function start / before every
statement), invert-guards (`for: if c: body` -> `if not c: continue`), annotate-params, reverse-defs (methods of a class in
reverse order).  Used by tools/alpha_fuzz.py and by the thorough tier (sa/audit.py).
"""
import ast

MODES = ("locals", "swapcmp", "annassign", "logs-everywhere", "invert-guards", "annotate-params", "reverse-defs")


class Renamer(ast.NodeTransformer):
    def __init__(self, mapping):
        self.m = mapping

    def visit_Name(self, node):
        if node.id in self.m:
            node.id = self.m[node.id]
        return node

    def visit_FunctionDef(self, node):  # do not descend into nested definitions
        return node

    visit_AsyncFunctionDef = visit_FunctionDef
    visit_Lambda = visit_FunctionDef
    visit_ClassDef = visit_FunctionDef


def locals_of(fn, mode="locals"):
    params = {a.arg for a in fn.args.args + fn.args.kwonlyargs + fn.args.posonlyargs}
    if fn.args.vararg:
        params.add(fn.args.vararg.arg)
    if fn.args.kwarg:
        params.add(fn.args.kwarg.arg)
    declared = set()
    stores, nested_uses = set(), set()
    has_nested = False
    for n in ast.walk(fn):
        if n is fn:
            continue
        if isinstance(n, (ast.FunctionDef, ast.AsyncFunctionDef, ast.Lambda, ast.ClassDef)):
            has_nested = True
        if isinstance(n, (ast.Global, ast.Nonlocal)):
            declared |= set(n.names)
    if has_nested:
        return {}
    for n in ast.walk(fn):
        if isinstance(n, ast.Name) and isinstance(n.ctx, (ast.Store, ast.Del)):
            stores.add(n.id)
    if mode == "loopvars":
        stores = set()
        for n in ast.walk(fn):
            if isinstance(n, (ast.For, ast.comprehension)):
                for t in ast.walk(n.target):
                    if isinstance(t, ast.Name):
                        stores.add(t.id)
    names = {s for s in stores - params - declared if not s.startswith("__") and s != "_"}
    return {s: s + "_r" for s in names}


class Swap(ast.NodeTransformer):
    MIRROR = {ast.Eq: ast.Eq, ast.NotEq: ast.NotEq, ast.Lt: ast.Gt, ast.Gt: ast.Lt, ast.LtE: ast.GtE, ast.GtE: ast.LtE}

    def visit_Compare(self, node):
        self.generic_visit(node)
        if len(node.ops) == 1 and type(node.ops[0]) in self.MIRROR and isinstance(node.comparators[0], ast.Constant) \
                and not isinstance(node.left, ast.Constant):
            return ast.Compare(left=node.comparators[0], ops=[self.MIRROR[type(node.ops[0])]()], comparators=[node.left])
        return node


class Ann(ast.NodeTransformer):
    def visit_Assign(self, node):
        if len(node.targets) == 1 and isinstance(node.targets[0], ast.Name):
            return ast.AnnAssign(target=node.targets[0], annotation=ast.Name("object", ast.Load()), value=node.value, simple=1)
        return node

    def visit_ClassDef(self, node):  # class-level annotations would create dataclass-like fields: leave classes' own statements
        node.body = [self.visit(st) if isinstance(st, (ast.FunctionDef, ast.AsyncFunctionDef)) else st for st in node.body]
        return node

    def visit_Module(self, node):
        node.body = [self.visit(st) if isinstance(st, (ast.FunctionDef, ast.AsyncFunctionDef, ast.ClassDef)) else st for st in node.body]
        return node


def rewrite(src, mode="locals"):
    tree = ast.parse(src)
    if mode == "swapcmp":
        return ast.unparse(ast.fix_missing_locations(Swap().visit(tree))) + "\n"
    if mode == "annassign":
        return ast.unparse(ast.fix_missing_locations(Ann().visit(tree))) + "\n"
    if mode == "logs-everywhere" and "_LOGGER" in src:
        class Ins(ast.NodeTransformer):
            def block(self, stmts):
                out = []
                for st in stmts:
                    st = self.visit(st)
                    if not (isinstance(st, ast.Expr) and isinstance(st.value, ast.Constant)) and not isinstance(st, (ast.Import, ast.ImportFrom, ast.Global, ast.Nonlocal)):
                        out.append(ast.parse("_LOGGER.debug('trace')").body[0])
                    out.append(st)
                return out

            def generic_visit(self, node):
                for f in ("body", "orelse", "finalbody"):
                    v = getattr(node, f, None)
                    if isinstance(v, list) and v and isinstance(v[0], ast.stmt) and not isinstance(node, (ast.Module, ast.ClassDef)):
                        setattr(node, f, self.block(v))
                    elif isinstance(v, list):
                        setattr(node, f, [self.visit(x) if isinstance(x, ast.AST) else x for x in v])
                for h in getattr(node, "handlers", []) or []:
                    h.body = self.block(h.body)
                return node
        return ast.unparse(ast.fix_missing_locations(Ins().visit(tree))) + "\n"
    if mode == "invert-guards":
        class Inv(ast.NodeTransformer):
            def visit_For(self, node):
                self.generic_visit(node)
                if len(node.body) == 1 and isinstance(node.body[0], ast.If) and not node.body[0].orelse and not node.orelse:
                    inner = node.body[0]
                    node.body = [ast.If(test=ast.UnaryOp(op=ast.Not(), operand=inner.test), body=[ast.Continue()], orelse=[])] + inner.body
                return node
        return ast.unparse(ast.fix_missing_locations(Inv().visit(tree))) + "\n"
    if mode == "annotate-params":
        for node in ast.walk(tree):
            if isinstance(node, (ast.FunctionDef, ast.AsyncFunctionDef)):
                for a in node.args.args + node.args.kwonlyargs:
                    if a.arg not in ("self", "cls") and a.annotation is None:
                        a.annotation = ast.Constant("object")
                if node.returns is None and node.name != "__init__":
                    node.returns = ast.Constant("object")
        return ast.unparse(ast.fix_missing_locations(tree)) + "\n"
    if mode == "reverse-defs":
        for node in ast.walk(tree):
            if isinstance(node, ast.ClassDef):
                defs = [st for st in node.body if isinstance(st, (ast.FunctionDef, ast.AsyncFunctionDef)) and not st.decorator_list]
                if len(defs) > 1:
                    it = iter(reversed(defs))
                    node.body = [next(it) if (isinstance(st, (ast.FunctionDef, ast.AsyncFunctionDef)) and not st.decorator_list) else st for st in node.body]
        return ast.unparse(ast.fix_missing_locations(tree)) + "\n"
    if mode == "logs":
        has_logger = "_LOGGER" in src
        for node in ast.walk(tree):
            if isinstance(node, (ast.FunctionDef, ast.AsyncFunctionDef)) and has_logger:
                i = 1 if node.body and isinstance(node.body[0], ast.Expr) and isinstance(node.body[0].value, ast.Constant) else 0
                node.body.insert(i, ast.parse(f"_LOGGER.debug('enter {node.name}')").body[0])
        return ast.unparse(ast.fix_missing_locations(tree)) + "\n"
    for node in ast.walk(tree):
        if isinstance(node, (ast.FunctionDef, ast.AsyncFunctionDef)):
            m = locals_of(node, mode)
            if m:
                r = Renamer(m)
                node.body = [r.visit(st) for st in node.body]
    return ast.unparse(tree) + "\n"


