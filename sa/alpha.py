"""Analysis modulo alpha-equivalence: local variables are renamed to the names the rules were written against.

Renaming the local variables of a function consistently and without capture does not change what the function does,
so every verdict reached on the renamed function is a verdict about the function as written.  Of all alpha-variants
the one closest to a recorded *reference naming* (``ref_skeleton.json``: per function, the name-abstracted shape of
every statement header and the local names occurring in it, recorded from the tree the rules were developed on) is
analysed.  The skeleton is a naming hint only: it never contributes facts about behaviour, and a function that does
not align with it is analysed exactly as written.

Alignment: both functions are flattened into the sequence of their simple statements and compound-statement headers;
each item is abstracted by replacing local names with a placeholder; ``difflib`` matches equal items; matched items
vote for (current name -> reference name).  A mapping is applied only if it is injective, unambiguous and free of
capture.  Functions with nested scopes that could capture a renamed name are left alone.
"""
from __future__ import annotations

import ast
import difflib
import hashlib
import json
from collections import Counter, defaultdict
from pathlib import Path

SKELETON = Path(__file__).resolve().parent / "ref_skeleton.json"
_HEADER_FIELDS = {
    ast.If: ("test",), ast.While: ("test",), ast.For: ("target", "iter"), ast.AsyncFor: ("target", "iter"),
    ast.With: ("items",), ast.AsyncWith: ("items",), ast.Try: (), ast.Match: ("subject",),
}


def _params(fn):
    a = fn.args
    out = {x.arg for x in a.args + a.kwonlyargs + a.posonlyargs}
    if a.vararg:
        out.add(a.vararg.arg)
    if a.kwarg:
        out.add(a.kwarg.arg)
    return out


def _has_inner_scope(fn):
    for n in ast.walk(fn):
        if n is not fn and isinstance(n, (ast.FunctionDef, ast.AsyncFunctionDef, ast.Lambda, ast.ClassDef)):
            return True
    return False


def local_names(fn):
    """Names bound inside fn (assignment, loop, with, except-as, comprehension, walrus), minus parameters and declared globals."""
    declared = set()
    bound = set()
    for n in ast.walk(fn):
        if isinstance(n, (ast.Global, ast.Nonlocal)):
            declared |= set(n.names)
        elif isinstance(n, ast.Name) and isinstance(n.ctx, (ast.Store, ast.Del)):
            bound.add(n.id)
        elif isinstance(n, ast.ExceptHandler) and n.name:
            bound.add(n.name)
    return bound - _params(fn) - declared


def _items(fn):
    """Flattened statement headers of fn in source order (nested definitions are not entered)."""
    out = []

    def walk(stmts):
        for st in stmts:
            if isinstance(st, (ast.FunctionDef, ast.AsyncFunctionDef, ast.ClassDef)):
                continue
            fields = _HEADER_FIELDS.get(type(st))
            if fields is None:
                out.append((st, None))
            else:
                out.append((st, fields))
                for name in ("body", "orelse", "finalbody"):
                    walk(getattr(st, name, []) or [])
                for h in getattr(st, "handlers", []) or []:
                    out.append((h, ("type",)))
                    walk(h.body)
                for c in getattr(st, "cases", []) or []:
                    walk(c.body)
    walk(fn.body)
    return out


class _Abstract(ast.NodeVisitor):
    def __init__(self, locs):
        self.locs = locs
        self.parts = []
        self.names = []

    def generic_visit(self, node):
        self.parts.append(type(node).__name__)
        for field, value in ast.iter_fields(node):
            if field in ("ctx", "lineno", "col_offset", "end_lineno", "end_col_offset", "type_comment", "kind"):
                continue
            if isinstance(value, list):
                self.parts.append("[")
                for v in value:
                    if isinstance(v, ast.AST):
                        self.visit(v)
                    else:
                        self.parts.append(repr(v))
                self.parts.append("]")
            elif isinstance(value, ast.AST):
                self.visit(value)
            elif value is not None:
                self.parts.append(repr(value))

    def visit_Name(self, node):
        if node.id in self.locs:
            self.parts.append("$")
            self.names.append(node.id)
        else:
            self.parts.append("N:" + node.id)

    def visit_ExceptHandler(self, node):
        self.parts.append("ExceptHandler")
        if node.type is not None:
            self.visit(node.type)
        if node.name:
            if node.name in self.locs:
                self.parts.append("$")
                self.names.append(node.name)
            else:
                self.parts.append("N:" + node.name)


def skeleton_of(fn):
    """[(shape, [local names in traversal order])] for every flattened item of fn."""
    locs = local_names(fn)
    out = []
    for node, fields in _items(fn):
        ab = _Abstract(locs)
        if fields is None:
            ab.visit(node)
        elif isinstance(node, ast.ExceptHandler):
            ab.visit_ExceptHandler(node)
        else:
            ab.parts.append(type(node).__name__)
            for f in fields:
                v = getattr(node, f)
                for x in (v if isinstance(v, list) else [v]):
                    if isinstance(x, ast.AST):
                        ab.visit(x)
        out.append((hashlib.sha1(" ".join(ab.parts).encode()).hexdigest()[:12], ab.names))
    return out


def mapping_for(fn, ref_items):
    """Capture-free injective renaming {current local -> reference local}, or {}."""
    if _has_inner_scope(fn):
        return {}
    cur_items = skeleton_of(fn)
    if not cur_items or not ref_items:
        return {}
    sm = difflib.SequenceMatcher(None, [s for s, _ in ref_items], [s for s, _ in cur_items], autojunk=False)
    votes: dict[str, Counter] = defaultdict(Counter)
    for a, b, n in sm.get_matching_blocks():
        for k in range(n):
            rn, cn = ref_items[a + k][1], cur_items[b + k][1]
            if len(rn) != len(cn):
                continue
            for r, c in zip(rn, cn):
                votes[c][r] += 1
    mapping = {}
    for c, cnt in votes.items():
        (best, nbest), = cnt.most_common(1)
        if nbest * 3 >= sum(cnt.values()) * 2:  # at least two thirds of the occurrences agree
            mapping[c] = best
    # injective
    back = Counter(mapping.values())
    mapping = {c: r for c, r in mapping.items() if back[r] == 1}
    mapping = {c: r for c, r in mapping.items() if c != r}
    if not mapping:
        return {}
    # capture freedom: a target name must not be in use by something that keeps its name
    used = {n.id for n in ast.walk(fn) if isinstance(n, ast.Name)} | _params(fn) | {h.name for h in ast.walk(fn) if isinstance(h, ast.ExceptHandler) and h.name}
    changed = True
    while changed:
        changed = False
        staying = used - set(mapping)
        for c, r in list(mapping.items()):
            if r in staying:
                del mapping[c]
                changed = True
    return mapping


def apply(fn, mapping):
    for n in ast.walk(fn):
        if isinstance(n, ast.Name) and n.id in mapping:
            n.id = mapping[n.id]
        elif isinstance(n, ast.ExceptHandler) and n.name in mapping:
            n.name = mapping[n.name]


def _functions(tree):
    """(qualname, node) for every function, methods as Class.name, nested ones as outer.<locals>.inner."""
    out = []

    def walk(node, prefix):
        for ch in ast.iter_child_nodes(node):
            if isinstance(ch, (ast.FunctionDef, ast.AsyncFunctionDef)):
                out.append((prefix + ch.name, ch))
                walk(ch, prefix + ch.name + ".<locals>.")
            elif isinstance(ch, ast.ClassDef):
                walk(ch, prefix + ch.name + ".")
            elif isinstance(ch, (ast.If, ast.Try, ast.With, ast.For, ast.While)):
                walk(ch, prefix)
    walk(tree, "")
    return out


_CACHE = None


def reference():
    global _CACHE
    if _CACHE is None:
        try:
            _CACHE = json.loads(SKELETON.read_text())
        except (OSError, ValueError):
            _CACHE = {}
    return _CACHE


class Desugar(ast.NodeTransformer):
    """Meaning-preserving canonical forms, so that rules need to know one spelling only:
    annotated assignments -> plain assignments; `CONST op x` -> `x mirrored-op CONST`; `not (a == b)` -> `a != b`
    (likewise in / is; ordered comparisons are left alone because of NaN)."""

    MIRROR = {ast.Eq: ast.Eq, ast.NotEq: ast.NotEq, ast.Lt: ast.Gt, ast.Gt: ast.Lt, ast.LtE: ast.GtE, ast.GtE: ast.LtE}
    NEGATE = {ast.Eq: ast.NotEq, ast.NotEq: ast.Eq, ast.In: ast.NotIn, ast.NotIn: ast.In, ast.Is: ast.IsNot, ast.IsNot: ast.Is}

    def __init__(self):
        self.count = 0

    def visit_AnnAssign(self, node):
        self.generic_visit(node)
        self.count += 1
        if node.value is None:
            new = ast.Pass()
        else:
            new = ast.Assign(targets=[node.target], value=node.value, type_comment=None)
            if isinstance(node.target, ast.Name):
                node.target.ctx = ast.Store()
        return ast.copy_location(new, node)

    def visit_ClassDef(self, node):
        # class-level annotated assignments define fields (dataclasses, typing): only the methods are desugared
        node.body = [self.visit(st) if isinstance(st, (ast.FunctionDef, ast.AsyncFunctionDef, ast.ClassDef)) else st for st in node.body]
        return node

    def visit_Compare(self, node):
        self.generic_visit(node)
        if len(node.ops) == 1 and type(node.ops[0]) in self.MIRROR and isinstance(node.left, ast.Constant) \
                and not isinstance(node.comparators[0], ast.Constant):
            self.count += 1
            new = ast.Compare(left=node.comparators[0], ops=[self.MIRROR[type(node.ops[0])]()], comparators=[node.left])
            return ast.copy_location(new, node)
        return node

    def visit_UnaryOp(self, node):
        self.generic_visit(node)
        if isinstance(node.op, ast.Not) and isinstance(node.operand, ast.Compare) and len(node.operand.ops) == 1 \
                and type(node.operand.ops[0]) in self.NEGATE:
            self.count += 1
            c = node.operand
            new = ast.Compare(left=c.left, ops=[self.NEGATE[type(c.ops[0])]()], comparators=c.comparators)
            return ast.copy_location(new, node)
        return node


def desugar(tree):
    d = Desugar()
    d.visit(tree)
    ast.fix_missing_locations(tree)
    return d.count


def normalise(tree, rel):
    """Desugar, then rename locals of every function of module `rel` towards the reference naming.  Returns {qualname: mapping}."""
    desugar(tree)
    ref = reference().get(rel, {})
    done = {}
    for qual, fn in _functions(tree):
        items = ref.get(qual)
        if not items:
            continue
        m = mapping_for(fn, [(s, n) for s, n in items])
        if m:
            apply(fn, m)
            done[qual] = m
    return done


def build(root: Path):
    """Reference skeleton of the package under root (used by tools/mkskeleton.py)."""
    out = {}
    pkg = root / "pdb2pqr"
    for path in sorted(pkg.rglob("*.py")):
        rel = str(path.relative_to(pkg))
        tree = ast.parse(path.read_text(encoding="utf-8"))
        desugar(tree)
        mod = {}
        for qual, fn in _functions(tree):
            if _has_inner_scope(fn):
                continue
            sk = skeleton_of(fn)
            if any(n for _, n in sk):
                mod[qual] = [[s, n] for s, n in sk]
        if mod:
            out[rel] = mod
    return out
