"""Analysis modulo alpha-equivalence: local variables are renamed to the names the rules were written against.

Renaming the local variables of a function consistently and without capture does not change what the function does,
so every verdict reached on the renamed function is a verdict about the function as written.  Of all alpha-variants
the one closest to a recorded *reference naming* (``ref_skeleton.json``: per function, the name-abstracted shape of
every statement header and the local names occurring in it, recorded from the tree the rules were developed on) is
analysed.  The skeleton is a naming hint only: it never contributes facts about behaviour, and a function that does
not align with it is analysed exactly as written.

Alignment: both functions are flattened into the sequence of their simple statements and compound-statement headers;
each item is abstracted by replacing local names with a placeholder; ``difflib`` matches equal items; matched items
vote for (current name -> reference name).  A mapping is applied only if it is injective, unambiguous and free of
capture.  Functions with nested scopes that could capture a renamed name are left alone.
"""
from __future__ import annotations

import ast
import copy
import difflib
import hashlib
import json
from collections import Counter, defaultdict
from pathlib import Path

SKELETON = Path(__file__).resolve().parent / "ref_skeleton.json"
_HEADER_FIELDS = {
    ast.If: ("test",), ast.While: ("test",), ast.For: ("target", "iter"), ast.AsyncFor: ("target", "iter"),
    ast.With: ("items",), ast.AsyncWith: ("items",), ast.Try: (), ast.Match: ("subject",),
}


def _params(fn):
    a = fn.args
    out = {x.arg for x in a.args + a.kwonlyargs + a.posonlyargs}
    if a.vararg:
        out.add(a.vararg.arg)
    if a.kwarg:
        out.add(a.kwarg.arg)
    return out


def _has_inner_scope(fn):
    for n in ast.walk(fn):
        if n is not fn and isinstance(n, (ast.FunctionDef, ast.AsyncFunctionDef, ast.Lambda, ast.ClassDef)):
            return True
    return False


def local_names(fn):
    """Names bound inside fn (assignment, loop, with, except-as, comprehension, walrus), minus parameters and declared globals."""
    declared = set()
    bound = set()
    for n in ast.walk(fn):
        if isinstance(n, (ast.Global, ast.Nonlocal)):
            declared |= set(n.names)
        elif isinstance(n, ast.Name) and isinstance(n.ctx, (ast.Store, ast.Del)):
            bound.add(n.id)
        elif isinstance(n, ast.ExceptHandler) and n.name:
            bound.add(n.name)
    return bound - _params(fn) - declared


def _items(fn):
    """Flattened statement headers of fn in source order (nested definitions are not entered)."""
    out = []

    def walk(stmts):
        for st in stmts:
            if isinstance(st, (ast.FunctionDef, ast.AsyncFunctionDef, ast.ClassDef)):
                continue
            fields = _HEADER_FIELDS.get(type(st))
            if fields is None:
                out.append((st, None))
            else:
                out.append((st, fields))
                for name in ("body", "orelse", "finalbody"):
                    walk(getattr(st, name, []) or [])
                for h in getattr(st, "handlers", []) or []:
                    out.append((h, ("type",)))
                    walk(h.body)
                for c in getattr(st, "cases", []) or []:
                    walk(c.body)
    walk(fn.body)
    return out


class _Abstract(ast.NodeVisitor):
    def __init__(self, locs):
        self.locs = locs
        self.parts = []
        self.names = []

    def generic_visit(self, node):
        self.parts.append(type(node).__name__)
        for field, value in ast.iter_fields(node):
            if field in ("ctx", "lineno", "col_offset", "end_lineno", "end_col_offset", "type_comment", "kind"):
                continue
            if isinstance(value, list):
                self.parts.append("[")
                for v in value:
                    if isinstance(v, ast.AST):
                        self.visit(v)
                    else:
                        self.parts.append(repr(v))
                self.parts.append("]")
            elif isinstance(value, ast.AST):
                self.visit(value)
            elif value is not None:
                self.parts.append(repr(value))

    def visit_Name(self, node):
        if node.id in self.locs:
            self.parts.append("$")
            self.names.append(node.id)
        else:
            self.parts.append("N:" + node.id)

    def visit_ExceptHandler(self, node):
        self.parts.append("ExceptHandler")
        if node.type is not None:
            self.visit(node.type)
        if node.name:
            if node.name in self.locs:
                self.parts.append("$")
                self.names.append(node.name)
            else:
                self.parts.append("N:" + node.name)


def skeleton_of(fn):
    """[(shape, [local names in traversal order])] for every flattened item of fn."""
    locs = local_names(fn)
    out = []
    for node, fields in _items(fn):
        ab = _Abstract(locs)
        if fields is None:
            ab.visit(node)
        elif isinstance(node, ast.ExceptHandler):
            ab.visit_ExceptHandler(node)
        else:
            ab.parts.append(type(node).__name__)
            for f in fields:
                v = getattr(node, f)
                for x in (v if isinstance(v, list) else [v]):
                    if isinstance(x, ast.AST):
                        ab.visit(x)
        out.append((hashlib.sha1(" ".join(ab.parts).encode()).hexdigest()[:12], ab.names))
    return out


def mapping_for(fn, ref_items):
    """Capture-free injective renaming {current local -> reference local}, or {}."""
    if _has_inner_scope(fn):
        return {}
    cur_items = skeleton_of(fn)
    if not cur_items or not ref_items:
        return {}
    sm = difflib.SequenceMatcher(None, [s for s, _ in ref_items], [s for s, _ in cur_items], autojunk=False)
    votes: dict[str, Counter] = defaultdict(Counter)
    for a, b, n in sm.get_matching_blocks():
        for k in range(n):
            rn, cn = ref_items[a + k][1], cur_items[b + k][1]
            if len(rn) != len(cn):
                continue
            for r, c in zip(rn, cn):
                votes[c][r] += 1
    mapping = {}
    for c, cnt in votes.items():
        (best, nbest), = cnt.most_common(1)
        if nbest * 3 >= sum(cnt.values()) * 2:  # at least two thirds of the occurrences agree
            mapping[c] = best
    # injective
    back = Counter(mapping.values())
    mapping = {c: r for c, r in mapping.items() if back[r] == 1}
    mapping = {c: r for c, r in mapping.items() if c != r}
    if not mapping:
        return {}
    # capture freedom: a target name must not be in use by something that keeps its name
    used = {n.id for n in ast.walk(fn) if isinstance(n, ast.Name)} | _params(fn) | {h.name for h in ast.walk(fn) if isinstance(h, ast.ExceptHandler) and h.name}
    changed = True
    while changed:
        changed = False
        staying = used - set(mapping)
        for c, r in list(mapping.items()):
            if r in staying:
                del mapping[c]
                changed = True
    return mapping


def apply(fn, mapping):
    for n in ast.walk(fn):
        if isinstance(n, ast.Name) and n.id in mapping:
            n.id = mapping[n.id]
        elif isinstance(n, ast.ExceptHandler) and n.name in mapping:
            n.name = mapping[n.name]


def _functions(tree):
    """(qualname, node) for every function, methods as Class.name, nested ones as outer.<locals>.inner."""
    out = []

    def walk(node, prefix):
        for ch in ast.iter_child_nodes(node):
            if isinstance(ch, (ast.FunctionDef, ast.AsyncFunctionDef)):
                out.append((prefix + ch.name, ch))
                walk(ch, prefix + ch.name + ".<locals>.")
            elif isinstance(ch, ast.ClassDef):
                walk(ch, prefix + ch.name + ".")
            elif isinstance(ch, (ast.If, ast.Try, ast.With, ast.For, ast.While)):
                walk(ch, prefix)
    walk(tree, "")
    return out


_CACHE = None


def reference():
    global _CACHE
    if _CACHE is None:
        try:
            _CACHE = json.loads(SKELETON.read_text())
        except (OSError, ValueError):
            _CACHE = {}
    return _CACHE


class Desugar(ast.NodeTransformer):
    """Meaning-preserving canonical forms, so that rules need to know one spelling only:
    annotated assignments -> plain assignments; `CONST op x` -> `x mirrored-op CONST`; `not (a == b)` -> `a != b`
    (likewise in / is; ordered comparisons are left alone because of NaN)."""

    MIRROR = {ast.Eq: ast.Eq, ast.NotEq: ast.NotEq, ast.Lt: ast.Gt, ast.Gt: ast.Lt, ast.LtE: ast.GtE, ast.GtE: ast.LtE}
    NEGATE = {ast.Eq: ast.NotEq, ast.NotEq: ast.Eq, ast.In: ast.NotIn, ast.NotIn: ast.In, ast.Is: ast.IsNot, ast.IsNot: ast.Is}

    def __init__(self):
        self.count = 0

    def visit_AnnAssign(self, node):
        self.generic_visit(node)
        self.count += 1
        if node.value is None:
            new = ast.Pass()
        else:
            new = ast.Assign(targets=[node.target], value=node.value, type_comment=None)
            if isinstance(node.target, ast.Name):
                node.target.ctx = ast.Store()
        return ast.copy_location(new, node)

    def visit_ClassDef(self, node):
        # class-level annotated assignments define fields (dataclasses, typing): only the methods are desugared
        node.body = [self.visit(st) if isinstance(st, (ast.FunctionDef, ast.AsyncFunctionDef, ast.ClassDef)) else st for st in node.body]
        return node

    def visit_FunctionDef(self, node):
        self.generic_visit(node)
        self._inline_partials(node)
        return node

    def _inline_partials(self, fn):
        """`g = functools.partial(f, a, k=v)` bound once at the top level of a function, with f / a / v names that are never rebound (or self.x,
        constants), and g used only as a callee: every `g(b)` becomes `f(a, b, k=v)` and the binding goes."""
        stores = {}
        for n in ast.walk(fn):
            if isinstance(n, ast.Name) and isinstance(n.ctx, (ast.Store, ast.Del)):
                stores[n.id] = stores.get(n.id, 0) + 1
            elif isinstance(n, (ast.Global, ast.Nonlocal)):
                for x in n.names:
                    stores[x] = stores.get(x, 0) + 2
        params = {a.arg for a in fn.args.posonlyargs + fn.args.args + fn.args.kwonlyargs}

        def stable(e):
            if isinstance(e, ast.Constant):
                return True
            if isinstance(e, ast.Name):
                return stores.get(e.id, 0) == 0   # a parameter or a global that this function never rebinds
            if isinstance(e, ast.Attribute):
                return stable(e.value)
            return False

        for i, st in enumerate(list(fn.body)):
            if not (isinstance(st, ast.Assign) and len(st.targets) == 1 and isinstance(st.targets[0], ast.Name) and isinstance(st.value, ast.Call)
                    and ast.unparse(st.value.func) in ("functools.partial", "partial") and st.value.args):
                continue
            g = st.targets[0].id
            call = st.value
            if stores.get(g, 0) != 1 or g in params or not all(stable(a) for a in call.args) or not all(k.arg and stable(k.value) for k in call.keywords):
                continue
            uses = [n for n in ast.walk(fn) if isinstance(n, ast.Name) and n.id == g and isinstance(n.ctx, ast.Load)]
            callees = [n for n in ast.walk(fn) if isinstance(n, ast.Call) and isinstance(n.func, ast.Name) and n.func.id == g]
            if len(uses) != len(callees) or not callees:
                continue
            if any(k.arg is None or k.arg in {kk.arg for kk in call.keywords} for c in callees for k in c.keywords) or any(isinstance(a, ast.Starred) for c in callees for a in c.args):
                continue
            for c in callees:
                c.func = ast.copy_location(_clone_expr(call.args[0]), c.func)
                c.args = [_clone_expr(a) for a in call.args[1:]] + c.args
                c.keywords = c.keywords + [ast.keyword(arg=k.arg, value=_clone_expr(k.value)) for k in call.keywords]
            fn.body[i] = ast.copy_location(ast.Pass(), st)
            self.count += 1

    def visit_Compare(self, node):
        self.generic_visit(node)
        if len(node.ops) == 1 and type(node.ops[0]) in self.MIRROR and isinstance(node.left, ast.Constant) \
                and not isinstance(node.comparators[0], ast.Constant):
            self.count += 1
            new = ast.Compare(left=node.comparators[0], ops=[self.MIRROR[type(node.ops[0])]()], comparators=[node.left])
            return ast.copy_location(new, node)
        return node

    def visit_UnaryOp(self, node):
        self.generic_visit(node)
        if isinstance(node.op, ast.Not) and isinstance(node.operand, ast.Compare) and len(node.operand.ops) == 1 \
                and type(node.operand.ops[0]) in self.NEGATE:
            self.count += 1
            c = node.operand
            new = ast.Compare(left=c.left, ops=[self.NEGATE[type(c.ops[0])]()], comparators=c.comparators)
            return ast.copy_location(new, node)
        return node


def _clone_expr(e):
    return ast.parse(ast.unparse(e), mode="eval").body


def desugar(tree):
    d = Desugar()
    d.visit(tree)
    ast.fix_missing_locations(tree)
    return d.count


def normalise(tree, rel):
    """Desugar, then rename locals of every function of module `rel` towards the reference naming.  Returns {qualname: mapping}."""
    desugar(tree)
    ref = reference().get(rel, {})
    done = {}
    for qual, fn in _functions(tree):
        items = ref.get(qual)
        if not items or qual == "__all_functions__":
            continue
        m = mapping_for(fn, [(s, n) for s, n in items])
        if m:
            apply(fn, m)
            done[qual] = m
    return done


def build(root: Path):
    """Reference skeleton of the package under root (used by tools/mkskeleton.py)."""
    out = {}
    pkg = root / "pdb2pqr"
    for path in sorted(pkg.rglob("*.py")):
        rel = str(path.relative_to(pkg))
        tree = ast.parse(path.read_text(encoding="utf-8"))
        desugar(tree)
        mod = {}
        for qual, fn in _functions(tree):
            if _has_inner_scope(fn):
                continue
            sk = skeleton_of(fn)
            if any(n for _, n in sk):
                mod[qual] = [[s, n] for s, n in sk]
        mod["__all_functions__"] = [q for q, _ in _functions(tree)]
        out[rel] = mod
    return out


# ----------------------------------------------------------------------------------------------------------------------
# Un-extraction of new single-use helpers
#
# "Extract function" is the commonest refactoring; rules that reason about the order of stages inside a driver function
# would otherwise lose sight of the moved statements.  A helper that (a) does not exist in the reference tree, (b) is called
# at exactly one place in the whole package, from the module that defines it, and (c) has a body that can be spliced in
# without changing meaning (no early return, no yield, no nested scope, plain parameters) is inlined at its call site,
# with fresh names for its parameters and locals.  The helper's definition stays in place (now uncalled).

def _simple_params(fn):
    a = fn.args
    if a.vararg or a.kwarg or a.posonlyargs:
        return None
    params = [x.arg for x in a.args]
    defaults = dict(zip(params[len(params) - len(a.defaults):], a.defaults))
    for x, d in zip(a.kwonlyargs, a.kw_defaults):
        params.append(x.arg)
        if d is not None:
            defaults[x.arg] = d
    if any(not isinstance(d, ast.Constant) for d in defaults.values()):
        return None
    return params, defaults


def _ends(stmts):
    """Every path through stmts ends in a return (after _tailify: in a result assignment marked _is_result)."""
    if not stmts:
        return False
    last = stmts[-1]
    if isinstance(last, (ast.Return, ast.Raise)) or getattr(last, "_is_result", False):
        return True
    if isinstance(last, ast.If):
        return _ends(last.body) and _ends(last.orelse)
    if isinstance(last, ast.Try) and not last.finalbody:
        return _ends(last.orelse or last.body) and all(_ends(h.body) for h in last.handlers)
    return False


def _tailify(stmts):
    """Rewrite a statement list so that `return` occurs in tail position only (guard clauses become if/else with the rest of
    the block in the else arm).  Returns None if a return sits inside a loop, try or with block."""
    import copy
    out = []
    for i, st in enumerate(stmts):
        if isinstance(st, ast.Return):
            out.append(st)
            return out  # what follows is dead
        has_ret = any(isinstance(n, ast.Return) for n in ast.walk(st))
        if not has_ret:
            out.append(st)
            continue
        if isinstance(st, ast.Try) and not st.finalbody and i == len(stmts) - 1 and _ends([st]):
            # a try statement in tail position whose every path returns or raises: returns stay where they are (tail of their arm)
            parts = [_tailify(list(st.body)), _tailify(list(st.orelse))] + [_tailify(list(h.body)) for h in st.handlers]
            if any(p_ is None for p_ in parts):
                return None
            new = ast.Try(body=parts[0], handlers=[ast.copy_location(ast.ExceptHandler(type=h.type, name=h.name, body=b_), h)
                                                   for h, b_ in zip(st.handlers, parts[2:])], orelse=parts[1], finalbody=[])
            out.append(ast.copy_location(new, st))
            return out
        if not isinstance(st, ast.If):
            return None
        rest = stmts[i + 1:]
        body = _tailify(list(st.body) + ([] if _ends(st.body) else copy.deepcopy(rest)))
        orelse = _tailify(list(st.orelse) + ([] if (st.orelse and _ends(st.orelse)) else copy.deepcopy(rest)))
        if body is None or orelse is None:
            return None
        new = ast.If(test=st.test, body=body or [ast.Pass()], orelse=orelse)
        out.append(ast.copy_location(new, st))
        return out
    return out


def _splice_ok(fn):
    """Body without docstring, with returns in tail position only, if it can be spliced: no yield/nested scope/global."""
    body = [st for st in fn.body if not (isinstance(st, ast.Expr) and isinstance(st.value, ast.Constant) and isinstance(st.value.value, str))]
    if not body:
        return None
    for n in ast.walk(fn):
        if n is not fn and isinstance(n, (ast.FunctionDef, ast.AsyncFunctionDef, ast.Lambda, ast.ClassDef, ast.Yield, ast.YieldFrom, ast.Global, ast.Nonlocal, ast.Await)):
            return None
    return _tailify(body)


def _replace_returns(stmts, make):
    """Replace tail returns by make(value) statements (in place on copies)."""
    out = []
    for st in stmts:
        if isinstance(st, ast.Return):
            out.extend(make(st.value if st.value is not None else ast.Constant(None)))
        elif isinstance(st, ast.If):
            st.body = _replace_returns(st.body, make) or [ast.Pass()]
            st.orelse = _replace_returns(st.orelse, make)
            out.append(st)
        elif isinstance(st, ast.Try):
            st.body = _replace_returns(st.body, make) or [ast.Pass()]
            st.orelse = _replace_returns(st.orelse, make)
            for h in st.handlers:
                h.body = _replace_returns(h.body, make) or [ast.Pass()]
            out.append(st)
        else:
            out.append(st)
    return out


def _dead_after(name, caller, stmt):
    """The caller does not read `name` after stmt before writing it (textual order; a loop around stmt wraps around)."""
    occ = sorted(((n.lineno, n.col_offset, isinstance(n.ctx, ast.Load)) for n in ast.walk(caller)
                  if isinstance(n, ast.Name) and n.id == name and not any(n is x for x in ast.walk(stmt))), key=lambda t: t[:2])
    pos = (getattr(stmt, "end_lineno", stmt.lineno), getattr(stmt, "end_col_offset", 0))
    after = [o for o in occ if o[:2] > pos]
    loops = [lp for lp in ast.walk(caller) if isinstance(lp, (ast.For, ast.While)) and any(x is stmt for x in ast.walk(lp))]
    if loops:
        lp = loops[0]  # outermost
        after += [o for o in occ if (lp.lineno, lp.col_offset) <= o[:2] < (stmt.lineno, stmt.col_offset)]
    return not after or not after[0][2]


class _Rename(ast.NodeTransformer):
    def __init__(self, mapping):
        self.m = mapping

    def visit_Name(self, node):
        if node.id in self.m:
            return ast.copy_location(ast.Name(id=self.m[node.id], ctx=node.ctx), node)
        return node

    def visit_ExceptHandler(self, node):
        self.generic_visit(node)
        if node.name in self.m:
            node.name = self.m[node.name]
        return node


def _inline_at(stmt, call, fn, tag, is_method, static, caller=None):
    """Statements replacing `stmt` (whose whole value is `call`), or None."""
    import copy
    sp = _simple_params(fn)
    body = _splice_ok(fn)
    if sp is None or body is None or any(isinstance(a, ast.Starred) for a in call.args) or any(k.arg is None for k in call.keywords):
        return None
    params, defaults = sp
    args = list(call.args)
    binds = {}
    if is_method and not static:
        if not params:
            return None
        binds[params[0]] = call.func.value  # self / cls
        params = params[1:]
    if len(args) > len(params):
        return None
    for p_, a in zip(params, args):
        binds[p_] = a
    for k in call.keywords:
        if k.arg not in params or k.arg in binds:
            return None
        binds[k.arg] = k.value
    for p_ in params:
        if p_ not in binds:
            if p_ not in defaults:
                return None
            binds[p_] = defaults[p_]
    assigned_in_fn = local_names(fn) | {n.id for n in ast.walk(fn) if isinstance(n, ast.Name) and isinstance(n.ctx, (ast.Store, ast.Del))}
    caller_names = {n.id for n in ast.walk(caller) if isinstance(n, ast.Name)} if caller is not None else None

    def stable(e):
        """An argument that can stand in for the parameter everywhere: a name, a constant, or attributes of a name."""
        while isinstance(e, ast.Attribute):
            e = e.value
        return isinstance(e, (ast.Name, ast.Constant))

    subst, mapping, out = {}, {}, []
    for p_, expr in binds.items():
        if p_ not in assigned_in_fn and stable(expr):
            subst[p_] = expr  # copy propagation: the parameter is never re-bound
        else:
            mapping[p_] = f"{p_}__{tag}"
            out.append(ast.Assign(targets=[ast.Name(id=mapping[p_], ctx=ast.Store())], value=copy.deepcopy(expr), type_comment=None))
    for n in local_names(fn) - set(binds):
        # a local keeps its name when the caller does not use that name, or no longer needs its own value of it
        if caller_names is not None and (n not in caller_names or _dead_after(n, caller, stmt)):
            continue
        mapping[n] = f"{n}__{tag}"

    class _Subst(ast.NodeTransformer):
        def visit_Name(self, node):
            if node.id in subst and isinstance(node.ctx, ast.Load):
                return copy.deepcopy(subst[node.id])
            if node.id in mapping:
                return ast.copy_location(ast.Name(id=mapping[node.id], ctx=node.ctx), node)
            return node

        def visit_ExceptHandler(self, node):
            self.generic_visit(node)
            if node.name in mapping:
                node.name = mapping[node.name]
            return node

    new_body = [_Subst().visit(copy.deepcopy(st)) for st in body]

    def make(value):
        if isinstance(stmt, ast.Assign):
            a = ast.Assign(targets=copy.deepcopy(stmt.targets), value=value, type_comment=None)
        elif isinstance(stmt, ast.Return):
            return [ast.Return(value=value)]
        else:
            a = ast.Expr(value=value)
        a._is_result = True
        return [a]

    had_return = any(isinstance(n, ast.Return) for st_ in new_body for n in ast.walk(st_))
    new_body = _replace_returns(new_body, make)
    if not had_return or not _ends(new_body):
        # some path falls off the end: the call evaluates to None there
        if isinstance(stmt, (ast.Assign, ast.Return)):
            if had_return:
                return None  # mixed: not worth the case analysis
            new_body += make(ast.Constant(None))
    out += new_body
    # positions: all on the line of the call, columns increasing in source order, so that rules ordering by position see the
    # statements in the order in which they run
    counter = [0]

    def place(node):
        counter[0] += 1
        node.lineno = node.end_lineno = stmt.lineno
        node.col_offset = node.end_col_offset = stmt.col_offset + counter[0]
        for child in ast.iter_child_nodes(node):
            place(child)

    for st in out:
        place(st)
    return out


def _desugar_context_managers(trees, known):
    """`with R.cm(args) as v: BODY` where cm is a NEW generator-based context manager of the repository (contextlib.contextmanager) whose body is
    straight-line `pre...; yield X; post...` (no try: on an exception in BODY the post part does not run, exactly like straight-line code) is
    rewritten to `pre...; v = X; BODY; post...` with self bound to R and the parameters bound to the arguments.  -> [(rel, qualname)]"""
    import builtins as _b
    cms = {}
    for rel, tree in trees.items():
        for qual, fn in _functions(tree):
            if qual in known.get(rel, set()) or "<locals>" in qual:
                continue
            if not any(ast.unparse(d).split(".")[-1] == "contextmanager" for d in fn.decorator_list):
                continue
            ys = [i for i, st in enumerate(fn.body) if isinstance(st, ast.Expr) and isinstance(st.value, ast.Yield)]
            body = [st for st in fn.body if not (isinstance(st, ast.Expr) and isinstance(st.value, ast.Constant))]
            ys = [i for i, st in enumerate(body) if isinstance(st, ast.Expr) and isinstance(st.value, ast.Yield)]
            n_y = sum(isinstance(x, (ast.Yield, ast.YieldFrom)) for x in ast.walk(fn))
            if len(ys) != 1 or n_y != 1 or any(isinstance(x, (ast.Return, ast.Try, ast.FunctionDef, ast.Lambda)) for st in body for x in ast.walk(st)):
                continue
            if fn.args.vararg or fn.args.kwarg or fn.args.kwonlyargs or fn.args.defaults:
                continue
            bound = {a.arg for a in fn.args.args} | {n.id for n in ast.walk(fn) if isinstance(n, ast.Name) and isinstance(n.ctx, ast.Store)}
            free = {n.id for st in fn.body for n in ast.walk(st) if isinstance(n, ast.Name) and isinstance(n.ctx, ast.Load)} - bound - set(dir(_b))
            cms.setdefault(fn.name, []).append((rel, qual, fn, body, ys[0], free, bound))
    done = []
    count = [0]
    for name, lst in cms.items():
        if len(lst) != 1:
            continue
        rel, qual, fn, body, yi, free, bound = lst[0]
        is_method = "." in qual
        params = [a.arg for a in fn.args.args]
        for srel, tree in trees.items():
            if free and srel != rel:
                continue
            for owner in ast.walk(tree):
                for field in ("body", "orelse", "finalbody"):
                    block = getattr(owner, field, None)
                    if not isinstance(block, list):
                        continue
                    i = 0
                    while i < len(block):
                        st = block[i]
                        i += 1
                        if not (isinstance(st, ast.With) and len(st.items) == 1 and isinstance(st.items[0].context_expr, ast.Call)):
                            continue
                        call = st.items[0].context_expr
                        nm = call.func.attr if isinstance(call.func, ast.Attribute) else call.func.id if isinstance(call.func, ast.Name) else None
                        if nm != name or call.keywords or any(isinstance(a, ast.Starred) for a in call.args) or any(x is st for x in ast.walk(fn)):
                            continue
                        if is_method != isinstance(call.func, ast.Attribute) or len(call.args) != len(params) - (1 if is_method else 0):
                            continue
                        count[0] += 1
                        tag = f"_cm{count[0]}_"
                        sub = {}
                        new = []
                        if is_method:
                            sub[params[0]] = call.func.value
                        yv0 = body[yi].value.value
                        asvar = st.items[0].optional_vars
                        direct = None  # the parameter that is handed back by `yield`: it can carry the name of the `as` variable itself
                        if isinstance(asvar, ast.Name) and isinstance(yv0, ast.Name) and yv0.id in params and not any(
                                isinstance(x, ast.Name) and x.id == asvar.id and isinstance(x.ctx, (ast.Store, ast.Del)) for b_ in st.body for x in ast.walk(b_)):
                            direct = yv0.id
                        for p_, a_ in zip(params[1 if is_method else 0:], call.args):
                            tname = asvar.id if p_ == direct else tag + p_
                            new.append(ast.Assign(targets=[ast.Name(id=tname, ctx=ast.Store())], value=a_))
                            sub[p_] = ast.Name(id=tname, ctx=ast.Load())

                        class Sub(ast.NodeTransformer):
                            def visit_Name(self, node):
                                if node.id in sub and isinstance(node.ctx, ast.Load):
                                    return copy.deepcopy(sub[node.id])
                                if node.id not in sub and node.id in bound and not isinstance(node.ctx, ast.Load):
                                    return ast.Name(id=tag + node.id, ctx=node.ctx)
                                if node.id in bound and node.id not in sub and node.id not in params:
                                    return ast.Name(id=tag + node.id, ctx=node.ctx)
                                return node

                        pre = [Sub().visit(copy.deepcopy(x)) for x in body[:yi]]
                        post = [Sub().visit(copy.deepcopy(x)) for x in body[yi + 1:]]
                        yv = body[yi].value.value
                        mid = []
                        if st.items[0].optional_vars is not None and direct is None:
                            mid.append(ast.Assign(targets=[st.items[0].optional_vars], value=Sub().visit(copy.deepcopy(yv)) if yv is not None else ast.Constant(value=None)))
                        repl = new + pre + mid + list(st.body) + post
                        for x in repl:
                            ast.copy_location(x, st)
                            ast.fix_missing_locations(x)
                        block[i - 1:i] = repl
                        i += len(repl) - 1
                        done.append((srel, qual))
    return done


def unextract(trees):
    """trees: {rel: module tree}.  Inlines new single-use helpers; returns [(caller module, helper name)]."""
    ref = reference()
    known = {rel: set(m.get("__all_functions__", [])) for rel, m in ref.items()}
    if not any(known.values()):
        return []
    cm_done = _desugar_context_managers(trees, known)
    # definitions that are new, and call counts by simple name over the whole package
    defs = {}
    for rel, tree in trees.items():
        for qual, fn in _functions(tree):
            if qual not in known.get(rel, set()) and "<locals>" not in qual and not fn.decorator_list or \
                    (qual not in known.get(rel, set()) and "<locals>" not in qual and [ast.unparse(d) for d in fn.decorator_list] == ["staticmethod"]):
                defs.setdefault(fn.name, []).append((rel, qual, fn))
    counts = Counter()
    for tree in trees.values():
        for n in ast.walk(tree):
            if isinstance(n, ast.Call):
                nm = n.func.id if isinstance(n.func, ast.Name) else n.func.attr if isinstance(n.func, ast.Attribute) else None
                if nm in defs:
                    counts[nm] += 1
            elif isinstance(n, (ast.Name, ast.Attribute)):
                pass
    # a helper also referenced as a value (callback) is left alone
    refs = Counter()
    for tree in trees.values():
        for n in ast.walk(tree):
            nm = n.id if isinstance(n, ast.Name) else n.attr if isinstance(n, ast.Attribute) else None
            if nm in defs and isinstance(getattr(n, "ctx", None), ast.Load):
                refs[nm] += 1
    done = []
    touched = []
    tag_no = 0
    for name, lst in defs.items():
        n_sites = counts[name]
        if len(lst) != 1 or n_sites != refs[name] or not 1 <= n_sites <= 8:
            continue
        rel, qual, fn = lst[0]
        tree = trees[rel]
        is_method = "." in qual
        static = any(ast.unparse(d) == "staticmethod" for d in fn.decorator_list)
        if any(isinstance(x, (ast.Yield, ast.YieldFrom, ast.Await)) for x in ast.walk(fn)):
            continue  # a generator's body cannot stand in for the generator object its call returns
        if n_sites > 1 and sum(1 for _ in ast.walk(fn)) > 350:
            continue  # helpers used more than once are inlined only when they are small
        inlined = 0
        # call sites in other modules (a method put on a shared base class, a function put into a utility module) are spliced too when the body
        # names nothing of its home module: only its parameters, its own locals, self and builtins
        import builtins as _b
        bound = {a.arg for a in fn.args.posonlyargs + fn.args.args + fn.args.kwonlyargs} | {n.id for n in ast.walk(fn) if isinstance(n, ast.Name) and isinstance(n.ctx, ast.Store)}
        free = {n.id for n in ast.walk(fn) if isinstance(n, ast.Name) and isinstance(n.ctx, ast.Load)} - bound - set(dir(_b))
        site_trees = [tree] + ([t_ for r_, t_ in trees.items() if t_ is not tree] if not free else [])
        for site_tree in site_trees:
            while True:
                # find a statement whose whole value is the call
                target = None
                for owner in ast.walk(site_tree):
                    for field in ("body", "orelse", "finalbody"):
                        block = getattr(owner, field, None)
                        if not isinstance(block, list):
                            continue
                        for i, st in enumerate(block):
                            val = st.value if isinstance(st, (ast.Assign, ast.Expr, ast.Return)) else None
                            if isinstance(val, ast.Call):
                                nm = val.func.id if isinstance(val.func, ast.Name) else val.func.attr if isinstance(val.func, ast.Attribute) else None
                                if nm == name and (isinstance(val.func, ast.Name) != is_method or (is_method and isinstance(val.func, ast.Attribute)
                                                                                                   and isinstance(val.func.value, ast.Name))
                                                   or (not is_method and site_tree is not tree and isinstance(val.func, ast.Attribute)
                                                       and isinstance(val.func.value, ast.Name))):
                                    if is_method and not (isinstance(val.func, ast.Attribute) and isinstance(val.func.value, ast.Name) and val.func.value.id in ("self", "cls", qual.split(".")[0])):
                                        continue
                                    if any(x is st for x in ast.walk(fn)):
                                        continue  # the call must sit outside the helper itself
                                    target = (block, i, st, val)
                if target is None:
                    break
                block, i, st, call = target
                tag_no += 1
                caller_fn = next((f_ for _, f_ in _functions(site_tree) if any(x is st for x in ast.walk(f_)) and not any(
                    x is st for g_ in ast.walk(f_) if g_ is not f_ and isinstance(g_, (ast.FunctionDef, ast.AsyncFunctionDef)) for x in ast.walk(g_))), None)
                new = _inline_at(st, call, copy.deepcopy(fn) if n_sites > 1 else fn, f"in{tag_no}", is_method, static, caller_fn)
                if new is None:
                    break
                block[i:i + 1] = new
                inlined += 1
                if caller_fn is not None and not any(caller_fn is f_ for f_ in touched):
                    touched.append(caller_fn)
        if inlined:
            done.append((rel, qual))
        if inlined == n_sites:
            # the definition is now uncalled: take it out of the tree so that no rule analyses it as a stage of its own
            for owner in ast.walk(tree):
                body = getattr(owner, "body", None)
                if isinstance(body, list) and any(x is fn for x in body):
                    body[:] = [x for x in body if x is not fn] or [ast.Pass()]
    for f_ in touched:
        _renumber(f_)
    if cm_done:
        for tree in trees.values():
            for _, f_ in _functions(tree):
                if any(isinstance(n, ast.Name) and n.id.startswith("_cm") for n in ast.walk(f_)):
                    _renumber(f_)
    return done + cm_done


_BLOCKS = ("body", "handlers", "orelse", "finalbody")


def _renumber(fn):
    """Give the statements of a function with inlined helper bodies strictly increasing line numbers in source order (the lines inside one
    statement keep their offsets), so that rules comparing positions see the order in which the statements run."""
    cur = [fn.lineno]

    def header_nodes(st):
        todo = [st]
        while todo:
            n = todo.pop()
            yield n
            for field, val in ast.iter_fields(n):
                if n is st and field in _BLOCKS + ("cases",):
                    continue
                if isinstance(val, ast.AST):
                    todo.append(val)
                elif isinstance(val, list):
                    todo.extend(x for x in val if isinstance(x, ast.AST))

    def do(st):
        old = getattr(st, "lineno", None)
        new = cur[0] + 1
        span = 0
        if old is not None:
            for n in header_nodes(st):
                if hasattr(n, "lineno") and n.lineno is not None:
                    off = max(0, n.lineno - old)
                    eoff = max(off, (getattr(n, "end_lineno", None) or n.lineno) - old) if n is not st else off
                    n.lineno, n.end_lineno = new + off, new + eoff
                    span = max(span, eoff)
        cur[0] = new + span
        for field in _BLOCKS + ("cases",):
            for sub in getattr(st, field, None) or []:
                if isinstance(sub, ast.AST):
                    do(sub)
        if hasattr(st, "end_lineno"):
            st.end_lineno = max(cur[0], getattr(st, "lineno", cur[0]))

    for st in fn.body:
        do(st)
    fn.end_lineno = cur[0]
