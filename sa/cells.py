"""Cell construction (DESIGN App. D.3): (residue, chain position, state) -> atoms, lookup name.

A cell is built by chaining the repository's own decision procedures, each evaluated by the
guard engine (conditional constant propagation over one tuple of a declared finite domain)
on a residue *model object* whose atoms/bonds come from the table model:

  assign_termini  ->  update_bonds (PEPTIDE guard)  ->  state patch  ->  [all topology
  hydrogens present]  ->  HydrogenRoutines.cleanup  ->  <Class>.set_state

The patch *language* (add/remove/bonds) is the table model's; which patch is applied when,
and what the lookup name becomes, is read from the code on every run.
"""
from __future__ import annotations

import ast

from .core import AnalysisError, Program, U
from .guards import Flow, Interp, Sym, Unknown
from .tables import Tables, apply_patch

PSEUDO = ("N+1", "C-1")


def top_level_classes(prog: Program, rel: str):
    """name -> ClassInfo for top-level classes and their module-level aliases (DA = ADE)."""
    mod = prog.module(rel)
    out = {}
    for st in mod.tree.body:
        if isinstance(st, ast.ClassDef):
            out[st.name] = prog.classes[f"{rel}::{st.name}"]
        elif isinstance(st, ast.Assign) and isinstance(st.value, ast.Name) and st.value.id in out:
            for t in st.targets:
                if isinstance(t, ast.Name):
                    out[t.id] = out[st.value.id]
    return out


class Model:
    def __init__(self, prog: Program, tables: Tables):
        self.prog = prog
        self.t = tables
        self.aa = top_level_classes(prog, "aa.py")
        self.na = top_level_classes(prog, "na.py")
        self.events = []

    # ------------------------------------------------------------------ residue objects
    def klass(self, refname):
        return self.aa.get(refname) or self.na.get(refname)

    def residue(self, resname, heavy_only=True, inputname=None):
        """Model object of a complete residue as read from input (heavy atoms only)."""
        ref = self.t.map[resname]
        cls = self.klass(ref.name)
        if cls is None:
            raise AnalysisError(f"no class for residue {resname} (reference {ref.name}) in aa.py/na.py")
        res = {
            "__class__": cls, "name": inputname or resname, "ffname": inputname or resname, "patches": [],
            "is_n_term": 0, "is_c_term": 0, "is5term": 0, "is3term": 0, "ss_bonded": 0, "__ref__": ref,
            "map": {}, "__removed__": [], "chain_id": "A", "res_seq": 1,
        }
        self.populate(res, heavy_only)
        return res

    def populate(self, res, heavy_only, keep_removed=True):
        """(Re)build the atom map of the model object from its current reference."""
        ref = res["__ref__"]
        amap = {}
        for name in ref.atoms:
            if name in PSEUDO:
                continue
            if heavy_only and name.startswith("H"):
                continue
            if keep_removed and name in res["__removed__"]:
                continue
            amap[name] = {"name": name, "bonds": [], "hdonor": Unknown("hdonor"), "hacceptor": Unknown("hacceptor")}
        for name, a in amap.items():
            a["bonds"] = [amap[b] for b in ref.atoms[name].bonds if b in amap]
        res["map"] = amap

    def apply_patch(self, pname, res):
        if pname not in self.t.patches:
            raise AnalysisError(f"code applies patch {pname!r} which PATCHES.xml does not define")
        P = self.t.patches[pname]
        heavy_only = not any(n.startswith("H") for n in res["map"])
        res["__ref__"] = apply_patch(res["__ref__"], P)
        res["patches"].append(pname)
        for r in P.remove:
            res["map"].pop(r, None)
        # atoms are only *added to the structure* later (repair/add_hydrogens); the reference changes now
        present = set(res["map"])
        self.populate(res, heavy_only)
        for name in list(res["map"]):
            if name not in present and not heavy_only:
                pass
        self.events.append(("patch", pname, res["name"]))

    # ------------------------------------------------------------------ hooks
    def is_instance(self, obj, clsexpr):
        names = []
        if isinstance(clsexpr, ast.Tuple):
            for e in clsexpr.elts:
                names.append(U(e))
        else:
            names.append(U(clsexpr))
        if not isinstance(obj, dict) or "__class__" not in obj:
            raise AnalysisError(f"isinstance on an object with no modelled class: {names}")
        cls = obj["__class__"]
        for n in names:
            short = n.split(".")[-1]
            target = None
            if n.startswith("aa.") or short in self.aa and not n.startswith("na."):
                target = self.aa.get(short)
            if target is None and (n.startswith("na.") or short in self.na):
                target = self.na.get(short)
            if target is None:
                cands = self.prog.classes_by_name.get(short, [])
                target = cands[0] if cands else None
            if target is None:
                raise AnalysisError(f"isinstance against unknown class {n}")
            if cls is not None and self.prog.is_subclass(cls, target):
                return True
        return False

    def call_hook(self, selfobj_names=("self",)):
        model = self

        def hook(interp: Interp, call: ast.Call):
            name = U(call.func)
            f = call.func
            if name == "isinstance":
                return model.is_instance(interp.ev(call.args[0]), call.args[1])
            if name in ("range",):
                return list(range(*[interp.ev(a) for a in call.args]))
            if name == "util.distance":
                return interp.env["__dist__"]
            if isinstance(f, ast.Attribute):
                meth = f.attr
                if meth == "apply_patch":
                    pname = interp.ev(call.args[0])
                    res = interp.ev(call.args[1])
                    model.apply_patch(pname, res)
                    interp.trace.append(("patch", pname, call))
                    return None
                if meth == "set_state" and isinstance(f.value, ast.Name) and f.value.id not in interp.env:
                    # explicit base-class call: Amino.set_state(self)
                    base = model.aa.get(f.value.id) or model.na.get(f.value.id)
                    if base is None or "set_state" not in base.methods:
                        raise AnalysisError(f"cannot resolve {name}")
                    obj = interp.ev(call.args[0])
                    model.run_method(base.methods["set_state"], obj)
                    return None
                if meth == "set_state" and U(f.value) == "super()":
                    obj = interp.env["self"]
                    cur = interp.env["__cls__"]
                    mro = model.prog.mro(cur)
                    for c in mro[1:]:
                        if "set_state" in c.methods:
                            model.run_method(c.methods["set_state"], obj)
                            return None
                    raise AnalysisError("super().set_state() unresolved")
                try:
                    obj = interp.ev(f.value)
                except AnalysisError:
                    obj = None
                if isinstance(obj, dict) and "map" in obj:
                    if meth == "has_atom":
                        return interp.ev(call.args[0]) in obj["map"]
                    if meth == "get_atom":
                        return obj["map"].get(interp.ev(call.args[0]))
                    if meth == "remove_atom":
                        n = interp.ev(call.args[0])
                        obj["map"].pop(n, None)
                        obj["__removed__"].append(n)
                        interp.trace.append(("remove", n, call))
                        return None
                # a helper method of the same object (code factored out of the analysed function): interpret it in place
                if isinstance(f.value, ast.Name) and f.value.id == "self":
                    target = model.resolve_helper(interp, call, meth)
                    if target is not None:
                        return model.inline(interp, call, target, hook)
            if isinstance(f, ast.Name) and callable(interp.env.get(name)) and not isinstance(interp.env.get(name), dict):
                # a pure function of the standard library held in a variable (operator.ge looked up in a table)
                args = [interp.ev(a) for a in call.args]
                if any(isinstance(a, Sym) for a in args) and len(args) == 2 and getattr(interp.env[name], "__module__", "") == "_operator":
                    opn = {"lt": ast.Lt, "le": ast.LtE, "gt": ast.Gt, "ge": ast.GtE, "eq": ast.Eq, "ne": ast.NotEq}.get(interp.env[name].__name__)
                    if opn is not None:
                        return Sym.compare(args[0], opn(), args[1], interp.env, call)
                return interp.env[name](*args)
            if name in ("reversed", "list", "tuple", "len", "enumerate"):
                args = [interp.ev(a) for a in call.args]
                res = {"reversed": lambda v: list(reversed(v)), "list": list, "tuple": tuple, "len": len,
                       "enumerate": lambda v: [list(x) for x in enumerate(v)]}[name](*args)
                return res
            raise AnalysisError(f"cell model: unsupported call {name!r} at line {call.lineno}")

        return hook

    def class_attr(self, interp, base, attr, node):
        """An attribute that is not stored on the model object: a constant assigned in the body of its class or of one of its bases."""
        dyn = base.get("__class__") if isinstance(base, dict) else None
        if dyn is None or not hasattr(dyn, "node"):
            return NotImplemented
        from .core import try_fold
        for k in self.prog.mro(dyn):
            for st in k.node.body:
                tgt = st.targets[0] if isinstance(st, ast.Assign) and len(st.targets) == 1 else st.target if isinstance(st, ast.AnnAssign) else None
                if isinstance(tgt, ast.Name) and tgt.id == attr and getattr(st, "value", None) is not None:
                    if isinstance(st.value, ast.Constant):
                        return st.value.value
                    v = try_fold(st.value, self.prog.module_env(k.module.rel))
                    if v is not None:
                        return v
        return NotImplemented

    def resolve_helper(self, interp, call, meth):
        # dynamic dispatch: the method is looked up from the class of the object, not from the class whose method is running
        selfobj = interp.env.get("self")
        dyn = selfobj.get("__class__") if isinstance(selfobj, dict) else None
        if dyn is not None and hasattr(dyn, "methods"):
            found = self.prog.find_method(dyn, meth)
            if found is not None:
                return found
        cur = interp.env.get("__cls__")
        if cur is not None:
            return self.prog.find_method(cur, meth)
        node = call
        while node is not None and not isinstance(node, ast.ClassDef):
            node = getattr(node, "_parent", None)
        if node is None:
            return None
        mod = getattr(node, "_module", None)
        cinfo = self.prog.classes.get(f"{mod.rel}::{node.name}") if mod is not None else None
        return self.prog.find_method(cinfo, meth) if cinfo is not None else None

    def inline(self, interp, call, finfo, hook, depth_limit=6):
        depth = interp.env.get("__depth__", 0)
        if depth >= depth_limit:
            raise AnalysisError(f"cell model: helper calls nested deeper than {depth_limit} at line {call.lineno}")
        fn = finfo.node
        params = [a.arg for a in fn.args.args]
        decos = {U(d) for d in fn.decorator_list}
        env = {"__depth__": depth + 1}
        if "staticmethod" in decos:
            names = params
        else:
            env[params[0]] = interp.env.get("self", {"__biomol__": True})  # self, or the class for a classmethod (never inspected)
            names = params[1:]
        for k in ("__dist__", "__cls__"):
            if k in interp.env:
                env[k] = interp.env[k]
        defaults = fn.args.defaults
        kws = {k.arg: k.value for k in call.keywords if k.arg}
        for i, pname in enumerate(names):
            if i < len(call.args):
                env[pname] = interp.ev(call.args[i])
            elif pname in kws:
                env[pname] = interp.ev(kws[pname])
            else:
                j = i - (len(names) - len(defaults))
                if j < 0:
                    raise AnalysisError(f"cell model: missing argument {pname!r} in helper call at line {call.lineno}")
                env[pname] = interp.ev(defaults[j])
        sub = Interp(env, call_hook=hook, loop_hook=self.loop_hook(), attr_hook=self.class_attr)
        sub.trace = interp.trace  # effects of the helper are effects of the caller
        try:
            sub.run(fn.body)
        except Flow as fl:
            if fl.kind == "return":
                return fl.value
            raise
        return None

    def loop_hook(self):
        def hook(interp: Interp, st):
            if not isinstance(st, ast.For):
                raise AnalysisError(f"cell model: while-loop at line {st.lineno} outside the analysable subset")
            seq = interp.ev(st.iter)
            if isinstance(seq, Unknown):
                raise AnalysisError(f"cell model: loop over undetermined sequence {U(st.iter)!r}")
            broke = False
            for item in list(seq):
                interp.store(st.target, item, st)
                try:
                    interp.run(st.body)
                except Flow as fl:
                    if fl.kind == "break":
                        broke = True
                        break
                    if fl.kind == "continue":
                        continue
                    raise
            if not broke:
                interp.run(st.orelse)

        return hook

    def run_method(self, finfo, obj, extra_env=None):
        env = {"self": obj, "__cls__": finfo.cls and self.prog.classes[f"{finfo.module.rel}::{finfo.cls.name}"]}
        env.update(extra_env or {})
        it = Interp(env, call_hook=self.call_hook(), loop_hook=self.loop_hook(), attr_hook=self.class_attr)
        try:
            it.run(finfo.node.body)
        except Flow as fl:
            if fl.kind == "raise":
                raise
            if fl.kind != "return":
                raise AnalysisError(f"stray {fl.kind} in {finfo.key}") from fl
        return it

    # ------------------------------------------------------------------ pipeline stages
    def assign_termini(self, residues, neutraln=False, neutralc=False, dist=3.8):
        fi = self.prog.func("biomolecule.py", "Biomolecule.assign_termini")
        chain = {"residues": residues, "chain_id": "A"}
        env = {"self": {"__biomol__": True}, "chain": chain, "neutraln": neutraln, "neutralc": neutralc,
               "__dist__": dist, "__cls__": None}
        it = Interp(env, call_hook=self.call_hook(), loop_hook=self.loop_hook(), attr_hook=self.class_attr)
        try:
            it.run(fi.node.body)
        except Flow as fl:
            if fl.kind == "raise":
                it.trace.append(("raise", fl.value, fl.node))
            elif fl.kind != "return":
                raise AnalysisError("stray flow in assign_termini") from fl
        return it

    def peptide_patch(self, res):
        """update_bonds: the PEPTIDE patch is applied to Amino residues that are not termini."""
        fi = self.prog.func("biomolecule.py", "Biomolecule.update_bonds")
        loop = None
        for st in fi.node.body:
            if isinstance(st, ast.For) and any(
                isinstance(c, ast.Call) and U(c.func).endswith("apply_patch") for c in ast.walk(st)
            ):
                loop = st
                break
        if loop is None:
            raise AnalysisError("update_bonds: the loop that applies the PEPTIDE patch was not found")
        env = {"self": {"__biomol__": True}, U(loop.target): res, "__cls__": None}
        it = Interp(env, call_hook=self.call_hook(), loop_hook=self.loop_hook(), attr_hook=self.class_attr)
        try:
            it.run(loop.body)
        except Flow as fl:
            if fl.kind not in ("continue",):
                raise AnalysisError("update_bonds: unexpected flow in PEPTIDE loop") from fl

    def add_all_hydrogens(self, res):
        """After add_hydrogens/repair every atom of the (patched) topology is present."""
        self.populate(res, heavy_only=False)

    def set_donors_acceptors(self, res):
        """Residue.set_donors_acceptors interpreted on the model (both optimisation initialisers call it)."""
        cls = res["__class__"]
        m = self.prog.find_method(cls, "set_donors_acceptors")
        if m is None:
            raise AnalysisError("set_donors_acceptors not found for " + cls.name)
        for n, a in res["map"].items():
            a["is_hydrogen"] = n.startswith("H")
        res["atoms"] = list(res["map"].values())
        res["reference"] = {"name": res["__ref__"].name, "__refobj__": True}
        self.run_method(m, res)

    def cleanup(self, res):
        fi = self.prog.func("hydrogens/__init__.py", "HydrogenRoutines.cleanup")
        loop = next((st for st in fi.node.body if isinstance(st, ast.For)), None)
        if loop is None:
            raise AnalysisError("HydrogenRoutines.cleanup: residue loop not found")
        env = {"self": {"__hr__": True}, U(loop.target): res, "__cls__": None}
        it = Interp(env, call_hook=self.call_hook(), loop_hook=self.loop_hook(), attr_hook=self.class_attr)
        try:
            it.run(loop.body)
        except Flow as fl:
            if fl.kind != "continue":
                raise AnalysisError("cleanup: unexpected flow") from fl

    def set_state(self, res):
        cls = res["__class__"]
        m = self.prog.find_method(cls, "set_state")
        if m is None:
            return None
        try:
            self.run_method(m, res)
        except Flow as fl:
            if fl.kind == "raise":
                return "RAISE"
            raise
        return res["ffname"]


def final_atoms(res):
    return [a for a in res["map"] if a not in PSEUDO]


# ---------------------------------------------------------------------- enumeration
TITRATION_STATES = {
    "ARG": ["AR0"], "ASP": ["ASH"], "GLU": ["GLH"], "CYS": ["CYM", "CYX"], "HIS": ["HIP"], "LYS": ["LYN"],
    "TYR": ["TYM"],
}
HIS_FLAGS = {  # (ND1.hdonor, ND1.hacceptor, NE2.hdonor, NE2.hacceptor) -> tautomer label
    "HIS(default)": (0, 0, 0, 0), "HIS(ND1 donor)": (1, 0, 0, 1), "HIS(NE2 donor)": (0, 1, 1, 0),
}
POSITIONS = {  # label -> (chain shape, neutraln, neutralc)
    "mid": ("XRX", False, False), "N": ("RX", False, False), "C": ("XR", False, False),
    "nN": ("RX", True, False), "nC": ("XR", False, True), "N+C": ("R", False, False),
}
NA_POSITIONS = {"mid": "XRX", "5": "RX", "3": "XR", "5+3": "R"}


class Cell:
    __slots__ = ("res", "pos", "state", "lookup", "atoms", "patches", "expected", "ref", "flags", "n_bonds", "note")

    def __init__(self, **kw):
        for k in self.__slots__:
            setattr(self, k, kw.get(k))

    @property
    def key(self):
        return f"{self.res}:{self.state}:{self.pos}"


def sidechain_formal(resname, atoms, patches, ss):
    """Chemistry table: formal charge of the side chain from the final atom set."""
    a = set(atoms)
    if resname == "ASP":
        return 0 if a & {"HD1", "HD2"} else -1
    if resname == "GLU":
        return 0 if a & {"HE1", "HE2"} else -1
    if resname == "CYS":
        return 0 if ("HG" in a or ss) else -1
    if resname == "TYR":
        return 0 if "HH" in a else -1
    if resname == "LYS":
        return 1 if {"HZ1", "HZ2", "HZ3"} <= a else 0
    if resname == "ARG":
        return 1 if {"HE", "HH11", "HH12", "HH21", "HH22"} <= a else 0
    if resname == "HIS":
        return 1 if {"HD1", "HE2"} <= a else 0
    return 0


def terminus_formal(res, atoms):
    """Valence counting on the patched topology: N with four bonds +1; carboxylate without HO -1."""
    q = 0
    ref = res["__ref__"]
    present = set(atoms)
    if res["is_n_term"] and "N" in ref.atoms:
        nb = [b for b in ref.atoms["N"].bonds if b in present]
        q += 1 if len(nb) >= 4 else 0
    if res["is_c_term"] and "OXT" in present:
        q += 0 if "HO" in present else -1
    return q


# protonation variants a structure file may name itself (residue name = variant, no patch recorded): variant -> (residue, canonical state)
INPUT_VARIANTS = {
    "AR0": ("ARG", "AR0"), "ASH": ("ASP", "ASH"), "CYM": ("CYS", "CYM"), "CYX": ("CYS", "CYX"), "GLH": ("GLU", "GLH"),
    "LYN": ("LYS", "LYN"), "TYM": ("TYR", "TYM"), "HID": ("HIS", "HID"), "HIE": ("HIS", "HIE"), "HIP": ("HIS", "HIP"),
    "HSD": ("HIS", "HID"), "HSE": ("HIS", "HIE"), "HSP": ("HIS", "HIP"),
}


def amino_cells(model: Model, residues=None):
    from .tables import AMINO
    out = []
    for R in residues or AMINO:
        states = [("default", None)] + [(s, s) for s in TITRATION_STATES.get(R, [])]
        states += [(f"in:{v}", None) for v, (r_, _) in INPUT_VARIANTS.items() if r_ == R and v in model.t.map]
        for slabel, spatch in states:
            for pos, (shape, nn, nc) in POSITIONS.items():
                his_variants = HIS_FLAGS.items() if (R == "HIS" and spatch is None and not slabel.startswith("in:")) else [(None, None)]
                for hlabel, hflags in his_variants:
                    res = model.residue(slabel[3:]) if slabel.startswith("in:") else model.residue(R)
                    if slabel == "in:CYX":
                        res["ss_bonded"] = True  # a residue named CYX is half of a bridge
                    chain = [model.residue("ALA") if c == "X" else res for c in shape]
                    model.assign_termini(chain, neutraln=nn, neutralc=nc)
                    model.peptide_patch(res)
                    if spatch == "CYX":
                        res["ss_bonded"] = True
                    if spatch:
                        model.apply_patch(spatch, res)
                    model.add_all_hydrogens(res)
                    if hflags:
                        for an, (d, a) in (("ND1", hflags[0:2]), ("NE2", hflags[2:4])):
                            res["map"][an]["hdonor"] = d
                            res["map"][an]["hacceptor"] = a
                    elif R == "HIS" and slabel.startswith("in:"):
                        model.set_donors_acceptors(res)  # no optimisation choice is modelled for a tautomer the input names
                    elif R == "HIS":
                        for an in ("ND1", "NE2"):
                            res["map"][an]["hdonor"] = 0
                            res["map"][an]["hacceptor"] = 0
                    model.cleanup(res)
                    lookup = model.set_state(res)
                    atoms = final_atoms(res)
                    exp = sidechain_formal(R, atoms, res["patches"], res["ss_bonded"]) + terminus_formal(res, atoms)
                    nb = [b for b in res["__ref__"].atoms["N"].bonds if b in atoms] if "N" in res["__ref__"].atoms else []
                    out.append(Cell(res=R, pos=pos, state=hlabel or slabel, lookup=lookup, atoms=atoms,
                                    patches=list(res["patches"]), expected=exp, ref=res["__ref__"],
                                    flags=(res["is_n_term"], res["is_c_term"]), n_bonds=len(nb)))
    return out


def nucleic_cells(model: Model):
    from .tables import NUCLEIC
    out = []
    for R in NUCLEIC:
        for pos, shape in NA_POSITIONS.items():
            res = model.residue(R)
            chain = [model.residue(R) if c == "X" else res for c in shape]
            model.assign_termini(chain)
            model.add_all_hydrogens(res)
            lookup = model.set_state(res)
            atoms = final_atoms(res)
            out.append(Cell(res=R, pos=pos, state="default", lookup=lookup, atoms=atoms, patches=list(res["patches"]),
                            expected=None, ref=res["__ref__"], flags=(res["is5term"], res["is3term"])))
    return out


def ff_status(ffmap, cell: Cell):
    """full / partial / absent and the charge sum of the topology atoms of the cell."""
    R = ffmap.get(cell.lookup) if cell.lookup not in (None, "RAISE") else None
    if R is None:
        return "absent", list(cell.atoms), None
    miss = [a for a in cell.atoms if a not in R]
    if miss:
        return "partial", miss, None
    return "full", [], sum(R[a].charge for a in cell.atoms)
