"""E3b string-layout abstract interpretation.

An abstract string is a list of segments: literals and *fields* (a value of a declared
domain with a content-length interval, padded/truncated to a width interval).  Straight-
line string code (``+``, ``+=``, f-strings, ``ljust/rjust`` in both spellings, ``[:n]``,
``" " * (n - len(v)) + v``) is interpreted over these; ``if`` statements fork the analysis
and refine the domain case of the variable they test, so every path yields one layout with
(ideally fixed) offsets.  Queries: field offsets, truncation, guaranteed separators.

Number widths come from formatting representative values of the *declared domain* with
Python's own ``format`` -- a pure function of the format spec, not repository code.
"""
from __future__ import annotations

import ast
import copy
import itertools

from .core import AnalysisError, U, try_fold


# ------------------------------------------------------------------------------- domains
class Case:
    """One case of a domain variable: a concrete value, or an abstract string/number family."""

    def __init__(self, label, *, value=None, concrete=False, lo=None, hi=None, numbers=None, chars="any"):
        self.label = label
        self.concrete = concrete
        self.value = value
        self.lo, self.hi = lo, hi  # length interval of str(value) for abstract strings
        self.numbers = numbers  # representative numeric values (extremes of the declared range)
        self.chars = chars

    def __repr__(self):
        return f"Case({self.label})"

    def strlen(self):
        if self.concrete:
            return (len(str(self.value)),) * 2
        if self.numbers is not None:
            ls = [len(str(v)) for v in self.numbers]
            return min(ls), max(ls)
        return self.lo, self.hi

    def split_len(self, op, k):
        """Split an abstract string case by a test ``len(x) <op> k`` -> (true part, false part)."""
        lo, hi = self.strlen()
        t = [n for n in range(lo, hi + 1) if _cmp(n, op, k)]
        f = [n for n in range(lo, hi + 1) if not _cmp(n, op, k)]

        def mk(ns):
            if not ns:
                return None
            if self.concrete or self.numbers is not None:
                return self
            return Case(f"{self.label}[len {ns[0]}..{ns[-1]}]", lo=ns[0], hi=ns[-1], chars=self.chars)

        return mk(t), mk(f)


def _cmp(a, op, b):
    return {ast.Eq: a == b, ast.NotEq: a != b, ast.Lt: a < b, ast.LtE: a <= b, ast.Gt: a > b, ast.GtE: a >= b}[type(op)]


def S(label, lo, hi, chars="any"):
    return Case(label, lo=lo, hi=hi, chars=chars)


def C(value):
    return Case(repr(value), value=value, concrete=True)


def N(label, numbers):
    return Case(label, numbers=list(numbers))


# ------------------------------------------------------------------------------- abstract values
class Seg:
    def __init__(self, kind, *, text=None, src=None, clo=0, chi=0, wlo=None, whi=None, align=None, trunc=False,
                 blank_content=False, case=None, spec=None):
        self.kind = kind  # 'lit' | 'fld'
        self.text = text
        self.src = src
        self.clo, self.chi = clo, chi
        self.wlo = clo if wlo is None else wlo
        self.whi = chi if whi is None else whi
        self.align = align
        self.trunc = trunc
        self.blank_content = blank_content
        self.case = case
        self.spec = spec  # format spec applied to the source value (None: str())

    def __repr__(self):
        if self.kind == "lit":
            return f"lit({self.text!r})"
        return (f"fld({self.src}, c={self.clo}..{self.chi}, w={self.wlo}..{self.whi}, {self.align or '-'}"
                f"{', TRUNC' if self.trunc else ''})")


class AStr:
    def __init__(self, segs=None):
        self.segs = segs or []

    @staticmethod
    def lit(text):
        return AStr([Seg("lit", text=text, clo=len(text), chi=len(text))]) if text != "" else AStr([])

    def __add__(self, other):
        return AStr(self.segs + other.segs)

    def width(self):
        return sum(s.wlo for s in self.segs), sum(s.whi for s in self.segs)

    def single_field(self):
        f = [s for s in self.segs if s.kind == "fld"]
        return f[0] if len(f) == 1 and len(self.segs) == 1 else None

    def __repr__(self):
        return " + ".join(map(repr, self.segs)) or "''"


class Src:
    """Reference to a domain variable (raw, unformatted)."""

    def __init__(self, key):
        self.key = key

    def __repr__(self):
        return f"Src({self.key})"


class LenOf:
    def __init__(self, val):
        self.val = val  # Src or AStr


class PadAmount:
    def __init__(self, n, val):
        self.n, self.val = n, val


class PadStr:
    def __init__(self, n, val, ch=" "):
        self.n, self.val, self.ch = n, val, ch


class Opaque:
    def __init__(self, why):
        self.why = why

    def __repr__(self):
        return f"Opaque({self.why})"


class State:
    def __init__(self, env=None, refine=None):
        self.env = env or {}
        self.refine = refine or {}
        self.events = []
        self.result = None
        self.done = False

    def fork(self):
        s = State(dict(self.env), dict(self.refine))
        s.events = list(self.events)
        return s


class _Deferred:
    """A test the caller computed and passed as an argument; it is decided where the callee branches on it."""

    def __init__(self, expr):
        self.expr = expr


class Layout:
    """Engine instance: domains + source recognition + path enumeration."""

    def __init__(self, domains, source_of, consts=None, max_paths=4096, helpers=None, method_of=None):
        self.domains = domains  # key -> [Case]
        self.source_of = source_of  # callable(node) -> key or None
        self.consts = consts or {}
        self.max_paths = max_paths
        self.helpers = helpers or {}  # name -> FunctionDef of small module-level helpers that are analysed inline
        self.method_of = method_of  # (class name, method name) -> FunctionDef: methods of constant record objects are analysed inline

    # ---------------------------------------------------------------- helpers
    def case_of(self, st: State, key):
        if key in st.refine:
            return [st.refine[key]]
        if key not in self.domains:
            raise AnalysisError(f"layout: no declared domain for source {key!r}")
        return self.domains[key]

    def src_len(self, st, key):
        los, his = zip(*[c.strlen() for c in self.case_of(st, key)])
        return min(los), max(his)

    def to_astr(self, st, val, node=None):
        if isinstance(val, AStr):
            return val
        if isinstance(val, str):
            return AStr.lit(val)
        if isinstance(val, Src):
            cases = self.case_of(st, val.key)
            if len(cases) == 1 and cases[0].concrete and isinstance(cases[0].value, str):
                return AStr.lit(cases[0].value)
            lo, hi = self.src_len(st, val.key)
            return AStr([Seg("fld", src=val.key, clo=lo, chi=hi, case=cases[0] if len(cases) == 1 else None)])
        if isinstance(val, PadStr):
            inner = self.to_astr(st, val.val)
            lo, hi = inner.width()
            return AStr([Seg("fld", src="<pad>", clo=max(0, val.n - hi), chi=max(0, val.n - lo), blank_content=True)])
        if isinstance(val, Opaque):
            raise AnalysisError(f"layout: opaque value used as a string: {val.why}")
        raise AnalysisError(f"layout: cannot use {val!r} as a string at line {getattr(node, 'lineno', '?')}")

    # ---------------------------------------------------------------- expressions
    def ev(self, st: State, node):
        if isinstance(node, _ValNode):
            return node.value
        key = self.source_of(node)
        if key is None and isinstance(node, ast.Call) and any(isinstance(a, ast.Name) and isinstance(st.env.get(a.id), str) for a in node.args):
            # an item name held in a loop variable over a constant tuple: read the call with the name filled in
            filled = ast.Call(func=node.func, args=[ast.Constant(value=st.env[a.id]) if isinstance(a, ast.Name) and isinstance(st.env.get(a.id), str) else a
                                                    for a in node.args], keywords=node.keywords)
            key = self.source_of(ast.copy_location(filled, node))
        if key is not None:
            return Src(key)
        if isinstance(node, ast.Constant):
            return node.value
        if isinstance(node, ast.Name):
            if node.id in st.env:
                return st.env[node.id]
            if node.id in self.consts:
                return self.consts[node.id]
            if node.id == "str":
                return str
            return Opaque(f"free name {node.id}")
        if isinstance(node, ast.JoinedStr):
            out = AStr()
            for v in node.values:
                if isinstance(v, ast.Constant):
                    out = out + AStr.lit(str(v.value))
                else:
                    spec = ""
                    if v.format_spec is not None:
                        spec = try_fold(v.format_spec)
                        if spec is None:
                            raise AnalysisError(f"layout: dynamic format spec in {U(node)}")
                    out = out + self.fmt(st, self.ev(st, v.value), spec, v)
            return out
        if isinstance(node, ast.BinOp):
            if isinstance(node.op, ast.Add):
                a, b = self.ev(st, node.left), self.ev(st, node.right)
                return self.add(st, a, b, node)
            if isinstance(node.op, ast.Sub):
                a, b = self.ev(st, node.left), self.ev(st, node.right)
                if isinstance(a, int) and isinstance(b, LenOf):
                    return PadAmount(a, b.val)
                if isinstance(a, (int, float)) and isinstance(b, (int, float)):
                    return a - b
                return Opaque(f"subtraction {U(node)}")
            if isinstance(node.op, ast.Mult):
                a, b = self.ev(st, node.left), self.ev(st, node.right)
                if isinstance(b, str) and not isinstance(a, str):
                    a, b = b, a
                if isinstance(a, str) and isinstance(b, int):
                    return a * b
                if isinstance(a, str) and isinstance(b, PadAmount):
                    if a == "":
                        return ""
                    if len(a) != 1:
                        raise AnalysisError(f"layout: multi-character pad in {U(node)}")
                    return PadStr(b.n, b.val, a)
                if isinstance(a, (int, float)) and isinstance(b, (int, float)):
                    return a * b
                return Opaque(f"product {U(node)}")
        if isinstance(node, ast.IfExp):
            # handled by the statement-level forker when it is the whole right-hand side; here: join
            raise _NeedFork(node)
        if isinstance(node, ast.BoolOp) and len(node.values) == 2:
            # `a or b` is `a if a else b`, `a and b` is `b if a else a`: forked like a conditional expression
            a, b = node.values
            fake = ast.IfExp(test=a, body=a, orelse=b) if isinstance(node.op, ast.Or) else ast.IfExp(test=a, body=b, orelse=a)
            fake._boolop = node
            raise _NeedFork(fake)
        if isinstance(node, ast.Call):
            return self.call(st, node)
        if isinstance(node, ast.Subscript):
            base = self.ev(st, node.value)
            if isinstance(node.slice, ast.Slice) and node.slice.step is None:
                lo = try_fold(node.slice.lower, self.consts) if node.slice.lower else 0
                hi = try_fold(node.slice.upper, self.consts) if node.slice.upper else None
                if node.slice.lower is not None and not isinstance(lo, int):
                    lo = self.ev(st, node.slice.lower)
                if node.slice.upper is not None and not isinstance(hi, int):
                    hi = self.ev(st, node.slice.upper)
                if not isinstance(lo, int) or (hi is not None and not isinstance(hi, int)):
                    return Opaque(f"dynamic slice {U(node)}")
                if isinstance(base, (AStr, Src, str)):
                    return self.slice(st, self.to_astr(st, base), lo, hi, node)
            return Opaque(f"subscript {U(node)}")
        if isinstance(node, (ast.List, ast.Tuple)):
            out = []
            for e in node.elts:
                if isinstance(e, ast.Starred):
                    v = self.ev(st, e.value)
                    if not isinstance(v, list):
                        return Opaque(f"unpacking of {U(e.value)}")
                    out.extend(v)
                else:
                    out.append(self.ev(st, e))
            return out
        if isinstance(node, (ast.ListComp, ast.GeneratorExp)) and len(node.generators) == 1 and not node.generators[0].ifs \
                and isinstance(node.generators[0].target, ast.Name):
            # a comprehension over a literal sequence is the sequence of its element expressions
            seq = self.ev(st, node.generators[0].iter)
            if isinstance(seq, tuple) or (isinstance(seq, str) and len(seq) <= 16):
                seq = list(seq)  # (a constant string is the sequence of its characters)
            if not isinstance(seq, list):
                return Opaque(f"comprehension over {U(node.generators[0].iter)}")
            var = node.generators[0].target.id
            saved = st.env.get(var, _ValNode)
            out = []
            for item in seq:
                st.env[var] = item
                out.append(self.ev(st, node.elt))
            if saved is _ValNode:
                st.env.pop(var, None)
            else:
                st.env[var] = saved
            return out
        if isinstance(node, ast.Attribute):
            base = self.ev(st, node.value) if isinstance(node.value, ast.Name) else None
            if isinstance(base, dict) and node.attr in base:
                return base[node.attr]  # a field of a constant record object (module-level NamedTuple instance ...)
            if base is str and hasattr(str, node.attr):
                return getattr(str, node.attr)
            return Opaque(f"attribute {U(node)}")
        if isinstance(node, ast.UnaryOp) and isinstance(node.op, ast.USub):
            v = self.ev(st, node.operand)
            if isinstance(v, (int, float)):
                return -v
        return Opaque(f"{type(node).__name__} {U(node)[:40]}")

    def add(self, st, a, b, node):
        if isinstance(a, Opaque) or isinstance(b, Opaque):
            return Opaque(f"sum with {a if isinstance(a, Opaque) else b}")
        for side in (a, b):
            src_none = isinstance(side, Src) and len(self.case_of(st, side.key)) == 1 \
                and self.case_of(st, side.key)[0].concrete and self.case_of(st, side.key)[0].value is None
            if side is None or src_none:
                # str + None raises TypeError at run time; record it and continue with an empty contribution
                st.events.append(("none-concat", U(node)[:60]))
                other = b if side is a else a
                return self.to_astr(st, other, node) if not isinstance(other, Src) or other is not side else AStr()
        # the pad idioms:  " " * (n - len(v)) + v   and   v + " " * (n - len(v))
        for pad, val, align in ((a, b, "r"), (b, a, "l")):
            if isinstance(pad, PadStr):
                inner = self.to_astr(st, pad.val)
                other = self.to_astr(st, val)
                f1, f2 = inner.single_field(), other.single_field()
                same = (f1 is not None and f2 is not None and f1.src == f2.src) or (
                    repr(inner) == repr(other) and len(other.segs) <= 1)
                if same:
                    lo, hi = other.width()
                    seg = Seg("fld", src=(f2.src if f2 else "<lit>"), clo=lo, chi=hi, wlo=max(lo, pad.n), whi=max(hi, pad.n),
                              align=align, case=f2.case if f2 else None, spec=f2.spec if f2 else None)
                    if not other.segs:  # empty literal padded
                        seg = Seg("fld", src="<pad>", clo=pad.n, chi=pad.n, blank_content=True)
                    return AStr([seg])
        return self.to_astr(st, a, node) + self.to_astr(st, b, node)

    def fmt(self, st, val, spec, node):
        if isinstance(val, Src):
            cases = self.case_of(st, val.key)
            ws = []
            cut = False
            for c in cases:
                if c.concrete:
                    try:
                        ws.append(len(format(c.value, spec)))
                    except (TypeError, ValueError) as exc:
                        raise AnalysisError(f"layout: cannot format {c.value!r} with {spec!r}: {exc}") from exc
                elif c.numbers is not None:
                    for v in c.numbers:
                        try:
                            ws.append(len(format(v, spec)))
                        except (TypeError, ValueError) as exc:
                            raise AnalysisError(f"layout: cannot format {v!r} with {spec!r}: {exc}") from exc
                else:
                    lo, hi = c.strlen()
                    for n in (lo, hi):
                        ws.append(len(format("x" * n, spec or "")))
                        # a precision on a text value drops the characters beyond it
                        cut = cut or len(format("x" * n, spec or "")) < n
            # fixed minimum width of the spec acts as padding
            return AStr([Seg("fld", src=val.key, clo=min(ws), chi=max(ws), case=cases[0] if len(cases) == 1 else None, spec=spec, trunc=cut)])
        if isinstance(val, (int, float, str)):
            return AStr.lit(format(val, spec))
        if isinstance(val, AStr) and spec == "":
            return val
        raise AnalysisError(f"layout: cannot format {val!r} in {U(node)}")

    def slice(self, st, s: AStr, lo, hi, node):
        f = s.single_field()
        if lo == 0 and hi is not None and f is not None:
            seg = copy.copy(f)
            if seg.whi > hi:
                # content is cut if it can be longer than hi (for right-aligned padding the pad goes first)
                if seg.chi > hi:
                    seg.trunc = True
                seg.whi = min(seg.whi, hi)
                seg.wlo = min(seg.wlo, hi)
                seg.chi = min(seg.chi, hi)
                seg.clo = min(seg.clo, hi)
            return AStr([seg])
        wlo, whi = s.width()
        if wlo == whi and hi is not None and hi >= whi and lo == 0:
            return s
        if all(x.kind == "lit" for x in s.segs):
            text = "".join(x.text for x in s.segs)
            return AStr.lit(text[lo:hi])
        # fixed-offset layout cut on segment boundaries (literals may be cut anywhere)
        if all(x.wlo == x.whi for x in s.segs) and lo >= 0 and (hi is None or hi >= 0):
            out, pos = [], 0
            end = whi if hi is None else min(hi, whi)
            for seg in s.segs:
                a, b = pos, pos + seg.wlo
                pos = b
                if b <= lo or a >= end:
                    continue
                if a >= lo and b <= end:
                    out.append(seg)
                elif seg.kind == "lit":
                    out.append(Seg("lit", text=seg.text[max(lo - a, 0): end - a], clo=0, chi=0))
                    out[-1].clo = out[-1].chi = out[-1].wlo = out[-1].whi = len(out[-1].text)
                else:
                    return Opaque(f"slice [{lo}:{hi}] cuts through field {seg.src}")
            return AStr(out)
        return Opaque(f"slice [{lo}:{hi}] of a multi-segment string {s!r}")

    def call(self, st, node):
        name = U(node.func)
        f = node.func
        args = node.args
        if name in self.helpers:
            raise _NeedCall(node)
        if name == "getattr" and len(args) == 2 and not node.keywords:
            key = self.ev(st, args[1])
            if isinstance(key, str) and key.isidentifier():
                return self.ev(st, ast.copy_location(ast.Attribute(value=args[0], attr=key, ctx=ast.Load()), node))  # getattr(obj, "name") is obj.name
        if isinstance(f, ast.Attribute) and isinstance(f.value, ast.Name) and self.method_of is not None:
            recv = self.ev(st, f.value)
            if isinstance(recv, dict) and isinstance(recv.get("__class__"), str):
                if callable(recv.get(f.attr)) and not isinstance(recv.get(f.attr), dict):
                    fnv = recv[f.attr]
                    if fnv in (str.ljust, str.rjust, str.center) and len(args) >= 2:
                        return self._justify(st, fnv.__name__, self.ev(st, args[0]), self.ev(st, args[1]), node)
                fdef = self.method_of(recv["__class__"], f.attr)
                if fdef is not None:
                    raise _NeedCall(node, fdef=fdef, selfobj=recv)
        if name == "str" and len(args) == 1:
            v = self.ev(st, args[0])
            if isinstance(v, (Src, AStr)):
                return self.to_astr(st, v)
            if isinstance(v, (int, float)):
                return str(v)
            return v
        if name == "len" and len(args) == 1:
            v = self.ev(st, args[0])
            if isinstance(v, str):
                return len(v)
            if isinstance(v, (Src, AStr)):
                return LenOf(v)
            return Opaque("len of " + repr(v))
        if isinstance(f, ast.Attribute) and f.attr == "join" and len(args) == 1 and not node.keywords:
            sep, parts = self.ev(st, f.value), self.ev(st, args[0])
            if isinstance(sep, str) and isinstance(parts, list):
                out = AStr()
                for i, part in enumerate(parts):
                    if i and sep:
                        out = out + AStr.lit(sep)
                    out = out + self.to_astr(st, part, node)
                return out
            return Opaque(f"join {U(node)[:40]}")
        meth = None
        if isinstance(f, ast.Name) and st.env.get(f.id) in (str.ljust, str.rjust, str.center) and len(args) >= 2 and not node.keywords:
            return self._justify(st, st.env[f.id].__name__, self.ev(st, args[0]), self.ev(st, args[1]), node)
        if name in ("str.ljust", "str.rjust", "str.center") and len(args) >= 2:
            meth, base, n = name.split(".")[1], self.ev(st, args[0]), try_fold(args[1], self.consts)
            if not isinstance(n, int):
                n = self.ev(st, args[1])
        elif isinstance(f, ast.Attribute) and f.attr in ("ljust", "rjust") and len(args) >= 1:
            meth, base, n = f.attr, self.ev(st, f.value), try_fold(args[0], self.consts)
            if not isinstance(n, int):
                n = self.ev(st, args[0])
        if meth is not None:
            return self._justify(st, meth, base, n, node)
        if isinstance(f, ast.Attribute) and f.attr in ("strip", "lstrip", "rstrip", "upper", "lower"):
            base = self.ev(st, f.value)
            if isinstance(base, (Src, AStr, str)):
                s = self.to_astr(st, base)
                lo, hi = s.width()
                if f.attr in ("upper", "lower"):
                    return s
                return AStr([Seg("fld", src="<stripped>", clo=0, chi=hi)])
        return Opaque(f"call {name}")

    def _justify(self, st, meth, base, n, node):
        if not isinstance(n, int):
            raise AnalysisError(f"layout: dynamic pad width in {U(node)}")
        s = self.to_astr(st, base, node)
        lo, hi = s.width()
        fsrc = s.single_field()
        seg = Seg("fld", src=fsrc.src if fsrc else ("<lit>" if s.segs else "<pad>"), clo=lo, chi=hi, wlo=max(lo, n),
                  whi=max(hi, n), align="l" if meth == "ljust" else "r", case=fsrc.case if fsrc else None,
                  trunc=fsrc.trunc if fsrc else False, blank_content=not s.segs, spec=fsrc.spec if fsrc else None)
        return AStr([seg])

    # ---------------------------------------------------------------- tests
    def test(self, st: State, node):
        """-> list of (state, bool)."""
        if isinstance(node, ast.Name) and isinstance(st.env.get(node.id), _Deferred):
            return self.test(st, st.env[node.id].expr)  # a test computed by the caller and handed in as an argument: decided (and refined) here
        if isinstance(node, ast.BoolOp):
            res = []
            todo = [(st, 0)]
            is_and = isinstance(node.op, ast.And)
            while todo:
                s, i = todo.pop()
                for s2, v in self.test(s, node.values[i]):
                    if (v and not is_and) or (not v and is_and) or i == len(node.values) - 1:
                        res.append((s2, v))
                    else:
                        todo.append((s2, i + 1))
            return res
        if isinstance(node, ast.UnaryOp) and isinstance(node.op, ast.Not):
            return [(s, not v) for s, v in self.test(st, node.operand)]
        if isinstance(node, ast.Compare) and len(node.ops) == 1:
            op = node.ops[0]
            left, right = self.ev(st, node.left), self.ev(st, node.comparators[0])
            # len(x) <op> k
            if isinstance(left, LenOf) and isinstance(right, int):
                v = left.val
                if isinstance(v, Src):
                    out = []
                    for c in self.case_of(st, v.key):
                        t, f = c.split_len(op, right)
                        for part, val in ((t, True), (f, False)):
                            if part is not None:
                                s2 = st.fork()
                                s2.refine[v.key] = part
                                out.append((s2, val))
                    return out
                if isinstance(v, AStr):
                    lo, hi = v.width()
                    poss = {_cmp(n, op, right) for n in range(lo, hi + 1)}
                    fsrc = v.single_field()
                    if len(poss) == 2 and fsrc is not None and fsrc.src in self.domains and fsrc.wlo == fsrc.clo:
                        return self.test_src_len(st, fsrc.src, op, right)
                    return [(st.fork(), p) for p in sorted(poss, reverse=True)]
            # x == const, x != const, x in LIST, x not in LIST, x is None
            if isinstance(left, Src) and not isinstance(right, (Src, AStr, Opaque, LenOf)):
                out = {}
                for c in self.case_of(st, left.key):
                    if c.concrete:
                        val = _pycmp(c.value, op, right, node)
                    else:
                        # an abstract non-marker value: unequal to every constant it cannot be
                        val = _abstract_cmp(c, op, right, node)
                    for b in ([val] if val is not None else [True, False]):
                        out.setdefault(b, []).append(c)
                res = []
                for b, cs in out.items():
                    for c in cs:
                        s2 = st.fork()
                        s2.refine[left.key] = c
                        res.append((s2, b))
                return res
            if isinstance(left, (str, int, float)) and isinstance(right, (str, int, float, list, tuple)):
                return [(st, _pycmp(left, op, right, node))]
            if isinstance(left, AStr) and isinstance(right, str):
                f = left.single_field()
                if f is not None and f.src in self.domains:
                    return self.test(st, ast.Compare(left=_SrcNode(f.src), ops=[op], comparators=[ast.Constant(right)]))
        if isinstance(node, ast.Call) and isinstance(node.func, ast.Attribute) and node.func.attr == "has_attribute":
            return [(st, True)]  # assumption: items the wwPDB always writes are present
        if isinstance(node, ast.Call) and isinstance(node.func, ast.Attribute) and node.func.attr in ("isdigit", "isnumeric", "isdecimal") \
                and not node.args:
            base = self.ev(st, node.func.value)
            key2 = base.key if isinstance(base, Src) else (base.single_field().src if isinstance(base, AStr) and base.single_field() else None)
            if isinstance(base, str):
                return [(st, getattr(base, node.func.attr)())]
            if key2 in self.domains:
                res = []
                for c in self.case_of(st, key2):
                    if c.numbers is not None:
                        for val, nums in ((True, [x for x in c.numbers if str(x).isdigit()]), (False, [x for x in c.numbers if not str(x).isdigit()])):
                            if nums:
                                s2 = st.fork()
                                s2.refine[key2] = Case(f"{c.label}[{'digits only' if val else 'signed/non-digit'}]", numbers=nums)
                                res.append((s2, val))
                    elif c.concrete:
                        s2 = st.fork()
                        s2.refine[key2] = c
                        res.append((s2, isinstance(c.value, str) and c.value.isdigit()))
                    else:
                        for val in (True, False):
                            s2 = st.fork()
                            s2.refine[key2] = c
                            res.append((s2, val))
                return res
            return [(st.fork(), True), (st.fork(), False)]
        key = self.source_of(node)
        if key is not None or isinstance(node, ast.Name):
            v = self.ev(st, node)
            if isinstance(v, Src):
                res = []
                for c in self.case_of(st, v.key):
                    s2 = st.fork()
                    s2.refine[v.key] = c
                    if c.concrete:
                        res.append((s2, bool(c.value)))
                    elif c.numbers is None and c.lo is not None and c.lo >= 1:
                        res.append((s2, True))  # a non-empty string
                    else:
                        raise AnalysisError(f"layout: truth test on abstract value {v.key}")
                return res
            if isinstance(v, (bool, int, str)) or v is None:
                return [(st, bool(v))]
        # undecidable here: explore both branches without refinement (sound over-approximation)
        return [(st.fork(), True), (st.fork(), False)]

    def test_src_len(self, st, key, op, k):
        out = []
        for c in self.case_of(st, key):
            t, f = c.split_len(op, k)
            for part, val in ((t, True), (f, False)):
                if part is not None:
                    s2 = st.fork()
                    s2.refine[key] = part
                    out.append((s2, val))
        return out

    # ---------------------------------------------------------------- statements
    def run(self, stmts, st: State | None = None, on_expr=None):
        """Enumerate paths through a statement list; returns the list of final states."""
        states = [st or State()]
        for stmt in stmts:
            nxt = []
            for s in states:
                if s.done:
                    nxt.append(s)
                    continue
                nxt.extend(self.step(s, stmt, on_expr))
            states = nxt
            if len(states) > self.max_paths:
                raise AnalysisError(f"layout: more than {self.max_paths} paths")
        return states

    def step(self, st: State, stmt, on_expr):
        try:
            return self._step(st, stmt, on_expr)
        except _NeedCall as nc:
            h = nc.fdef if nc.fdef is not None else self.helpers[U(nc.node.func)]
            params = [a.arg for a in h.args.args]
            sub = State(env={}, refine=dict(st.refine))
            if nc.fdef is not None:
                sub.env[params[0]] = nc.selfobj
                params = params[1:]
            elif U(nc.node.func).startswith(("self.", "cls.")) and params and params[0] in ("self", "cls") and not any(
                    U(d) == "staticmethod" for d in h.decorator_list):
                params = params[1:]  # a method of the object being formatted: `self.<field>` inside it denotes the same fields
            if len(nc.node.args) > len(params) or any(k.arg not in params for k in nc.node.keywords):
                raise AnalysisError(f"layout: cannot bind the arguments of {U(nc.node.func)}")
            bound_exprs = dict(zip(params, nc.node.args))
            bound_exprs.update({k.arg: k.value for k in nc.node.keywords})
            defaults = dict(zip([a.arg for a in h.args.args][len(h.args.args) - len(h.args.defaults):], h.args.defaults))
            for p_ in params:
                a_ = bound_exprs.get(p_, defaults.get(p_))
                if a_ is None:
                    raise AnalysisError(f"layout: missing argument {p_!r} of {U(nc.node.func)}")
                if p_ in bound_exprs and isinstance(a_, ast.Name) and a_.id == p_ and a_.id not in st.env:
                    continue  # a free variable of the caller handed on under the same name stays free (both values are explored where it is tested)
                if p_ not in bound_exprs and U(a_) in ("str.ljust", "str.rjust", "str.center"):
                    sub.env[p_] = getattr(str, U(a_).split(".")[1])
                    continue
                if U(a_) in ("str.ljust", "str.rjust", "str.center"):
                    sub.env[p_] = getattr(str, U(a_).split(".")[1])
                    continue
                if p_ in bound_exprs and (isinstance(a_, (ast.Compare, ast.BoolOp)) or (isinstance(a_, ast.UnaryOp) and isinstance(a_.op, ast.Not))):
                    import copy as _copy
                    e2 = _copy.deepcopy(a_)
                    for n_ in ast.walk(e2):
                        if isinstance(n_, ast.Name) and n_.id in st.env:
                            sub.env["__c_" + n_.id] = st.env[n_.id]
                            n_.id = "__c_" + n_.id
                    sub.env[p_] = _Deferred(e2)
                    continue
                try:
                    sub.env[p_] = self.ev(st if p_ in bound_exprs else State(env={}, refine={}), a_)
                except _NeedCall:
                    raise AnalysisError("layout: nested helper calls in one argument list")
                except _NeedFork as nf:
                    return self._fork(st, stmt, nf, on_expr)  # a conditional expression in the argument list: fork first, then call
            body = [x for x in h.body if not (isinstance(x, ast.Expr) and isinstance(x.value, ast.Constant))]
            out = []
            for fin in self.run(body, sub, on_expr):
                s2 = st.fork()
                s2.refine = dict(fin.refine)
                s2.events = st.events + [e for e in fin.events if e not in st.events]
                stmt2 = _replace(stmt, nc.node, _ValNode(fin.result if fin.done else None))
                out.extend(self.step(s2, stmt2, on_expr))
            return out
        except _NeedFork as nf:
            return self._fork(st, stmt, nf, on_expr)

    def _fork(self, st, stmt, nf, on_expr):
        """An IfExp inside an expression: fork on its test and re-run the statement with the chosen arm."""
        out = []
        for s2, val in self.test(st, nf.node.test):
            repl = nf.node.body if val else nf.node.orelse
            stmt2 = _replace(stmt, getattr(nf.node, "_boolop", nf.node), repl)
            out.extend(self.step(s2, stmt2, on_expr))
        return out

    def _step(self, st: State, stmt, on_expr):
        if isinstance(stmt, ast.Assign) and len(stmt.targets) == 1 and isinstance(stmt.targets[0], ast.Name):
            st.env[stmt.targets[0].id] = self.ev(st, stmt.value)
            return [st]
        if isinstance(stmt, ast.AnnAssign) and isinstance(stmt.target, ast.Name) and stmt.value is not None:
            st.env[stmt.target.id] = self.ev(st, stmt.value)
            return [st]
        if isinstance(stmt, ast.AugAssign) and isinstance(stmt.target, ast.Name) and isinstance(stmt.op, ast.Add):
            cur = st.env.get(stmt.target.id, Opaque("unbound"))
            val = self.ev(st, stmt.value)
            st.env[stmt.target.id] = self.add(st, cur, val, stmt)
            return [st]
        if isinstance(stmt, ast.If):
            out = []
            for s2, val in self.test(st, stmt.test):
                out.extend(self.run(stmt.body if val else stmt.orelse, s2, on_expr))
            return out
        if isinstance(stmt, ast.Expr):
            c = stmt.value
            if isinstance(c, ast.Call) and isinstance(c.func, ast.Attribute) and isinstance(c.func.value, ast.Name) and isinstance(st.env.get(c.func.value.id), list):
                # the pieces of the line collected in a local list
                lst = st.env[c.func.value.id]
                if c.func.attr == "append" and len(c.args) == 1 and not c.keywords:
                    st.env[c.func.value.id] = lst + [self.ev(st, c.args[0])]
                    return [st]
                if c.func.attr == "extend" and len(c.args) == 1 and not c.keywords:
                    more = self.ev(st, c.args[0])
                    if isinstance(more, (list, tuple)):
                        st.env[c.func.value.id] = lst + list(more)
                        return [st]
                raise AnalysisError(f"layout: unsupported operation on the list of pieces: {U(c)[:60]}")
            if on_expr is not None:
                on_expr(self, st, stmt)
            return [st]
        if isinstance(stmt, ast.Return):
            st.result = self.ev(st, stmt.value) if stmt.value is not None else None
            st.done = True
            return [st]
        if isinstance(stmt, (ast.Pass,)):
            return [st]
        if isinstance(stmt, ast.Try):
            return self.run(stmt.body, st, on_expr)
        if isinstance(stmt, ast.Assign):
            return [st]  # attribute/subscript stores do not build strings
        if isinstance(stmt, ast.For) and isinstance(stmt.target, ast.Name) and not stmt.orelse \
                and not any(isinstance(x, (ast.Break, ast.Continue)) for x in ast.walk(stmt)):
            # a loop over a literal sequence is its body once per element
            seq = self.ev(st, stmt.iter)
            if isinstance(seq, tuple):
                seq = list(seq)
            if isinstance(seq, list) and len(seq) <= 16:
                states = [st]
                for item in seq:
                    nxt = []
                    for s_ in states:
                        if s_.done:
                            nxt.append(s_)
                            continue
                        s_.env[stmt.target.id] = item
                        nxt.extend(self.run(stmt.body, s_, on_expr))
                    states = nxt
                return states
        raise AnalysisError(f"layout: statement {type(stmt).__name__} at line {stmt.lineno} outside the analysable subset")


class _NeedFork(Exception):
    def __init__(self, node):
        self.node = node


class _NeedCall(Exception):
    def __init__(self, node, fdef=None, selfobj=None):
        self.node = node
        self.fdef = fdef
        self.selfobj = selfobj


class _ValNode(ast.AST):
    """Synthetic node carrying an already computed abstract value."""
    _fields = ()

    def __init__(self, value):
        self.value = value


class _SrcNode(ast.AST):
    """Synthetic node that the source recogniser maps back to a key."""
    _fields = ()

    def __init__(self, key):
        self.key = key


def _replace(stmt, old, new):
    """Copy of `stmt` with the sub-node `old` replaced by `new`; only nodes on the path to `old` are rebuilt."""
    def contains(n):
        return any(x is old for x in ast.walk(n))

    def sub(n):
        if n is old:
            return new
        if not isinstance(n, ast.AST) or not contains(n):
            return n
        kw = {}
        for field, val in ast.iter_fields(n):
            if isinstance(val, list):
                kw[field] = [sub(v) if isinstance(v, ast.AST) else v for v in val]
            elif isinstance(val, ast.AST):
                kw[field] = sub(val)
            else:
                kw[field] = val
        out = type(n)(**kw)
        return ast.copy_location(out, n)

    if not contains(stmt):
        raise AnalysisError("layout: internal: IfExp not found for forking")
    return sub(stmt)


def _pycmp(a, op, b, node):
    try:
        if isinstance(op, ast.Eq):
            return a == b
        if isinstance(op, ast.NotEq):
            return a != b
        if isinstance(op, ast.In):
            return a in b
        if isinstance(op, ast.NotIn):
            return a not in b
        if isinstance(op, ast.Is):
            return a is b
        if isinstance(op, ast.IsNot):
            return a is not b
        return _cmp(a, op, b)
    except (TypeError, KeyError) as exc:
        raise AnalysisError(f"layout: cannot compare in {U(node)!r}: {exc}") from exc


def _abstract_cmp(case, op, right, node):
    """Compare an abstract non-empty, non-marker string with a constant or a list of constants."""
    consts = right if isinstance(right, (list, tuple, set)) else [right]
    lo, hi = case.strlen()
    possible = any(isinstance(c, str) and lo <= len(c) <= hi and not _excluded(case, c) for c in consts)
    if isinstance(op, (ast.Eq, ast.In)):
        return None if possible else False
    if isinstance(op, (ast.NotEq, ast.NotIn)):
        return None if possible else True
    if isinstance(op, ast.Is):
        return False
    if isinstance(op, ast.IsNot):
        return True
    raise AnalysisError(f"layout: unsupported test on abstract value: {U(node)!r}")


def _excluded(case, const):
    """Abstract 'present' values are declared not to be marker spellings."""
    return case.chars == "nonmarker" and const in (".", "?", "")


# ------------------------------------------------------------------------------- queries
def offsets(s: AStr):
    """[(seg, start_lo, start_hi, end_lo, end_hi)]"""
    out = []
    lo = hi = 0
    for seg in s.segs:
        out.append((seg, lo, hi, lo + seg.wlo, hi + seg.whi))
        lo += seg.wlo
        hi += seg.whi
    return out


def describe(s: AStr):
    parts = []
    for seg, a, b, c, d in offsets(s):
        pos = f"{a}:{c}" if a == b and c == d else f"{a}..{b}:{c}..{d}"
        if seg.kind == "lit":
            parts.append(f"{pos} {seg.text!r}")
        else:
            parts.append(f"{pos} {seg.src}(len {seg.clo}..{seg.chi}{' ' + seg.align if seg.align else ''}"
                         f"{' TRUNCATES' if seg.trunc else ''})")
    return " | ".join(parts)
