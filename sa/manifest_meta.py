"""Per-property manifest metadata (consumed by tools/mkmanifest.py)."""
TRUST = ("trusted: CPython ast; the checker's own engines; for table rules the independent table model (validated "
         "against the real loaders at development time). Known findings are listed in KNOWN_FINDINGS.txt. ")

META = {
    "C05": {
        "engine": "sa: frame type system, pairing analysis, table model, constant folding, (via C04) torsion move-set table",
        "technique": "two-point frame lattice {Structure, Template} typing of every placement call with lockstep/key/count "
                     "checks; exhaustive geometric sanity scan of all templates and patched templates; constant folding of "
                     "rotation scans; hydrogen rows of the torsion move-set table",
        "text": "every quat.find_coordinates call superposes Template points onto Structure points and places a Template "
                "point, its two lists are filled in lockstep from one key and its literal n equals the number of pairs (two "
                "reviewed exceptions with reasons); in all reachable templates and patched templates bonds are symmetric, "
                "each hydrogen has exactly one parent at 0.90-1.15 A, tetrahedral H-X-H angles lie in 107-112 degrees and the "
                "three nearest anchors of every 3-point hydrogen are non-collinear; every constant-angle rotate_tetrahedral "
                "scan sums to a whole number of turns (data-dependent single rotations only where the rotated atom's one "
                "other neighbour is the hydrogen just created); hydrogens are rotated by a torsion change iff they lie "
                "beyond the rotated bond. Numerical fit quality, clash-driven choices and atom coincidence are not decided.",
        "note": TRUST,
    },
    "C15": {
        "engine": "sa: E6 algebraic normal forms (sympy expand/Groebner), structural extraction",
        "technique": "translation of straight-line rotation arithmetic to polynomials and identity checking by expansion / "
                     "reduction modulo c^2+s^2=1, |l|=1; symbolic evaluation of dihedral's vector algebra on a canonical "
                     "frame; capture-based extraction of call-site frames and of the translate/rotate/translate chain",
        "text": "proves for all inputs: q2mat(q) satisfies U*U^T=|q|^4 I and det=|q|^6 (proper rotation, never a mirror); the "
                "matrix of qchichange composed with rotmol's index convention equals the right-handed Rodrigues form, is "
                "orthogonal with det 1 and fixes the axis; q^T C q equals the overlap of rotmol(x, q2mat(q)) with y (Horn's "
                "identity) for the cmat entries as written, jacobi sorts ascending and the last column is taken; call sites "
                "rotate about atom3-atom2 relative to atom2 with angle requested-current, and dihedral() measures +phi about "
                "the same axis; the fit is translate(-template centre), rotate, translate(+structure centre) in the order "
                "find_coordinates forwards. Jacobi convergence/accuracy and hence the numeric tolerances are NOT decided.",
        "note": TRUST + "sympy is used as a polynomial normaliser only (no solver).",
    },
    "C16": {
        "engine": "sa: pairing/symmetry analysis, guard engine (orderings), constant scan, opaque-use analysis, reachability formulas",
        "technique": "structural conservation argument for PEOE: symmetric adjacency + read-then-write phases + "
                     "antisymmetry of the transfer term under the atom swap (decided over the orderings of the two "
                     "electronegativities) + injection/scale pairing; positive-constant scan and lookup-order extraction "
                     "for radii; opaque-use classification of name reads; guard formula of the transfer block",
        "text": "shows that equilibration can only redistribute charge: every bond enters both atoms' adjacency in one "
                "block; within a cycle all charges are read before any is written; the per-bond transfer is antisymmetric "
                "(chi difference negates, the same physical atom's normaliser is selected for both orderings, damping is "
                "atom independent); the scaled formal charge injected over range(num_cycles) in shares of 1/num_cycles is "
                "multiplied back by the same factor. Every RADII value is positive, lookup is type-then-element within "
                "primary-then-secondary and raises on a miss. Atom names are used only as keys/equality/messages in the "
                "charge slice. Transfer excludes polymer atoms and waters, copies the unmodified MOL2 values; transfer to "
                "OTHER hetero groups by name is a listed known finding. Numeric values and float summation order are not "
                "decided.",
        "note": TRUST,
    },
    "C03": {
        "engine": "sa: dataflow/guard engine, family-wise pairing, deletion-site classification, table model",
        "technique": "exact hit/miss partition by enumeration of all truth assignments; def-use of the printed and returned "
                     "lists; creation/cleanup pairing per temporary-atom family and class; who-may-delete table; closed "
                     "continue-guard sets; exhaustive name->class maps; template uniqueness",
        "text": "decides the structural conditions for 'no atom silently lost, duplicated or invented': each atom enters "
                "exactly one of the hit/miss lists, only the hit list (extended by ligand atoms, which are taken off the miss "
                "list) is printed and the miss list is returned; every optimisation class that creates FLIP copies, lone "
                "pairs or doubled hydrogens cleans exactly that family in complete() (or in every method that declares the "
                "residue fixed); every optimisation object is finalised or completed; cleanup runs on every non-assign-only "
                "path; each deletion site outside the bookkeeping is reported or bounded by the patch tables; add_hydrogens "
                "skips a topology hydrogen only for three closed reasons and warns when it cannot place one; every residue "
                "name/opttype has a class; no template or patch repeats an atom name. Packing-dependent survival of "
                "temporaries and repair success are not decided.",
        "note": TRUST,
    },
    "C14": {
        "engine": "sa: constant folding, finite case analysis, block-local typestate",
        "technique": "constant folding of the neighbourhood enumeration per instantiated cell size; complete case "
                     "analysis of the key expression over (sign, truncation) classes; typestate pairing of "
                     "remove_cell/add_cell with coordinate stores and deletions on every path of the optimisation code",
        "text": "R1: for every cell size the code instantiates the offsets fold to {-s,0,s} on three own axes and only "
                "the query atom is skipped. R3: the key expression uses a coordinate only through int() and a sign test, "
                "so it is constant on unit classes of the real line; over those classes it is monotone, every cell is at "
                "least one cell-size wide and adjacent keys differ by exactly s, hence two points closer than s lie in the "
                "same or adjacent cells for ALL real coordinates (negative, zero, on boundaries, far away). R2: in all "
                "optimisation/debump code every deletion is preceded by remove_cell of the same atom (or the atom was "
                "never bucketed on that path) and every coordinate store on a bucketed atom is bracketed by "
                "remove_cell/add_cell of that atom on every path - the history clause of the property.",
        "note": TRUST + "rotate_tetrahedral scans are judged at call sites (closed scans, C05.R4).",
    },
    "C04": {
        "engine": "sa: table model x guard engine, call graph, effect classification",
        "technique": "exhaustive torsion move-set table (selection procedure read from the code, evaluated on every patched "
                     "topology) vs the graph-theoretic far side of the rotated bond; who-may-write-coordinates table with "
                     "per-writer def-use verification; guard analysis of mover call sites",
        "text": "for all 210 (residue, chain position, dihedral) instances the atoms the code would rotate - rank function "
                "from set_reference_distance, selection from get_moveable_names (flat filter or bond walk), pivot from "
                "set_dihedral_angle - equal the far side of the rotated bond, no central bond lies in a ring and the pivot "
                "stays; every function storing x/y/z is a constructor, a placement of an atom created in the same call tree, "
                "or one of the two rigid movers whose stored values are qchichange outputs plus origin; every call in "
                "non_trivial that can reach the heavy-atom mover is gated by not-assign-only and debump/opt; --clean never "
                "enters the pipeline; the water-only initialiser cannot reach the mover. Which residues rotate for a given "
                "packing is not decided; rigidity of the rotation itself is C15.",
        "note": TRUST,
    },
    "C12": {
        "engine": "sa: call graph, raise-set analysis, effect analysis of file opens, table model",
        "technique": "inter-procedural raise-set analysis of every handler in reachable code; who-may-open-for-writing "
                     "and position-dominance of the single writer of the output path; must-pass checks; exhaustive "
                     "default-state cell table as necessary condition for the success side",
        "text": "failure side: the only writer of the output PQR path is print_pqr, called once, unconditionally, after "
                "every arm has produced its result and with nothing but write/log inside the open block; every handler "
                "in code reachable from main_driver is classified by the explicit raises that can arrive at it, and one "
                "that catches a pipeline error must re-raise on every path (3 reviewed exceptions with reasons); argument "
                "and file checks precede all work; the eight failure signals exist, are reachable and arrive at the top; an "
                "atom-less structure fails before any output. Success side: ONLY the necessary condition that every "
                "default-state (and option-selected) cell is full and integral wherever the force field defines the "
                "residue class; geometry-dependent success is not decided.",
        "note": TRUST + "Success on all well-formed structures is explicitly not claimed.",
    },
    "C09": {
        "engine": "sa: call graph, information-flow classification, effect summaries, table model",
        "technique": "non-interference by use classification: every read (and local alias) of a formatting option is "
                     "shown to reach only validation, output-stage calls or string building through resolved parameter "
                     "bindings; effect bound of the output-stage call closure; table check of the neutral-termini shifts",
        "text": "each of the reads of whitespace/keep_chain/include_header/pdb_output/apbs_input/ffout is classified; a "
                "read bound to a callee parameter is followed through resolved calls until it only selects strings; the "
                "call closures of the printers, header builders, dump_apbs and apply_name_scheme contain no store to a "
                "model attribute and no model-mutating call (apply_name_scheme stores names only); naming happens after "
                "the charge check; --drop-water filters before the model exists; neutraln/neutralc are read only by "
                "check_options/main_driver and inside assign_termini only select the chain-end patch; PARSE N*->NEUTRAL-N* "
                "and C*->NEUTRAL-C* differ by exactly -1/+1 for all 20 residues.",
        "note": TRUST + "Assumes propka does not read pdb2pqr's formatting attributes.",
    },
    "C11": {
        "engine": "sa: call graph with receiver resolution + whole-program lints, positive controls",
        "technique": "reachability-scoped lints on the resolved program (set-typed value inference + order-sensitivity "
                     "classification, ambient-input calls, shared-object mutation outside import time, mutable-default "
                     "escape analysis, memoisation/global rebinding, dynamic-feature escapes)",
        "text": "over all functions reachable from the entry points: no order-sensitive consumption of a hash-ordered "
                "container (each set iteration is classified commutative or listed with a reviewed reason), no "
                "randomness/clock/identity/environment input, no module- or class-level mutable object mutated at run "
                "time, no mutated or leaking mutable default, definitions/force field/handlers constructed inside the "
                "call tree of each run and never memoised, no eval/exec/globals. Zero-expected lints are backed by a "
                "positive-control module that must be flagged on every run. Third-party determinism is assumed.",
        "note": TRUST + "Unreachable legacy functions are listed in the evidence and come back into scope if called.",
    },
    "C13": {
        "engine": "sa: pairing/alias analysis, guard sets, guard engine, table model",
        "technique": "symmetry check of the partner-update block under the a<->b swap with alias resolution; "
                     "guard extraction of the patch loop; constant folding of the limit; consumer decision tables",
        "text": "decides the structural conditions that make detection symmetric and order independent: both appends "
                "of the bonded branch sit in one block and the swap atom<->partner maps them onto themselves; one "
                "uniform loop over all bonded atoms sets flag, partner pointer and the CYX patch on the atom's own "
                "residue under the single guard 'exactly one partner'; the limit folds to 2.5 A with a strict/non-strict "
                "less-than on the SG-SG distance; the scan reads no chain, number or index; HG is suppressed iff bonded; "
                "CYS.set_state names CYX in every bonded configuration; CYX/CYM remove exactly HG.",
        "note": TRUST,
    },
    "C17": {
        "engine": "sa: abstract domains (congruence x interval, extent tag), reachability formulas, layout engine, def-use",
        "technique": "abstract interpretation of the grid arithmetic in a congruence x interval domain and a "
                     "'>= extent' tag domain; path-formula evaluation of the record guard over all truth assignments",
        "text": "proves for all inputs that every stored grid count is = 1 (mod 32) and >= 33 and is computed on every "
                "path to the APBS input; that mol/coarse/fine lengths are >= the molecule extent with the default "
                "parameters and fine <= coarse; that the centre is the box midpoint and both grids are centred on the "
                "molecule; that extrema accumulate centre -/+ radius from the tokens the PQR writer's layout puts there "
                "(both layouts); that no line other than ATOM/HETATM can reach the accumulation (formula over all "
                "assignments of the enclosing tests); memory product over all three dimensions; PQR-name def-use chain.",
        "note": TRUST + "Side conditions: default sizing parameters (cfac >= 1, fadd >= 0).",
    },
    "C18": {
        "engine": "sa: constant folding, slice-bound reasoning, key agreement",
        "technique": "extraction of the chunk loop's step/slice bounds/arm conditions and exhaustive arithmetic check "
                     "of the index partition over one period; producer/consumer dictionary-key agreement; token-index "
                     "extraction",
        "text": "the value loop's arms are read from the source and the induced index sets are shown to cover [0,n) "
                "exactly once and in order for every n over five periods of the step (the bounds are periodic), which "
                "settles 'exactly nx*ny*nz values in the same order for counts not divisible by three or six'; reader and "
                "writer agree on the four keys; counts/origin/delta come from the documented tokens; signed-count "
                "convention, origin line, one unconditional line per atom; value precision.",
        "note": TRUST,
    },
    "C10": {
        "engine": "sa: E3b string-layout abstract interpretation + sibling cross-check",
        "technique": "layout abstract interpretation of the CIF record assembler on all paths vs column slices "
                     "extracted from the PDB record classes; sibling-copy comparison; marker-case enumeration; flag-use "
                     "classification",
        "text": "the PDB-format record that cif.atom_site synthesises is analysed as a layout for every copy and every "
                "path (marker spellings x name lengths): each field must lie inside the slice pdb.ATOM/HETATM read for "
                "it, all copies must agree, no value may be discarded, every marker spelling must yield a blank column, "
                "and each column must be fed from the wwPDB-corresponding item; is_cif may only steer header/TER/trailer "
                "output. Decides that the two readers hand identical records to one pipeline; does not re-decide the "
                "pipeline.",
        "note": TRUST + "Item domains: values expressible in both formats. The item correspondence table (14 rows) is "
                "frozen in the checker.",
    },
    "C07": {
        "engine": "sa: dataflow, guard sets, guard engine, column extraction",
        "technique": "def-use + path-predicate analysis of the reader and the residue-grouping loop; column table "
                     "extraction cross-checked between sibling record classes and the wwPDB format",
        "text": "decides the structural necessary conditions of 'every coordinate record is ingested': the read loop "
                "exits only on the raw readline() EOF value; ATOM/HETATM can never enter the suppression list and every "
                "handler re-raises or recovers them; all dispatched record classes are registered; ATOM and HETATM read "
                "identical wwPDB columns with mandatory fields parsed strictly; read_atom rebuilds into those columns; "
                "residue key = (chain,resSeq,iCode); first-wins in all five constructors; every flush is guarded (incl. "
                "the previous-atom invariant); first model only; water drop gated by the flag and column-based. Files "
                "too short to hold coordinates are not decided.",
        "note": TRUST + "The wwPDB ATOM/HETATM column table (15 rows) is frozen in the checker.",
    },
    "C08": {
        "engine": "sa: E3b string-layout abstract interpretation",
        "technique": "abstract interpretation of the line formatter over declared field domains (width intervals, "
                     "alignment, truncation), all paths; slice-chain analysis of the re-spacing; token-order extraction "
                     "of the reader",
        "text": "for every field of the PQR line the maximal formatted width over the property's declared domain is "
                "compared with the width each slice keeps (silent truncation), the fixed total width is proved on all "
                "paths, the four --whitespace insertions are located on field boundaries, every adjacent pair of "
                "non-empty fields is checked for a guaranteed blank, and the reader's token order (with its two optional "
                "tokens) is compared with the writer's field order; precision of the format specs. Values are never "
                "formatted by repository code; number widths come from Python's format() on domain extremes.",
        "note": TRUST + "Declared domains are those of the property's quantifier.",
    },
    "C01": {
        "engine": "sa: dataflow + guard engine + table model",
        "technique": "def-use/guard analysis of the assignment path + exhaustive state-name decision tables vs PATCHES.xml",
        "text": "decides the structural necessary conditions of 'exactly the force field's parameters': exact hit/miss "
                "partition with stores of the unmodified get_params results only (all truth assignments of the per-atom "
                "body enumerated), whole-program who-may-write ffcharge/radius, unmodified lookup keys, DAT column "
                "binding, full-match aliasing with copy-all, and for every (residue, position, state) cell that the "
                "lookup name computed from the code's set_state methods is the name PATCHES.xml gives the applied "
                "patches. The SAX state machine beyond these facts and user-supplied files are not decided.",
        "note": TRUST,
    },
    "C02": {
        "engine": "sa: table model x cell construction, guard engine",
        "technique": "exhaustive charge table over (residue x position x state x force field) cells + decision "
                     "analysis of assign_termini + must-pass check of the integrality guard",
        "text": "for every fully parameterised cell (amino acids at mid/N/C/neutral-N/neutral-C in all protonation "
                "states, nucleotides mid/5'/3' and every 5'+3' pair, water) in the six force fields the charge sum is "
                "compared with the formal charge derived by valence counting on the patched topology; assign_termini "
                "is evaluated over chain shapes x options x cyclic/open for 'exactly one terminal patch per end'; "
                "terminal patches are idempotent; the total-charge guard is a must-pass with a bounded tolerance; flag "
                "combinations produced are consumed into full cells. Run-time assignment itself is C01.",
        "note": TRUST + "Chemistry: side-chain formal charge from the atom set (7 rows), valence counting for termini.",
    },
    "C06": {
        "engine": "sa: E5 guard tables x E4 table model",
        "technique": "decision-table extraction (conditional constant propagation over a finite domain) vs "
                     "table-derived support matrix",
        "text": "every (group, position, force field, side-of-pKa) cell of the titration decision table, read from "
                "the guards of apply_pka_values on every run, is compared with what the DAT/names/XML tables can "
                "parameterise through the code's own naming procedures; exhaustive over the 9x3x6x3 domain. Decides "
                "'no residue dropped by titration', 'titrated exactly below/above the pKa where supported', 'skip "
                "implies warning' and producer/consumer key agreement; PROPKA's numbers and user force fields are "
                "not decided.",
        "note": TRUST + "A 9-row chemistry table (protonated vs deprotonated form) is frozen in the checker.",
    },
}

NOT_APPLICABLE = {}

# Rules added while testing against seeded changes (appended to the texts above).
MODEL = ("constant propagation through the method bodies on object models (the checker's own evaluator; nothing of the repository is "
         "imported or run; one model instance per class of construct, see DESIGN 7.8)")
EXTRA = {
    "C01": "Also: the lookup has no fallback key; DAT parser located by content, user-supplied files go through the same parser and names "
           "parse site; the names handler (startElement/characters/endElement/update_map/find_matching_names) is decided by " + MODEL + ": "
           "residue alias copies every atom as the same object, patterns match whole names only, $group substitution, atom aliases only for "
           "existing atoms, no state leaking between blocks. Protonation variants named by the input file (CYM, HIE, ...) are cells of the "
           "state-name table. With --ligand only atoms that received parameters are printed (ligand block on a model complex); the bundled tables are looked up in the package's data directory whatever files the working directory holds (lookup evaluated on a model file system).",
    "C02": "Also: the integrality guard comes after every parameter assignment and keeps a bounded tolerance; patches other than PEPTIDE act "
           "on a private copy; no list is modified while iterated in the terminus code; one TER record means two chains; input-named "
           "variants get their own charge obligations; helper methods factored out of assign_termini are interpreted in place. set_termini is decided on model chains holding several terminated molecules under one chain identifier (every residue in exactly one chain, one terminus pair per molecule); chain shapes include an amide cap followed by hetero groups and an unknown residue inside a cyclic peptide. An mmCIF chain identifier longer than its PDB column is never cut to fit (layout analysis of the record assembly with over-long items): cutting would merge chains and their termini.",
    "C03": "Also shares the ingestion rules of C07 (identity, first alternate location, every record appended, reader stops only at end of "
           "file, pending residue flushed, only further models left out), patch isolation, the ligand block on a model complex (every "
           "ligand atom printed once, lists partition) and 'hydrogens are stripped only from residue classes that get them rebuilt'; "
           "loop exits of add_hydrogens are decided on canonical guard sets (closed reasons or warned); the conditions under which "
           "optimize_hydrogens finalises an object and opens a network are compared as truth tables, whatever the nesting of the tests; "
           "Biomolecule.__init__ is decided by " + MODEL + " on six record lists. Chains holding several molecules are split without losing a residue (model chains); the warnings that report a deletion or a placement failure reach the user (io.DuplicateFilter evaluated on model records, 25 repetitions).",
    "C04": "The selection procedure is evaluated on the topology model whatever its code shape and must be history free (a memo is reset "
           "by every membership mutator); Flip caches exactly the atoms its rotation moves at every chain position; no statement turns "
           "args.debump/args.opt on. debump_residue is evaluated on a model residue with three torsions in a neighbourhood that is never cured: every rotation moves the far side of the torsion being set; a stored coordinate that is rounded is not the rotated point (symbolic round stays uninterpreted). utilities.shortest_path, which supplies the distance-to-CA rank, is evaluated on the ring side chains (PHE, TRP, HIS, PRO) for twelve listing orders each and must give the breadth-first distance.",
    "C05": "Also: the C(i-1)/N(i+1) frame pointers survive update_bonds only across a bond within the limit on every path (free tests "
           "explored both ways), the limit separates bonded from 1-3 template distances; completing an XH3 group reads the position of "
           "every hydrogen already present. Water.finalize is decided by " + MODEL + " on eight model waters (every combination of H1/LP1/LP2 "
           "present) under twelve scripted neighbourhoods, with positions as abstract points: both hydrogens are built and no two atoms "
           "of the water share a point on any path. Carboxylic.rename is evaluated on 24 model residues (ASH/GLH): the surviving acid hydrogen ends with the name whose template parent is the oxygen it sits on.",
    "C06": "Also: pKa and pH reach the comparison unmodified; rows of different titratable groups never share a key of the pKa table; "
           "patch isolation. The 'unsupported' warning must pass the duplicate-message filter on every repetition (filter evaluated on model records); nobody writes the pH option after parsing.",
    "C07": "Also: every ATOM/HETATM record read is appended to a residue; the record type is decided by the record-name columns; the "
           "name tested for 'already present' is the name the atom is filed under. The record classes, read_atom, drop_water and "
           "Biomolecule.__init__ are decided by " + MODEL + " on model lines and record lists. set_termini on model chains with hidden molecules keeps every residue in exactly one chain. Sibling cross-check of the nucleotide table: an alternative atom name denotes the same atom in every nucleotide and is never another atom's plain name.",
    "C08": "Also: every print site forwards --keep-chain; pdb2pqr's own reader (read_pqr/from_pqr_line) is decided by " + MODEL + " on one "
           "line per layout the writer emits (lines formatted by the writer's own code); the precision of each numeric field is read from "
           "the path layouts, however the line is assembled (concatenation, join, helper). R7: the writer is evaluated on eleven model atoms whose fields fit the format and the line is read back by an independent reader (fixed wwPDB columns; blank-separated tokens for --whitespace) to the stated precision; the whole file print_pqr writes (both input formats, both spacings, atoms of a residue called TER) is read back by read_pqr.",
    "C09": "Also: waters are removed iff --drop-water; numeric fields occupy one fixed column span on all formatter paths; a formatting "
           "flag may only select strings (a flag-controlled local must be a string being built); --neutraln/--neutralc are decided by "
           "evaluating assign_termini on every chain shape with the flag off and on; check_options is decided by " + MODEL + " on 45 "
           "namespaces (option x force-field spelling x pH).",
    "C10": "Also: every atom_site row is visited; `a or b` is forked like a conditional expression by the layout engine; models are handed "
           "on in order of first appearance (count_models on model rows); get_molecule is decided by " + MODEL + " on 13 paths (suffix "
           "in any letter case, suffix-like directory and stem) with and without reader errors. count_models is evaluated on a model of the parser's category for three files read in one process with different item orders. atom_site is evaluated on a model of the parser's category (a cap in front of the chain, a modified residue inside it, one and two models): coordinate records come out in row order; an item longer than its column is never cut.",
    "C11": "Also: mutations through a local alias of a shared object; a list extended by a set; positive controls for both. Objects created by a call at import time live as long as the process: an ambient source there, or a method called on such an object at run time, is reported (loggers and pure constructors allow-listed by name); the lookup of bundled tables ignores the working directory (model file system).",
    "C12": "Also: the integrality guard is a must-pass after every parameter assignment; patch isolation; calls inside the output block "
           "are judged by their resolved raise sets; the 'remember the failure, raise later' handler idiom is recognised structurally. "
           "Which inputs are too incomplete to repair is not decided (seed C12-c).",
    "C13": "Also: update_ss_bridges is decided by " + MODEL + " on a structure with a bridge across chains, a partner the input labels "
           "CYX, free/SG-less/thiolate cysteines, a pair just beyond the limit and bridged pairs straddling a whole grid cell of every "
           "spacing below the limit along each axis, in two residue orders; bridged cells are full and "
           "neutral at every chain position in every force field that defines them; neighbour-query variants need cell size >= limit. After bridging, CYS.set_state is evaluated on the model cysteines: a bridged partner is looked up as CYX whatever the input label.",
    "C14": "Also: add_cell/remove_cell/get_near_cells are decided by " + MODEL + " on 72 atoms around cell boundaries, zero and far out, "
           "for every size in use, before and after 25 bracketed moves; every fixed cutoff applied to query results is at most the cell "
           "size; movers defined on the cell map itself are in the typestate scope. The model atoms are filed through assign_cells with residues of every kind (amino acid, water, nucleotide, ligand, unknown hetero group) and also moved inside their cell twice in a row, including atoms alone in their cell.",
    "C15": "R3/R4 are decided by symbolic evaluation: qtrfit on two symbolic point pairs (Horn identity on the matrix actually handed to "
           "the diagonaliser; the eigenvector reaches q2mat unmodified on every path), set_dihedral_angle and rotate_tetrahedral on atoms "
           "with symbolic coordinates (axis, origin, angle, near side fixed, cached torsion re-measured after the move). dihedral()'s "
           "snap window folds to less than 0.05 degree. The Jacobi sweep cap is not decided. R7: effect analysis of quatfit.py - the functions the pipeline calls modify none of the point lists they are given (directly, through a view, or through a callee). R8 lists the part of the torsion table R4 presupposes (no rotated bond in a ring, whole far side rotated). The four atoms of every tabulated torsion (residues and patched forms) are bonded in a row.",
    "C16": "Also: per-cycle updates from start-of-cycle charges only; first of equivalent atoms; the ligand block on a model complex (a "
           "ligand atom also known to the force field, a water with ligand-like hydrogen names, an ion after the ligand): each ligand "
           "atom printed once with the MOL2 values, nothing else touched; hydrogens are stripped only where they are rebuilt. Formal "
           "charges and their sum are decided by " + MODEL + " on ethanol, acetate and methyl phosphate in three bond listings; "
           "assign_radius on five table probes (type hit, element fallback, secondary table, miss raises). R10: the residue constructors are evaluated on model records: atoms of amino acids and nucleotides are typed ATOM whatever the input record type (the ligand block relies on it), an atom name listed twice is held once. Model molecules cover the type table (pyridine, ring-fusion aromatic nitrogen, sulfone, nitrile, ammonium, amide, thioether, halides) with the total formal charge chemistry gives them.",
    "C17": "Running extrema decided semantically; Psize (parse_lines .. __str__) is decided by " + MODEL + " on a one-atom file, spread atoms "
           "and a system above the memory ceiling: extrema, charge, counts, enclosure, multigrid-legal counts, the memory figure of the "
           "report and the per-processor grid. R8: io.dump_apbs and inputgen.Input/Elec are evaluated on a file-system model holding the PQR file print_pqr wrote (read(n) hands out short blocks): for every solution method the text names that file and states the grid, lengths and processor grid the sizing object computed.",
    "C18": "Chunk index emission is interpreted for any loop shape; reader state fresh per call; read_pqr + read_dx + write_cube are decided "
           "by " + MODEL + ": header, atom block (ATOM and HETATM), value count/order/precision over magnitude classes, second read equals "
           "first. The model grid is sheared and rotated (non-symmetric delta matrix); a second conversion has counts wider than the usual columns (1234/100000 points, 12345 atoms).",
}
for _k, _v in EXTRA.items():
    META[_k]["text"] += " " + _v
    if "constant propagation through the method bodies" in _v or "symbolic evaluation" in _v:
        META[_k]["technique"] += "; model evaluation by the checker's own interpreter (constant/symbol propagation through method bodies on object models)"
ROUND5 = {
    "C01": "Forcefield.__init__ is evaluated on a model file system for every combination of built-in / user parameter file and built-in / user names file (which files are opened, which text reaches the names parser); the names model has blocks that match no residue of the force field.",
    "C02": "set_termini is also evaluated on nucleic-acid strands (alone, two under one chain identifier, next to a peptide), water-only chains and chains numbered with jumps and repeats; ownership rule: the terminus flags are written only by constructors and assign_termini among the functions reachable from the entry points.",
    "C03": "Shares the new chain models of C02.R9 and the ingestion model with chains Z, z, 9 and blank.",
    "C04": "Non-interference: no function that removes or moves an input atom (or anything it calls) reads the occupancy or temperature-factor column other than to copy or print it.",
    "C05": "Non-interference: no function that builds an atom reads occupancy or temperature factor; the template queries (definitions.py) change no module-level container at run time (no table of earlier answers shared between a residue and its patched copies).",
    "C06": "Every model residue (numbers of one to four digits, negative, with and without chain) must find the row PROPKA made for it under the key the consumer builds; the residue loop of apply_pka_values carries no state from one residue to the next (def-use rule over the loop body, the consumed pKa table excepted).",
    "C07": "First-wins is decided by evaluating the five residue constructors on model records (better-occupied second locations, an atom listed again under an alternative name); the ingestion model includes chains Z, z, 9 next to records without chain identifier; the water filter model includes residues whose names are pieces of the water names (A, O, OH, W, HO).",
    "C08": "The model atoms are written one after the other by one process (class-level state of the formatter persists as it would in a run) and include neighbours that differ in insertion code, chain, number or residue name only.",
    "C09": "print_pqr is evaluated on model lines with and without --whitespace (five- and six-digit serials, HETATM, residue TER, atom END; PDB and mmCIF input): same records, same order, same non-blank characters.",
    "C10": "atom_site is also evaluated on rows whose values carry more digits than the PDB columns hold (B factor of 100 and more or negative with three decimals, occupancy with four): every row still yields its coordinate record.",
    "C11": "A store on a class object at run time (Class.attr, cls.attr, type(self).attr) is process-lifetime state whatever the attribute's initial value.",
    "C12": "main.is_repairable with the counts it reads is evaluated on model structures (hetero groups, ion and waters only: must raise; the same with a ligand file; a complete peptide; a peptide missing one atom); the input readers change no module-level container at run time (every run reads and validates its own files).",
    "C13": "Non-interference: the bridge search and everything it calls never reads occupancy or temperature factor.",
    "C14": "A function that fills the cell map from the atom list does so on every path (structured must-pass analysis): a conditional refresh leaves a map built for an earlier atom list.",
    "C15": "rotate_tetrahedral is evaluated on four model centres (terminal and substituted neighbours, ring): exactly the atoms bonded to the far atom of the axis move, each to the image of its own position; calculate_dihedral_angles is evaluated twice with the atoms moved in between: the stored torsions are those of the current positions.",
    "C16": "PEOE conservation is also evaluated on molecules with atoms nothing is bonded to (a salt's counter-ion, free ions only).",
    "C17": "Psize.set_smallest is evaluated on 200+ multigrid-legal global grids under three memory ceilings: the per-processor grid is again 32k+1 >= 33 in every direction, within the global grid and below the ceiling.",
}
for _k, _v in ROUND5.items():
    META[_k]["text"] += " Round 5: " + _v
TRUST_ALPHA = ("Before analysis every module is desugared, its locals are renamed towards the reference naming and functions that are new, "
               "used at up to eight sites and never taken as a value are inlined at their call - also across modules when their body names nothing of the home module - and new generator-based context managers are unfolded at their with statements (equivalent program, sa/alpha.py); renamings and inlinings "
               "applied are listed in the evidence. ")
for _k in META:
    META[_k]["note"] = META[_k].get("note", "") + TRUST_ALPHA
