"""Per-property manifest metadata (consumed by tools/mkmanifest.py)."""
TRUST = ("trusted: CPython ast; the checker's own engines; for table rules the independent table model (validated "
         "against the real loaders at development time). Known findings are listed in KNOWN_FINDINGS.txt. ")

META = {
    "C06": {
        "engine": "sa: E5 guard tables x E4 table model",
        "technique": "decision-table extraction (conditional constant propagation over a finite domain) vs "
                     "table-derived support matrix",
        "text": "every (group, position, force field, side-of-pKa) cell of the titration decision table, read from "
                "the guards of apply_pka_values on every run, is compared with what the DAT/names/XML tables can "
                "parameterise through the code's own naming procedures; exhaustive over the 9x3x6x3 domain. Decides "
                "'no residue dropped by titration', 'titrated exactly below/above the pKa where supported', 'skip "
                "implies warning' and producer/consumer key agreement; PROPKA's numbers and user force fields are "
                "not decided.",
        "note": TRUST + "A 9-row chemistry table (protonated vs deprotonated form) is frozen in the checker.",
    },
}

NOT_APPLICABLE = {}
