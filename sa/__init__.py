"""sa -- repository-specific static analysis for Electrostatics/pdb2pqr.

Every verdict is computed from the *source text and data tables* of the tree under
``$VERIF_REPO`` (default ``/repo``).  Nothing in here imports or executes pdb2pqr code.
"""
