"""Raise-set analysis: which explicitly raised exception classes can escape each function."""
from __future__ import annotations

import ast

from .core import U, parent, walk_no_defs

# minimal builtin hierarchy (child -> parents)
PARENTS = {
    "KeyError": ["LookupError"], "IndexError": ["LookupError"], "LookupError": ["Exception"],
    "FileNotFoundError": ["OSError"], "PermissionError": ["OSError"], "IOError": ["OSError"], "OSError": ["Exception"],
    "ValueError": ["Exception"], "UnicodeError": ["ValueError"], "TypeError": ["Exception"], "RuntimeError": ["Exception"],
    "NotImplementedError": ["RuntimeError"], "AttributeError": ["Exception"], "NameError": ["Exception"],
    "ZeroDivisionError": ["ArithmeticError"], "ArithmeticError": ["Exception"], "AssertionError": ["Exception"],
    "StopIteration": ["Exception"], "Exception": ["BaseException"], "SystemExit": ["BaseException"],
    "KeyboardInterrupt": ["BaseException"], "DeprecationWarning": ["Exception"],
}


def ancestors(cls):
    out = {cls}
    todo = [cls]
    while todo:
        c = todo.pop()
        for p in PARENTS.get(c, ["Exception"] if c not in ("BaseException",) else []):
            if p not in out:
                out.add(p)
                todo.append(p)
    return out


def handler_classes(h: ast.ExceptHandler):
    if h.type is None:
        return ["BaseException"]
    if isinstance(h.type, ast.Tuple):
        return [U(e).split(".")[-1] for e in h.type.elts]
    return [U(h.type).split(".")[-1]]


def catches(h, cls):
    return bool(set(handler_classes(h)) & ancestors(cls))


def raise_class(node: ast.Raise, handler_stack):
    """Class name raised by a raise statement (re-raise -> classes of the enclosing handler)."""
    if node.exc is None:
        return list(handler_stack[-1]) if handler_stack else ["Exception"]
    e = node.exc
    if isinstance(e, ast.Call):
        return [U(e.func).split(".")[-1]]
    if isinstance(e, ast.Name):
        # `raise details` where details is the handler variable
        p = parent(node)
        while p is not None:
            if isinstance(p, ast.ExceptHandler) and p.name == e.id:
                return handler_classes(p)
            p = parent(p)
        return [e.id] if e.id[0].isupper() else ["Exception"]
    return ["Exception"]


def always_reraises(h: ast.ExceptHandler):
    """Every path through the handler body ends in a raise."""
    def term(stmts):
        for st in stmts:
            if isinstance(st, ast.Raise):
                return True
            if isinstance(st, ast.If) and st.orelse and term(st.body) and term(st.orelse):
                return True
            if isinstance(st, ast.Try):
                # a nested recovery attempt: does not itself guarantee a raise
                continue
        return False

    return term(h.body)


class RaiseSets:
    def __init__(self, prog, graph):
        self.prog = prog
        self.g = graph
        self.escaping: dict[str, set] = {k: set() for k in prog.funcs}  # {(class, origin_key)}
        self._own = {}
        for k, f in prog.funcs.items():
            self._own[k] = self._scan(f)
        changed = True
        rounds = 0
        while changed and rounds < 50:
            changed = False
            rounds += 1
            for k in prog.funcs:
                new = self._escape(k)
                if not new <= self.escaping[k]:
                    self.escaping[k] |= new
                    changed = True

    def _enclosing_tries(self, node, fn):
        """[(try node, 'body'|'handler'|'orelse'|'final')] from innermost outwards."""
        out = []
        child = node
        p = parent(node)
        while p is not None and p is not fn:
            if isinstance(p, ast.Try):
                if child in p.body:
                    out.append((p, "body"))
                elif child in p.orelse:
                    out.append((p, "orelse"))
                elif child in p.finalbody:
                    out.append((p, "final"))
            if isinstance(p, ast.ExceptHandler):
                pass
            child = p
            p = parent(p)
        return out

    def _scan(self, f):
        """own explicit raises: [(classes, node)], call sites: [(call, callee keys)]"""
        raises = []
        for n in walk_no_defs(f.node):
            if isinstance(n, ast.Raise):
                hs = []
                p = parent(n)
                while p is not None and p is not f.node:
                    if isinstance(p, ast.ExceptHandler):
                        hs.append(handler_classes(p))
                    p = parent(p)
                raises.append((raise_class(n, hs[::-1] if hs else []), n))
        return raises

    def filter_through(self, classes_origin, node, fn):
        """Remove what enclosing try-bodies around `node` catch without re-raising; conversions are added by the
        handler's own raise statements (scanned separately)."""
        out = set(classes_origin)
        for t, where in self._enclosing_tries(node, fn):
            if where != "body":
                continue
            keep = set()
            for cls, origin in out:
                caught = [h for h in t.handlers if catches(h, cls)]
                if not caught:
                    keep.add((cls, origin))
                # if caught: whatever the handler raises is accounted for by its own Raise nodes
                elif any(isinstance(s, ast.Raise) and s.exc is None for h in caught[:1] for s in ast.walk(h)):
                    keep.add((cls, origin))
            out = keep
        return out

    def _escape(self, key):
        f = self.prog.funcs[key]
        out = set()
        for classes, node in self._own[key]:
            out |= self.filter_through({(c, key) for c in classes}, node, f.node)
        for call, callees in self.g.sites[key]:
            inc = set()
            for ck in callees:
                inc |= self.escaping.get(ck, set())
            if inc:
                out |= self.filter_through(inc, call, f.node)
        return out

    def body_raises(self, key, trynode):
        """(class, origin) pairs that can arrive at the handlers of `trynode` from its body."""
        f = self.prog.funcs[key]
        out = set()
        body_nodes = set()
        for st in trynode.body:
            for n in ast.walk(st):
                body_nodes.add(id(n))
        for classes, node in self._own[key]:
            if id(node) in body_nodes:
                inner = self._filter_until(node, trynode, {(c, key) for c in classes}, f.node)
                out |= inner
        for call, callees in self.g.sites[key]:
            if id(call) in body_nodes:
                inc = set()
                for ck in callees:
                    inc |= self.escaping.get(ck, set())
                out |= self._filter_until(call, trynode, inc, f.node)
        return out

    def _filter_until(self, node, stop_try, items, fn):
        out = set(items)
        for t, where in self._enclosing_tries(node, fn):
            if t is stop_try:
                break
            if where != "body":
                continue
            keep = set()
            for cls, origin in out:
                if not any(catches(h, cls) for h in t.handlers):
                    keep.add((cls, origin))
            out = keep
        return out
