"""E1 program model: parsed modules, function/class index, guard sets, constant folding."""
from __future__ import annotations

import ast
import hashlib
import os
from pathlib import Path


class AnalysisError(Exception):
    """An anchor a rule needs has vanished or code left the analysable subset.

    Never a pass and never a violation: mapped to ``ANALYSIS-ERROR`` / exit 2.
    """


def repo_root() -> Path:
    return Path(os.environ.get("VERIF_REPO", "/repo"))


def U(node) -> str:
    """Normalised text of a node (formatting, comments and parentheses vanish)."""
    return ast.unparse(node)


class Module:
    def __init__(self, root: Path, path: Path):
        self.path = path
        self.rel = str(path.relative_to(root / "pdb2pqr"))
        self.src = path.read_text(encoding="utf-8")
        self.tree = ast.parse(self.src, filename=str(path))
        self.alpha = {}

    def finish(self):
        """Normalise (alpha.py) and annotate the tree; called by Program once every module is parsed."""
        # analysis modulo alpha-equivalence: locals are renamed towards the reference naming (see alpha.py)
        from . import alpha
        self.alpha = alpha.normalise(self.tree, self.rel) if os.environ.get("VERIF_NO_ALPHA") != "1" else {}
        for parent in ast.walk(self.tree):
            for child in ast.iter_child_nodes(parent):
                child._parent = parent  # type: ignore[attr-defined]
        self.tree._parent = None  # type: ignore[attr-defined]
        for node in ast.walk(self.tree):
            node._module = self  # type: ignore[attr-defined]


class FuncInfo:
    def __init__(self, module: Module, node, cls, qual: str):
        self.module = module
        self.node = node
        self.cls = cls  # ClassDef or None
        self.qual = qual  # "Class.method" or "func" or "outer.<locals>.inner"
        self.key = f"{module.rel}::{qual}"

    def __repr__(self):
        return f"<Func {self.key}>"


class ClassInfo:
    def __init__(self, module: Module, node):
        self.module = module
        self.node = node
        self.name = node.name
        self.key = f"{module.rel}::{node.name}"
        self.base_names = [U(b) for b in node.bases]
        self.methods: dict[str, FuncInfo] = {}


class Program:
    """All modules of the pdb2pqr package in the tree being analysed."""

    def __init__(self, root: Path | None = None):
        self.root = Path(root) if root else repo_root()
        pkg = self.root / "pdb2pqr"
        if not pkg.is_dir():
            raise AnalysisError(f"package directory {pkg} not found")
        self.modules: dict[str, Module] = {}
        self.funcs: dict[str, FuncInfo] = {}
        self.classes: dict[str, ClassInfo] = {}
        self.classes_by_name: dict[str, list[ClassInfo]] = {}
        for path in sorted(pkg.rglob("*.py")):
            try:
                mod = Module(self.root, path)
            except SyntaxError as exc:  # the tree must at least compile
                raise AnalysisError(f"cannot parse {path}: {exc}") from exc
            self.modules[mod.rel] = mod
            mod._prog = self  # type: ignore[attr-defined]
        # new single-use helpers are spliced back into their only caller (see alpha.unextract), then every module is normalised
        self.unextracted = []
        if os.environ.get("VERIF_NO_ALPHA") != "1":
            from . import alpha
            self.unextracted = alpha.unextract({rel: m.tree for rel, m in self.modules.items()})
        for mod in self.modules.values():
            mod.finish()
            self._index(mod, mod.tree, None, "")
        self._module_env: dict[str, dict] = {}

    # ------------------------------------------------------------------ indexing
    def _index(self, mod, node, cls, prefix):
        for child in ast.iter_child_nodes(node):
            if isinstance(child, (ast.FunctionDef, ast.AsyncFunctionDef)):
                qual = prefix + child.name
                info = FuncInfo(mod, child, cls, qual)
                self.funcs[info.key] = info
                child._info = info  # type: ignore[attr-defined]
                if cls is not None and prefix == cls.name + ".":
                    self.classes[f"{mod.rel}::{cls.name}"].methods[child.name] = info
                self._index(mod, child, cls, qual + ".<locals>.")
            elif isinstance(child, ast.ClassDef):
                cinfo = ClassInfo(mod, child)
                self.classes[cinfo.key] = cinfo
                self.classes_by_name.setdefault(child.name, []).append(cinfo)
                self._index(mod, child, child, prefix + child.name + ".")
            elif isinstance(child, (ast.If, ast.Try, ast.With, ast.For, ast.While)):
                self._index(mod, child, cls, prefix)

    # ------------------------------------------------------------------ lookup
    def module(self, rel: str) -> Module:
        if rel not in self.modules:
            raise AnalysisError(f"anchor module pdb2pqr/{rel} not found")
        return self.modules[rel]

    def func(self, rel: str, qual: str) -> FuncInfo:
        key = f"{rel}::{qual}"
        if key not in self.funcs:
            raise AnalysisError(f"anchor function {key} not found")
        return self.funcs[key]

    def has_func(self, rel: str, qual: str) -> bool:
        return f"{rel}::{qual}" in self.funcs

    def cls(self, rel: str, name: str) -> ClassInfo:
        key = f"{rel}::{name}"
        if key not in self.classes:
            raise AnalysisError(f"anchor class {key} not found")
        return self.classes[key]

    def subclasses(self, cinfo: ClassInfo, transitive=True) -> list[ClassInfo]:
        out = []
        for other in self.classes.values():
            if other is cinfo:
                continue
            if self.is_subclass(other, cinfo) and (
                transitive or cinfo.name in [b.split(".")[-1] for b in other.base_names]
            ):
                out.append(other)
        return out

    def resolve_base(self, cinfo: ClassInfo, base: str):
        name = base.split(".")[-1]
        cands = self.classes_by_name.get(name, [])
        same = [c for c in cands if c.module is cinfo.module]
        if same:
            return same[0]
        return cands[0] if cands else None

    def mro(self, cinfo: ClassInfo) -> list[ClassInfo]:
        out, todo, seen = [], [cinfo], set()
        while todo:
            c = todo.pop(0)
            if c.key in seen:
                continue
            seen.add(c.key)
            out.append(c)
            for b in c.base_names:
                r = self.resolve_base(c, b)
                if r is not None:
                    todo.append(r)
        return out

    def is_subclass(self, c: ClassInfo, base: ClassInfo) -> bool:
        return base in self.mro(c)

    def find_method(self, cinfo: ClassInfo, name: str):
        for c in self.mro(cinfo):
            if name in c.methods:
                return c.methods[name]
        return None

    def module_constants(self, rel: str) -> dict:
        """Names bound exactly once at module level to a foldable constant."""
        mod = self.module(rel)
        counts: dict[str, int] = {}
        vals: dict[str, object] = {}
        for st in mod.tree.body:
            targets = []
            if isinstance(st, ast.Assign):
                targets = [t for t in st.targets if isinstance(t, ast.Name)]
                value = st.value
            elif isinstance(st, ast.AnnAssign) and isinstance(st.target, ast.Name) and st.value:
                targets = [st.target]
                value = st.value
            for t in targets:
                counts[t.id] = counts.get(t.id, 0) + 1
                try:
                    vals[t.id] = fold(value, vals)
                except NotConstant:
                    vals.pop(t.id, None)
                    got = self._import_time_value(rel, value, vals)
                    if got is not NotImplemented:
                        vals[t.id] = got
            if isinstance(st, ast.For):
                # a table filled by a loop at import time (VALENCE_BY_ELEMENT[elem] = ...): the loop is evaluated on the constants so far
                self._run_module_loop(st, vals, counts)
        return {k: v for k, v in vals.items() if counts.get(k) == 1}

    def _import_time_value(self, rel, value, vals):
        """A module-level constant that is not a literal (tuple(...) of a generator, a read-only mapping view, a record instance, a path
        relative to the module file, a table of functions): evaluated by the object-model interpreter on the constants bound so far."""
        if not isinstance(value, (ast.Call, ast.BinOp, ast.Dict, ast.Tuple, ast.List, ast.ListComp, ast.DictComp, ast.SetComp, ast.GeneratorExp, ast.Attribute)):
            return NotImplemented
        if isinstance(value, ast.Call) and U(value.func).split(".")[-1] in ("getLogger", "TypeVar", "compile", "namedtuple"):
            return NotImplemented
        if getattr(self, "_import_eval_depth", 0) > 3:
            return NotImplemented
        self._import_eval_depth = getattr(self, "_import_eval_depth", 0) + 1
        try:
            from .guards import Flow, Unknown
            from .objinterp import ObjRunner
            run = ObjRunner(self, rel)
            run.module_state[rel] = dict(vals)
            try:
                got = run.eval_expr(rel, value, dict(vals))
            except (AnalysisError, Flow, TypeError, KeyError, IndexError, AttributeError, ValueError, RecursionError):
                return NotImplemented
            if _has_unknown(got, Unknown):
                return NotImplemented
            return got
        finally:
            self._import_eval_depth -= 1

    @staticmethod
    def _run_module_loop(st, vals, counts):
        from .guards import Flow, Interp

        def loop(interp, node):
            seq = interp.ev(node.iter)
            for item in list(seq):
                interp.store(node.target, item, node)
                try:
                    interp.run(node.body)
                except Flow as fl:
                    if fl.kind == "break":
                        break
                    if fl.kind != "continue":
                        raise
        touched = {n.id for n in ast.walk(st) if isinstance(n, ast.Name)} & set(vals)
        try:
            it = Interp(dict(vals), loop_hook=loop, strict=True)
            it.stmt(st)
        except (AnalysisError, Flow, TypeError, KeyError, IndexError, AttributeError):
            # not evaluable: every table the loop may write is no longer a known constant
            for n in ast.walk(st):
                if isinstance(n, (ast.Subscript, ast.Attribute)) and isinstance(n.ctx, ast.Store):
                    b = n.value
                    while isinstance(b, (ast.Subscript, ast.Attribute)):
                        b = b.value
                    if isinstance(b, ast.Name):
                        vals.pop(b.id, None)
                if isinstance(n, ast.Call) and isinstance(n.func, ast.Attribute) and n.func.attr in ("append", "update", "extend", "add", "setdefault", "insert"):
                    b = n.func.value
                    while isinstance(b, (ast.Subscript, ast.Attribute)):
                        b = b.value
                    if isinstance(b, ast.Name):
                        vals.pop(b.id, None)
            return
        for k in touched:
            if k in it.env:
                vals[k] = it.env[k]

    def module_env(self, rel: str) -> dict:
        """Constants visible in module rel: its own and those it imports from sibling modules (folded; one copy per program)."""
        if rel in self._module_env:
            return self._module_env[rel]
        import copy
        env = {}
        mod = self.modules.get(rel)
        if mod is not None:
            base = rel.rsplit("/", 1)[0] + "/" if "/" in rel else ""
            for st in mod.tree.body:
                if isinstance(st, ast.ImportFrom) and st.level >= 1:
                    src_dir = base
                    for _ in range(st.level - 1):
                        src_dir = src_dir.rstrip("/").rsplit("/", 1)[0] + "/" if "/" in src_dir.rstrip("/") else ""
                    cand = f"{src_dir}{st.module.replace('.', '/')}.py" if st.module else f"{src_dir}__init__.py"
                    if cand not in self.modules and st.module:
                        cand = f"{src_dir}{st.module.replace('.', '/')}/__init__.py"
                    if cand in self.modules and cand != rel:
                        consts = self.module_constants(cand)
                        for a in st.names:
                            if a.name in consts:
                                env[a.asname or a.name] = copy.deepcopy(consts[a.name])
            env.update(copy.deepcopy(self.module_constants(rel)))
        self._module_env[rel] = env
        return env

    def digest(self) -> str:
        h = hashlib.sha256()
        for rel in sorted(self.modules):
            h.update(rel.encode())
            h.update(self.modules[rel].src.encode())
        return h.hexdigest()[:16]


# ---------------------------------------------------------------------- AST helpers
def parent(node):
    return getattr(node, "_parent", None)


def enclosing_function(node):
    p = parent(node)
    while p is not None and not isinstance(p, (ast.FunctionDef, ast.AsyncFunctionDef)):
        p = parent(p)
    return p


def enclosing_stmt(node):
    while node is not None and not isinstance(node, ast.stmt):
        node = parent(node)
    return node


def iter_stmts(body, into_defs=False):
    """All statements under a list of statements, in source order."""
    for st in body:
        yield st
        if isinstance(st, (ast.FunctionDef, ast.AsyncFunctionDef, ast.ClassDef)) and not into_defs:
            continue
        for field in ("body", "orelse", "finalbody"):
            sub = getattr(st, field, None)
            if isinstance(sub, list) and sub and isinstance(sub[0], ast.stmt):
                yield from iter_stmts(sub, into_defs)
        if isinstance(st, ast.Try):
            for h in st.handlers:
                yield from iter_stmts(h.body, into_defs)
        if hasattr(ast, "Match") and isinstance(st, ast.Match):
            for case in st.cases:
                yield from iter_stmts(case.body, into_defs)


def walk_no_defs(node):
    """ast.walk that does not descend into nested function/class definitions."""
    todo = [node]
    first = True
    while todo:
        n = todo.pop()
        if not first and isinstance(n, (ast.FunctionDef, ast.AsyncFunctionDef, ast.ClassDef, ast.Lambda)):
            continue
        first = False
        yield n
        todo.extend(ast.iter_child_nodes(n))


def calls_in(node):
    return [n for n in walk_no_defs(node) if isinstance(n, ast.Call)]


def call_name(call: ast.Call) -> str:
    return U(call.func)


def site(node) -> str:
    mod = getattr(node, "_module", None)
    rel = mod.rel if mod else "?"
    fn = enclosing_function(node) if not isinstance(node, (ast.FunctionDef, ast.AsyncFunctionDef)) else node
    info = getattr(fn, "_info", None) if fn is not None else None
    qual = info.qual if info else "<module>"
    return f"pdb2pqr/{rel}:{getattr(node, 'lineno', 0)} ({qual})"


def terminates(body) -> bool:
    """Does this block always leave the enclosing block (continue/break/return/raise)?"""
    if not body:
        return False
    last = body[-1]
    if isinstance(last, (ast.Continue, ast.Break, ast.Return, ast.Raise)):
        return True
    if isinstance(last, ast.If) and last.orelse:
        return terminates(last.body) and terminates(last.orelse)
    return False


def guards_of(node, stop=None):
    """Path predicate of ``node`` as a list of (test expr, polarity).

    Tests of enclosing ``if/elif/else`` and ``while`` with polarity, plus the negation of
    every earlier sibling ``if`` (in any enclosing block up to the function) whose body
    always leaves the block and that has no else.  Purely syntactic.
    """
    out = []
    child = node
    p = parent(node)
    while p is not None:
        if isinstance(p, (ast.FunctionDef, ast.AsyncFunctionDef, ast.Lambda, ast.ClassDef)) and child is not node:
            break
        for field in ("body", "orelse", "finalbody"):
            block = getattr(p, field, None)
            if isinstance(block, list) and child in block:
                idx = block.index(child)
                for prev in block[:idx]:
                    if isinstance(prev, ast.If) and not prev.orelse and terminates(prev.body):
                        out.append((prev.test, False))
                    elif isinstance(prev, ast.If) and prev.orelse and terminates(prev.orelse) and not terminates(prev.body):
                        out.append((prev.test, True))
                if p is stop:
                    pass  # early exits inside the stop block count; its own test does not
                elif isinstance(p, ast.If):
                    out.append((p.test, field == "body"))
                elif isinstance(p, ast.While) and field == "body":
                    out.append((p.test, True))
        if p is stop:
            break
        if isinstance(p, ast.IfExp):
            if child is p.body:
                out.append((p.test, True))
            elif child is p.orelse:
                out.append((p.test, False))
        if isinstance(p, ast.BoolOp) and child in p.values:
            idx = p.values.index(child)
            for prev in p.values[:idx]:
                out.append((prev, isinstance(p.op, ast.And)))
        if isinstance(p, ast.ExceptHandler):
            pass
        child = p
        p = parent(p)
    out.reverse()
    return out


def expand_temps(expr, fn, depth=3):
    """expr with every local that is bound exactly once in fn (to an expression without calls) replaced by that expression:
    `t = a / b; x += t * c` reads as `x += a / b * c`.  Returns a new node."""
    import copy
    if not any(isinstance(n, ast.Name) for n in ast.walk(expr)):
        return expr
    cached = getattr(fn, "_single_binds", None)
    if cached is not None:
        return _substitute(expr, cached, depth)
    binds: dict[str, list] = {}
    for st in iter_stmts(fn.body):
        if isinstance(st, ast.Assign) and len(st.targets) == 1 and isinstance(st.targets[0], ast.Name):
            binds.setdefault(st.targets[0].id, []).append(st.value)
        elif isinstance(st, (ast.AugAssign, ast.AnnAssign)) and isinstance(st.target, ast.Name):
            binds.setdefault(st.target.id, []).extend([None, None])
        elif isinstance(st, (ast.For, ast.comprehension)):
            for t in ast.walk(st.target):
                if isinstance(t, ast.Name):
                    binds.setdefault(t.id, []).extend([None, None])
    pure = ("isinstance", "len", "bool", "abs", "min", "max", "str", "int", "float")
    pure_methods = ("has_atom", "startswith", "endswith", "get", "get_atom", "lower", "upper", "strip")

    def call_free(e):
        for n in ast.walk(e):
            if isinstance(n, ast.Call):
                if isinstance(n.func, ast.Name) and n.func.id in pure:
                    continue
                if isinstance(n.func, ast.Attribute) and n.func.attr in pure_methods:
                    continue
                return False
        return True

    single = {k: v[0] for k, v in binds.items() if len(v) == 1 and v[0] is not None and call_free(v[0])}
    fn._single_binds = single
    return _substitute(expr, single, depth)


def clone(node):
    """Copy of a syntax tree by its fields only (the parent/module back-links the program model hangs on nodes are not followed)."""
    if isinstance(node, list):
        return [clone(x) for x in node]
    if not isinstance(node, ast.AST):
        return node
    new = type(node)(**{f: clone(v) for f, v in ast.iter_fields(node)})
    return ast.copy_location(new, node) if hasattr(node, "lineno") else new


def flatten_boolops(test):
    """`(a and b) and c` / `a and (b and c)` written as `a and b and c` (likewise `or`): a copy, the original is left alone."""
    t = clone(test)

    class _F(ast.NodeTransformer):
        def visit_BoolOp(self, node):
            self.generic_visit(node)
            vals = []
            for v in node.values:
                if isinstance(v, ast.BoolOp) and type(v.op) is type(node.op):
                    vals.extend(v.values)
                else:
                    vals.append(v)
            node.values = vals
            return node

    return ast.fix_missing_locations(_F().visit(t))


def _substitute(expr, single, depth):
    if not any(isinstance(n, ast.Name) and n.id in single for n in ast.walk(expr)):
        return expr

    class _T(ast.NodeTransformer):
        def visit_Name(self, node):
            if isinstance(node.ctx, ast.Load) and node.id in single:
                return clone(single[node.id])
            return node

    out = clone(expr)
    for _ in range(depth):
        new = _T().visit(out)
        if ast.dump(new) == ast.dump(out):
            break
        out = new
    return ast.fix_missing_locations(out)


_POSITIVE = {ast.NotEq: ast.Eq, ast.IsNot: ast.Is, ast.NotIn: ast.In}


def canon_test(test, pol=True):
    """(text, polarity) of a test in canonical form: leading `not`s stripped, `!=` / `is not` / `not in` written as the
    positive comparison with the polarity flipped."""
    while isinstance(test, ast.UnaryOp) and isinstance(test.op, ast.Not):
        test, pol = test.operand, not pol
    if isinstance(test, ast.Compare) and len(test.ops) == 1 and type(test.ops[0]) in _POSITIVE:
        test = ast.Compare(left=test.left, ops=[_POSITIVE[type(test.ops[0])]()], comparators=test.comparators)
        pol = not pol
    return U(test), pol


def canon_guards(node, stop=None):
    """guards_of in canonical form, as a set of (text, polarity)."""
    return {canon_test(t, p) for t, p in guards_of(node, stop)}


def in_handler(node):
    """The ``ExceptHandler`` enclosing node within its function, or None."""
    p = parent(node)
    while p is not None and not isinstance(p, (ast.FunctionDef, ast.AsyncFunctionDef)):
        if isinstance(p, ast.ExceptHandler):
            return p
        p = parent(p)
    return None


def enclosing_loops(node):
    out = []
    p = parent(node)
    while p is not None and not isinstance(p, (ast.FunctionDef, ast.AsyncFunctionDef)):
        if isinstance(p, (ast.For, ast.While)):
            out.append(p)
        p = parent(p)
    return out


# ---------------------------------------------------------------------- constant folding
class NotConstant(Exception):
    pass


_BINOPS = {
    ast.Add: lambda a, b: a + b,
    ast.Sub: lambda a, b: a - b,
    ast.Mult: lambda a, b: a * b,
    ast.Div: lambda a, b: a / b,
    ast.FloorDiv: lambda a, b: a // b,
    ast.Mod: lambda a, b: a % b,
    ast.Pow: lambda a, b: a**b,
    ast.LShift: lambda a, b: a << b,
    ast.RShift: lambda a, b: a >> b,
    ast.BitOr: lambda a, b: a | b,
    ast.BitAnd: lambda a, b: a & b,
    ast.BitXor: lambda a, b: a ^ b,
}


def fold(node, env=None):
    """Fold an expression to a Python constant, or raise NotConstant."""
    env = env or {}
    if isinstance(node, ast.Constant):
        return node.value
    if isinstance(node, ast.Name):
        if node.id in env:
            return env[node.id]
        raise NotConstant(node.id)
    if isinstance(node, (ast.List, ast.Tuple, ast.Set)):
        vals = []
        for e in node.elts:
            if isinstance(e, ast.Starred):
                inner = fold(e.value, env)
                if not isinstance(inner, (list, tuple)):
                    raise NotConstant("starred non-sequence")
                vals.extend(inner)
            else:
                vals.append(fold(e, env))
        return vals if isinstance(node, ast.List) else tuple(vals) if isinstance(node, ast.Tuple) else set(vals)
    if isinstance(node, ast.Dict):
        return {fold(k, env): fold(v, env) for k, v in zip(node.keys, node.values)}
    if isinstance(node, ast.UnaryOp):
        v = fold(node.operand, env)
        if isinstance(node.op, ast.USub):
            return -v
        if isinstance(node.op, ast.UAdd):
            return +v
        if isinstance(node.op, ast.Not):
            return not v
    if isinstance(node, ast.BinOp) and type(node.op) in _BINOPS:
        a, b = fold(node.left, env), fold(node.right, env)
        try:
            return _BINOPS[type(node.op)](a, b)
        except Exception as exc:  # noqa: BLE001
            raise NotConstant(str(exc)) from exc
    if isinstance(node, ast.Call):
        name = U(node.func)
        if name in ("range", "list", "tuple", "len", "int", "float", "abs", "max", "min", "sum", "sorted", "set", "frozenset", "str"):
            args = [fold(a, env) for a in node.args]
            if node.keywords:
                raise NotConstant(name)
            fn = {"range": lambda *a: list(range(*a)), "list": list, "tuple": tuple, "len": len, "int": int,
                  "float": float, "abs": abs, "max": max, "min": min, "sum": sum, "sorted": sorted, "set": set,
                  "frozenset": frozenset, "str": str}[name]
            try:
                return fn(*args)
            except Exception as exc:  # noqa: BLE001
                raise NotConstant(str(exc)) from exc
        if isinstance(node.func, ast.Attribute) and node.func.attr in ("split", "join", "strip", "upper", "lower", "replace", "splitlines",
                                                                        "lstrip", "rstrip", "keys", "values", "items") and not node.keywords:
            base = fold(node.func.value, env)
            if isinstance(base, str) or (isinstance(base, dict) and node.func.attr in ("keys", "values", "items")):
                args = [fold(a, env) for a in node.args]
                try:
                    res = getattr(base, node.func.attr)(*args)
                except Exception as exc:  # noqa: BLE001
                    raise NotConstant(str(exc)) from exc
                return list(res) if isinstance(base, dict) else res
    if isinstance(node, ast.JoinedStr):
        parts = []
        for v in node.values:
            if isinstance(v, ast.Constant):
                parts.append(str(v.value))
            else:
                raise NotConstant("f-string")
        return "".join(parts)
    raise NotConstant(type(node).__name__)


def try_fold(node, env=None, default=None):
    try:
        return fold(node, env)
    except NotConstant:
        return default


def names_in(node) -> set[str]:
    return {n.id for n in ast.walk(node) if isinstance(n, ast.Name)}


def assigned_names(fn) -> dict[str, list]:
    """name -> list of statements that (re)bind it inside fn (params not included)."""
    out: dict[str, list] = {}

    def add(t, st):
        if isinstance(t, ast.Name):
            out.setdefault(t.id, []).append(st)
        elif isinstance(t, (ast.Tuple, ast.List)):
            for e in t.elts:
                add(e, st)
        elif isinstance(t, ast.Starred):
            add(t.value, st)

    for st in iter_stmts(fn.body):
        if isinstance(st, ast.Assign):
            for t in st.targets:
                add(t, st)
        elif isinstance(st, (ast.AugAssign, ast.AnnAssign)):
            add(st.target, st)
        elif isinstance(st, (ast.For, ast.AsyncFor)):
            add(st.target, st)
        elif isinstance(st, (ast.With, ast.AsyncWith)):
            for item in st.items:
                if item.optional_vars is not None:
                    add(item.optional_vars, st)
        elif isinstance(st, ast.Try):
            for h in st.handlers:
                if h.name:
                    out.setdefault(h.name, []).append(h)
    for n in walk_no_defs(fn):
        if isinstance(n, ast.NamedExpr):
            add(n.target, enclosing_stmt(n))
        if isinstance(n, ast.comprehension):
            add(n.target, enclosing_stmt(n))
    return out


# ---------------------------------------------------------------------- reachability formulas
def _falls_through(stmts):
    """Formula for 'control reaches the end of this block' (structured code)."""
    parts = []
    for st in stmts:
        f = _ft_stmt(st)
        if f is True:
            continue
        parts.append(f)
        if f is False:
            break
    if not parts:
        return True
    if any(p is False for p in parts):
        return False
    return ("and", parts)


def _ft_stmt(st):
    if isinstance(st, (ast.Continue, ast.Break, ast.Return, ast.Raise)):
        return False
    if isinstance(st, ast.If):
        a = _falls_through(st.body)
        b = _falls_through(st.orelse)
        if a is True and b is True:
            return True
        t = ("atom", st.test)
        return ("or", [("and", [t, a]), ("and", [("not", t), b])])
    if isinstance(st, ast.Try):
        # conservatively: may fall through
        return True
    return True


def reach_formula(stmt, root):
    """Formula (over the tests of enclosing/preceding ifs) under which `stmt` is reached from the start of `root`'s
    body in one pass (loops: one iteration of the innermost enclosing loop when root is that loop)."""
    conj = []
    child = stmt
    p = parent(stmt)
    while p is not None:
        for field in ("body", "orelse", "finalbody"):
            block = getattr(p, field, None)
            if isinstance(block, list) and child in block:
                idx = block.index(child)
                pre = _falls_through(block[:idx])
                if pre is not True:
                    conj.append(pre)
                if isinstance(p, ast.If):
                    t = ("atom", p.test)
                    conj.append(t if field == "body" else ("not", t))
                elif isinstance(p, ast.While) and field == "body":
                    conj.append(("atom", p.test))
        if isinstance(p, ast.ExceptHandler):
            pass
        if p is root:
            break
        child = p
        p = parent(p)
    return ("and", conj) if conj else True


def formula_atoms(f, out=None):
    out = {} if out is None else out
    if isinstance(f, tuple):
        if f[0] == "atom":
            _split_atoms(f[1], out)
        elif f[0] == "not":
            formula_atoms(f[1], out)
        else:
            for x in f[1]:
                formula_atoms(x, out)
    return out


_NEGATED_OPS = {ast.NotEq: ast.Eq, ast.NotIn: ast.In, ast.IsNot: ast.Is}


def _positive(test):
    """(atom, negated): `a != b`, `a not in b`, `a is not b` are the negations of the atoms `a == b`, `a in b`, `a is b`."""
    if isinstance(test, ast.Compare) and len(test.ops) == 1 and type(test.ops[0]) in _NEGATED_OPS:
        pos = ast.Compare(left=test.left, ops=[_NEGATED_OPS[type(test.ops[0])]()], comparators=test.comparators)
        return ast.copy_location(pos, test), True
    return test, False


def _split_atoms(test, out):
    if isinstance(test, ast.BoolOp):
        for v in test.values:
            _split_atoms(v, out)
    elif isinstance(test, ast.UnaryOp) and isinstance(test.op, ast.Not):
        _split_atoms(test.operand, out)
    else:
        pos, _ = _positive(test)
        out.setdefault(U(pos), pos)


def eval_formula(f, assign):
    """assign: dict atom-text -> bool."""
    if f is True or f is False:
        return f
    kind = f[0]
    if kind == "atom":
        return _eval_test(f[1], assign)
    if kind == "not":
        return not eval_formula(f[1], assign)
    if kind == "and":
        return all(eval_formula(x, assign) for x in f[1])
    if kind == "or":
        return any(eval_formula(x, assign) for x in f[1])
    raise AnalysisError(f"bad formula node {kind}")


def _eval_test(test, assign):
    if isinstance(test, ast.BoolOp):
        vals = [_eval_test(v, assign) for v in test.values]
        return all(vals) if isinstance(test.op, ast.And) else any(vals)
    if isinstance(test, ast.UnaryOp) and isinstance(test.op, ast.Not):
        return not _eval_test(test.operand, assign)
    pos, negated = _positive(test)
    return assign[U(pos)] != negated


def _has_unknown(v, Unknown, depth=0):
    if isinstance(v, Unknown):
        return True
    if depth > 4:
        return False
    if isinstance(v, dict):
        return any(_has_unknown(x, Unknown, depth + 1) for x in list(v.keys()) + list(v.values()) if not callable(x) or isinstance(x, dict))
    if isinstance(v, (list, tuple, set, frozenset)):
        return any(_has_unknown(x, Unknown, depth + 1) for x in v)
    return False
