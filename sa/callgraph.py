"""E1/E7 call graph with receiver resolution, reachability and simple effect summaries."""
from __future__ import annotations

import ast

from .core import AnalysisError, FuncInfo, Program, U, calls_in, walk_no_defs

# method names too generic for class-hierarchy fallback (builtin container/str/file methods)
GENERIC = {
    "append", "extend", "insert", "remove", "pop", "get", "items", "keys", "values", "update", "copy", "index", "count",
    "sort", "reverse", "split", "strip", "lstrip", "rstrip", "join", "replace", "startswith", "endswith", "find", "format",
    "lower", "upper", "write", "read", "readline", "readlines", "close", "add", "discard", "clear", "setdefault",
    "isspace", "isdigit", "ljust", "rjust", "encode", "decode", "info", "debug", "warning", "error", "critical",
    "exists", "is_file", "open", "group", "match", "search", "compile", "parse_args", "add_argument", "seek", "tell",
    "union", "intersection", "difference", "issubset", "title", "capitalize", "mkdir", "resolve", "with_suffix",
}
ENTRY_POINTS = [("main.py", "main_driver"), ("main.py", "main"), ("main.py", "run_pdb2pqr"), ("main.py", "dx_to_cube"),
                ("inputgen.py", "main"), ("psize.py", "main")]


class CallGraph:
    def __init__(self, prog: Program):
        self.prog = prog
        self.imports = {rel: self._imports(m) for rel, m in prog.modules.items()}
        self.edges: dict[str, set[str]] = {k: set() for k in prog.funcs}
        self.sites: dict[str, list] = {k: [] for k in prog.funcs}  # (call node, [callee keys])
        self.unresolved: dict[str, list] = {k: [] for k in prog.funcs}
        self.methods_by_name: dict[str, list[FuncInfo]] = {}
        for f in prog.funcs.values():
            if f.cls is not None and "<locals>" not in f.qual:
                self.methods_by_name.setdefault(f.node.name, []).append(f)
        self.stats = {"calls": 0, "resolved": 0, "external": 0, "unresolved": 0}
        for key, f in prog.funcs.items():
            self._scan(f)
        # module-level code (decorators, registrations) is modelled as a pseudo function per module
        self._reach = None

    # ---------------------------------------------------------------- imports
    def _imports(self, mod):
        """alias -> ('module', rel) | ('symbol', rel, name) | ('external', dotted)"""
        out = {}
        pkgdir = mod.rel.rsplit("/", 1)[0] + "/" if "/" in mod.rel else ""
        for st in ast.walk(mod.tree):
            if isinstance(st, ast.ImportFrom):
                base = None
                if st.level >= 1:
                    parts = pkgdir.strip("/").split("/") if pkgdir else []
                    up = st.level - 1
                    parts = parts[: len(parts) - up] if up else parts
                    base = "/".join(parts + (st.module.split(".") if st.module else []))
                elif st.module and st.module.startswith("pdb2pqr"):
                    base = "/".join(st.module.split(".")[1:])
                for a in st.names:
                    alias = a.asname or a.name
                    if base is None:
                        out[alias] = ("external", f"{st.module}.{a.name}")
                        continue
                    cand_mod = (base + "/" if base else "") + a.name
                    if f"{cand_mod}.py" in self.prog.modules:
                        out[alias] = ("module", f"{cand_mod}.py")
                    elif f"{cand_mod}/__init__.py" in self.prog.modules:
                        out[alias] = ("module", f"{cand_mod}/__init__.py")
                    else:
                        rel = f"{base}.py" if f"{base}.py" in self.prog.modules else f"{base}/__init__.py" if base else "__init__.py"
                        out[alias] = ("symbol", rel, a.name)
            elif isinstance(st, ast.Import):
                for a in st.names:
                    out[a.asname or a.name.split(".")[0]] = ("external", a.name)
        return out

    # ---------------------------------------------------------------- resolution
    def _module_symbol(self, rel, name):
        """function or class `name` defined at top level of module rel -> list of FuncInfo (ctor for classes)."""
        if rel not in self.prog.modules:
            return None
        k = f"{rel}::{name}"
        if k in self.prog.funcs:
            return [self.prog.funcs[k]]
        if k in self.prog.classes:
            ci = self.prog.classes[k]
            init = self.prog.find_method(ci, "__init__")
            return [init] if init else []
        # alias at module level: X = Y
        for st in self.prog.modules[rel].tree.body:
            if isinstance(st, ast.Assign) and isinstance(st.value, ast.Name) and any(
                    isinstance(t, ast.Name) and t.id == name for t in st.targets):
                return self._module_symbol(rel, st.value.id)
        imp = self.imports[rel].get(name)
        if imp and imp[0] == "symbol":
            return self._module_symbol(imp[1], imp[2])
        return None

    def resolve(self, f: FuncInfo, call: ast.Call):
        """-> (list[FuncInfo] | None, kind)"""
        fn = call.func
        rel = f.module.rel
        imps = self.imports[rel]
        if isinstance(fn, ast.Name):
            name = fn.id
            # nested def
            k = f"{rel}::{f.qual}.<locals>.{name}"
            if k in self.prog.funcs:
                return [self.prog.funcs[k]], "local"
            r = self._module_symbol(rel, name)
            if r is not None:
                return r, "module"
            if name in imps and imps[name][0] == "external":
                return None, "external"
            if name in dir(__builtins__) or name in ("print", "len", "range", "isinstance", "getattr", "setattr", "hasattr",
                                                     "str", "int", "float", "list", "dict", "set", "tuple", "sorted", "min",
                                                     "max", "abs", "sum", "open", "enumerate", "zip", "iter", "next", "round",
                                                     "any", "all", "repr", "type", "super", "bool", "map", "filter", "format",
                                                     "reversed", "id", "hash", "vars", "dir", "callable", "frozenset", "bytes",
                                                     "Exception", "ValueError", "KeyError", "IndexError", "TypeError",
                                                     "RuntimeError", "NotImplementedError", "AttributeError", "OSError",
                                                     "FileNotFoundError", "IOError", "ZeroDivisionError", "StopIteration",
                                                     "divmod", "pow", "ord", "chr", "exit", "input", "property", "classmethod",
                                                     "staticmethod", "object", "slice", "complex", "memoryview", "bytearray"):
                return None, "builtin"
            # variable bound to getattr(module, ...) -> any class of that module; LINE_PARSERS[...] -> registered classes
            out = []
            for st in ast.walk(f.node):
                if isinstance(st, ast.Assign) and any(isinstance(t, ast.Name) and t.id == name for t in st.targets):
                    if isinstance(st.value, ast.Call) and U(st.value.func) == "getattr" and st.value.args:
                        m = U(st.value.args[0])
                        if m in imps and imps[m][0] == "module":
                            for ci in self.prog.classes.values():
                                if ci.module.rel == imps[m][1]:
                                    init = self.prog.find_method(ci, "__init__")
                                    if init:
                                        out.append(init)
                    elif isinstance(st.value, ast.Subscript) and U(st.value.value).endswith("LINE_PARSERS"):
                        for ci in self.prog.classes.values():
                            if any(U(d) == "register_line_parser" for d in ci.node.decorator_list):
                                init = self.prog.find_method(ci, "__init__")
                                if init:
                                    out.append(init)
            if out:
                return out, "dynamic"
            if name == "cls" and f.cls is not None:
                ci = self.prog.classes[f"{rel}::{f.cls.name}"]
                init = self.prog.find_method(ci, "__init__")
                return ([init] if init else []), "class"
            return None, "unresolved"
        if isinstance(fn, ast.Attribute):
            meth = fn.attr
            recv = fn.value
            rtxt = U(recv)
            if isinstance(recv, ast.Name) and recv.id in imps:
                imp = imps[recv.id]
                if imp[0] == "module":
                    r = self._module_symbol(imp[1], meth)
                    if r is not None:
                        return r, "module"
                    return None, "unresolved"
                if imp[0] == "external":
                    return None, "external"
                if imp[0] == "symbol":
                    # Class.method(...) explicit
                    ck = f"{imp[1]}::{imp[2]}"
                    if ck in self.prog.classes:
                        m = self.prog.find_method(self.prog.classes[ck], meth)
                        return ([m] if m else None), "class"
            if isinstance(recv, ast.Attribute) and isinstance(recv.value, ast.Name) and recv.value.id in imps \
                    and imps[recv.value.id][0] == "module":
                # mod.Class.method
                ck = f"{imps[recv.value.id][1]}::{recv.attr}"
                if ck in self.prog.classes:
                    m = self.prog.find_method(self.prog.classes[ck], meth)
                    return ([m] if m else None), "class"
            if rtxt in ("self", "cls") and f.cls is not None:
                ci = self.prog.classes[f"{rel}::{f.cls.name}"]
                out = []
                m = self.prog.find_method(ci, meth)
                if m:
                    out.append(m)
                for sub in self.prog.subclasses(ci):
                    if meth in sub.methods:
                        out.append(sub.methods[meth])
                if out:
                    return out, "self"
            if rtxt == "super()" and f.cls is not None:
                ci = self.prog.classes[f"{rel}::{f.cls.name}"]
                for c in self.prog.mro(ci)[1:]:
                    if meth in c.methods:
                        return [c.methods[meth]], "super"
                return None, "external"
            if isinstance(recv, ast.Name):
                # explicit class in same module: Amino.set_state(self)
                ck = f"{rel}::{recv.id}"
                if ck in self.prog.classes:
                    m = self.prog.find_method(self.prog.classes[ck], meth)
                    return ([m] if m else None), "class"
            tkey = self.receiver_type(f, recv)
            if tkey is not None:
                ci = self.prog.classes[tkey]
                out = []
                m = self.prog.find_method(ci, meth)
                if m:
                    out.append(m)
                for sub in self.prog.subclasses(ci):
                    if meth in sub.methods:
                        out.append(sub.methods[meth])
                if out:
                    return out, "typed"
            if rtxt.startswith(("_LOGGER", "logging", "np.", "math.", "re.", "sax.", "os.", "sys.", "pdbx.", "string.",
                                "argparse.", "pprint.", "copy.", "Path", "itertools.", "json.", "pd.", "requests.")):
                return None, "external"
            if meth in GENERIC:
                return None, "generic"
            cands = self.methods_by_name.get(meth, [])
            if cands:
                return list(cands), "cha"
            return None, "unresolved"
        return None, "unresolved"

    PARAM_TYPES = {
        "biomolecule": "biomolecule.py::Biomolecule", "debumper": "debump.py::Debump", "routines": "debump.py::Debump",
        "forcefield_": "forcefield.py::Forcefield", "name_scheme": "forcefield.py::Forcefield",
        "definition": "definitions.py::Definition", "size": "psize.py::Psize", "ligand": "ligand/mol2.py::Mol2Molecule",
        "residue": "residue.py::Residue", "res": "residue.py::Residue", "atom": "structures.py::Atom",
        "hydrogen_routines": "hydrogens/__init__.py::HydrogenRoutines", "chain": "structures.py::Chain",
    }

    def receiver_type(self, f: FuncInfo, recv):
        """Class key of a receiver expression, from local constructor assignments, self.attr constructors, or the
        frozen parameter-name table (DESIGN App. D.1)."""
        rel = f.module.rel
        if isinstance(recv, ast.Name):
            for st in ast.walk(f.node):
                if isinstance(st, ast.Assign) and any(isinstance(t, ast.Name) and t.id == recv.id for t in st.targets) \
                        and isinstance(st.value, ast.Call):
                    k = self._class_of_ctor(f, st.value)
                    if k:
                        return k
            if recv.id in self.PARAM_TYPES and self.PARAM_TYPES[recv.id] in self.prog.classes:
                return self.PARAM_TYPES[recv.id]
        if isinstance(recv, ast.Attribute) and U(recv.value) == "self" and f.cls is not None:
            ci = self.prog.classes[f"{rel}::{f.cls.name}"]
            for c in self.prog.mro(ci):
                for m in c.methods.values():
                    for st in ast.walk(m.node):
                        if isinstance(st, ast.Assign) and any(U(t) == f"self.{recv.attr}" for t in st.targets):
                            if isinstance(st.value, ast.Call):
                                k = self._class_of_ctor(m, st.value)
                                if k:
                                    return k
                            if isinstance(st.value, ast.Name) and st.value.id in self.PARAM_TYPES \
                                    and self.PARAM_TYPES[st.value.id] in self.prog.classes:
                                return self.PARAM_TYPES[st.value.id]
            if recv.attr in self.PARAM_TYPES and self.PARAM_TYPES[recv.attr] in self.prog.classes:
                return self.PARAM_TYPES[recv.attr]
        return None

    def _class_of_ctor(self, f, call):
        fn = call.func
        rel = f.module.rel
        imps = self.imports[rel]
        if isinstance(fn, ast.Name):
            if f"{rel}::{fn.id}" in self.prog.classes:
                return f"{rel}::{fn.id}"
            imp = imps.get(fn.id)
            if imp and imp[0] == "symbol" and f"{imp[1]}::{imp[2]}" in self.prog.classes:
                return f"{imp[1]}::{imp[2]}"
        if isinstance(fn, ast.Attribute) and isinstance(fn.value, ast.Name) and fn.value.id in imps \
                and imps[fn.value.id][0] == "module":
            k = f"{imps[fn.value.id][1]}::{fn.attr}"
            if k in self.prog.classes:
                return k
        return None

    def _scan(self, f: FuncInfo):
        for call in calls_in(f.node):
            self.stats["calls"] += 1
            targets, kind = self.resolve(f, call)
            if targets:
                self.stats["resolved"] += 1
                keys = [t.key for t in targets if t is not None]
                self.edges[f.key].update(keys)
                self.sites[f.key].append((call, keys))
            elif kind in ("external", "builtin", "generic"):
                self.stats["external"] += 1
                self.sites[f.key].append((call, []))
            else:
                self.stats["unresolved"] += 1
                self.unresolved[f.key].append(call)
                self.sites[f.key].append((call, []))
        # property getters: attribute loads of a name that is a @property somewhere
        for n in walk_no_defs(f.node):
            if isinstance(n, ast.Attribute) and isinstance(n.ctx, ast.Load):
                for m in self.methods_by_name.get(n.attr, []):
                    if any(U(d) == "property" for d in m.node.decorator_list):
                        self.edges[f.key].add(m.key)
        # framework edges: handler objects passed to sax.parseString -> their SAX methods; __str__ via str()/f-strings
        for call in calls_in(f.node):
            if U(call.func) in ("sax.parseString", "sax.parse") and len(call.args) >= 2:
                hv = U(call.args[1])
                for st in ast.walk(f.node):
                    if isinstance(st, ast.Assign) and U(st.targets[0]) == hv and isinstance(st.value, ast.Call):
                        t, _ = self.resolve(f, st.value)
                        for init in t or []:
                            if init.cls is not None:
                                ci = self.prog.classes[f"{init.module.rel}::{init.cls.name}"]
                                for mn in ("startElement", "endElement", "characters"):
                                    m = self.prog.find_method(ci, mn)
                                    if m:
                                        self.edges[f.key].add(m.key)

    # ---------------------------------------------------------------- reachability
    def reachable(self, entries=None):
        entries = entries or [f"{rel}::{q}" for rel, q in ENTRY_POINTS if f"{rel}::{q}" in self.prog.funcs]
        seen = set()
        todo = list(entries)
        while todo:
            k = todo.pop()
            if k in seen or k not in self.edges:
                continue
            seen.add(k)
            todo.extend(self.edges[k])
            # nested functions of a reachable function are reachable
            for other in self.prog.funcs:
                if other.startswith(k + ".<locals>."):
                    todo.append(other)
        # __str__/__repr__/filter methods of classes instantiated are conservatively reachable
        changed = True
        while changed:
            changed = False
            for k in list(seen):
                f = self.prog.funcs[k]
                if f.cls is not None and f.node.name == "__init__":
                    ci = self.prog.classes[f"{f.module.rel}::{f.cls.name}"]
                    for mn in ("__str__", "__repr__", "filter", "__lt__", "__eq__", "__hash__"):
                        m = self.prog.find_method(ci, mn)
                        if m and m.key not in seen:
                            seen.add(m.key)
                            todo = [m.key]
                            while todo:
                                kk = todo.pop()
                                for e in self.edges.get(kk, ()):
                                    if e not in seen:
                                        seen.add(e)
                                        todo.append(e)
                            changed = True
        return seen

    def reaches(self, src_keys, dst_key, within=None):
        """Is dst reachable from any of src_keys?"""
        seen = set()
        todo = list(src_keys)
        while todo:
            k = todo.pop()
            if k == dst_key:
                return True
            if k in seen:
                continue
            seen.add(k)
            todo.extend(self.edges.get(k, ()))
        return False

    def closure(self, key):
        seen = set()
        todo = [key]
        while todo:
            k = todo.pop()
            if k in seen:
                continue
            seen.add(k)
            todo.extend(self.edges.get(k, ()))
        return seen

    def callers(self, key):
        return [k for k, es in self.edges.items() if key in es]

    def summary(self):
        s = dict(self.stats)
        tot = max(1, s["calls"])
        s["resolved_or_external_pct"] = round(100.0 * (s["resolved"] + s["external"]) / tot, 1)
        return s
