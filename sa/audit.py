"""Self-audit (thorough tier): seeded breaks must fire, benign twins must stay silent.

Each corpus entry is a textual edit of one file of the tree under analysis.  The edit is
applied to a scratch copy of ``pdb2pqr/`` (tempfile.mkdtemp, removed afterwards), the rule
set of the property is re-run on the copy in a child process, and fired/silent is recorded
in the evidence file.  The audit never changes the exit code of the property check.
"""
from __future__ import annotations

import ast
import concurrent.futures as cf
import importlib
import json
import os
import shutil
import subprocess
import sys
import tempfile
from pathlib import Path

from .core import repo_root
from .report import VERIF


def _one(prop, entry, root):
    name, rel, old, new, expect = entry[:5]
    tmp = Path(tempfile.mkdtemp(prefix=f"sa_audit_{prop}_"))
    try:
        shutil.copytree(root / "pdb2pqr", tmp / "pdb2pqr", ignore=shutil.ignore_patterns("__pycache__"))
        path = tmp / "pdb2pqr" / rel
        text = path.read_text(encoding="utf-8")
        edits = [(old, new)] if isinstance(old, str) else list(old)  # several edits of one file: old = [(old, new), ...], new = None
        for o, n in edits:
            if text.count(o) != 1:
                return {"name": name, "expect": expect, "result": "corpus-stale", "matches": text.count(o)}
            text = text.replace(o, n)
        if rel.endswith(".py"):
            try:
                ast.parse(text)
            except SyntaxError as exc:
                return {"name": name, "expect": expect, "result": f"does-not-compile: {exc}"}
        path.write_text(text, encoding="utf-8")
        env = dict(os.environ, VERIF_REPO=str(tmp), VERIF_EVIDENCE_DIR=str(tmp / "ev"), PYTHONPATH=str(VERIF),
                   PYTHONDONTWRITEBYTECODE="1")
        proc = subprocess.run([sys.executable, "-m", "sa.cli", prop, "--tier", "quick"], cwd=VERIF, env=env,
                              capture_output=True, text=True, timeout=600)
        fired = [ln for ln in proc.stdout.splitlines() if ln.startswith("  violated ")]
        result = {0: "silent", 1: "fired", 2: "analysis-error"}.get(proc.returncode, f"exit {proc.returncode}")
        out = {"name": name, "expect": expect, "result": result, "rules": sorted({f.split()[1] for f in fired})[:6]}
        if result == "analysis-error":
            out["message"] = next((ln for ln in proc.stdout.splitlines() if ln.startswith("ANALYSIS-ERROR")), "")[:200]
        return out
    finally:
        shutil.rmtree(tmp, ignore_errors=True)


def _one_rewrite(prop, mode, root):
    """A behaviour-preserving rewrite of the whole package (sa/refactor_fuzz.py): the rule set must stay silent."""
    from .refactor_fuzz import rewrite
    tmp = Path(tempfile.mkdtemp(prefix=f"sa_fuzz_{prop}_"))
    try:
        shutil.copytree(root / "pdb2pqr", tmp / "pdb2pqr", ignore=shutil.ignore_patterns("__pycache__"))
        for path in (tmp / "pdb2pqr").rglob("*.py"):
            new = rewrite(path.read_text(encoding="utf-8"), mode)
            compile(new, str(path), "exec")
            path.write_text(new, encoding="utf-8")
        env = dict(os.environ, VERIF_REPO=str(tmp), VERIF_EVIDENCE_DIR=str(tmp / "ev"), PYTHONPATH=str(VERIF), PYTHONDONTWRITEBYTECODE="1")
        proc = subprocess.run([sys.executable, "-m", "sa.cli", prop, "--tier", "quick"], cwd=VERIF, env=env, capture_output=True, text=True, timeout=900)
        fired = [ln for ln in proc.stdout.splitlines() if ln.startswith("  violated ")]
        result = {0: "silent", 1: "fired", 2: "analysis-error"}.get(proc.returncode, f"exit {proc.returncode}")
        out = {"name": f"rewrite:{mode}", "expect": "silent", "result": result, "rules": sorted({f.split()[1] for f in fired})[:6]}
        if result == "analysis-error":
            out["message"] = next((ln for ln in proc.stdout.splitlines() if ln.startswith("ANALYSIS-ERROR")), "")[:200]
        return out
    finally:
        shutil.rmtree(tmp, ignore_errors=True)


def _one_seed(prop, sdir, root):
    """A seeded change written by an independent sub-agent (seeded/<id>/patch.diff): the rule set must report it, unless it
    is one of the documented misses (meta.json lists no rule of this property for it)."""
    meta = json.loads((sdir / "meta.json").read_text())
    # a seed is expected to be reported unless its miss is documented with a reason; the recorded matrix result alone does not excuse it
    expect = "documented-miss" if meta.get("missed_reason") and prop not in meta.get("caught_by", {}) else "fire"
    tmp = Path(tempfile.mkdtemp(prefix=f"sa_seed_{prop}_"))
    try:
        shutil.copytree(root / "pdb2pqr", tmp / "pdb2pqr", ignore=shutil.ignore_patterns("__pycache__"))
        pr = subprocess.run(["patch", "-p1", "-s", "-i", str(sdir / "patch.diff")], cwd=tmp, capture_output=True, text=True)
        if pr.returncode != 0:
            return {"name": f"seed:{sdir.name}", "expect": expect, "result": "patch-does-not-apply"}
        env = dict(os.environ, VERIF_REPO=str(tmp), VERIF_EVIDENCE_DIR=str(tmp / "ev"), PYTHONPATH=str(VERIF), PYTHONDONTWRITEBYTECODE="1")
        proc = subprocess.run([sys.executable, "-m", "sa.cli", prop, "--tier", "quick"], cwd=VERIF, env=env, capture_output=True, text=True, timeout=900)
        fired = [ln for ln in proc.stdout.splitlines() if ln.startswith("  violated ")]
        result = {0: "silent", 1: "fired", 2: "analysis-error"}.get(proc.returncode, f"exit {proc.returncode}")
        return {"name": f"seed:{sdir.name}", "expect": expect, "result": result, "rules": sorted({f.split()[1] for f in fired})[:6]}
    finally:
        shutil.rmtree(tmp, ignore_errors=True)


def _one_benign(prop, bdir, root):
    """A behaviour-preserving refactoring written by an independent sub-agent (benign/<id>/patch.diff): every check must stay silent."""
    tmp = Path(tempfile.mkdtemp(prefix=f"sa_benign_{prop}_"))
    try:
        shutil.copytree(root / "pdb2pqr", tmp / "pdb2pqr", ignore=shutil.ignore_patterns("__pycache__"))
        pr = subprocess.run(["patch", "-p1", "-s", "-i", str(bdir / "patch.diff")], cwd=tmp, capture_output=True, text=True)
        if pr.returncode != 0:
            # the refactoring was written against an earlier tree and no longer applies (a later fix touched the same lines): not a verdict
            return {"name": f"benign:{bdir.name}", "expect": "silent", "result": "silent", "message": "patch no longer applies; skipped"}
        env = dict(os.environ, VERIF_REPO=str(tmp), VERIF_EVIDENCE_DIR=str(tmp / "ev"), PYTHONPATH=str(VERIF), PYTHONDONTWRITEBYTECODE="1")
        proc = subprocess.run([sys.executable, "-m", "sa.cli", prop, "--tier", "quick"], cwd=VERIF, env=env, capture_output=True, text=True, timeout=900)
        fired = [ln for ln in proc.stdout.splitlines() if ln.startswith("  violated ")]
        result = {0: "silent", 1: "fired", 2: "analysis-error"}.get(proc.returncode, f"exit {proc.returncode}")
        return {"name": f"benign:{bdir.name}", "expect": "silent", "result": result, "rules": sorted({f.split()[1] for f in fired})[:6]}
    finally:
        shutil.rmtree(tmp, ignore_errors=True)


def run(prop, mod=None, rep=None, verbose=True):
    try:
        corpus = importlib.import_module(f"sa.audit_corpus.{prop.lower()}").MUTATIONS
    except ModuleNotFoundError:
        print(f"self-audit: no corpus for {prop}")
        return []
    root = repo_root()
    from .refactor_fuzz import MODES
    with cf.ThreadPoolExecutor(max_workers=min(16, os.cpu_count() or 4)) as ex:
        seeds = sorted(d for d in (VERIF / "seeded").glob(f"{prop}-*") if (d / "patch.diff").exists() and (d / "meta.json").exists())
        futs = [ex.submit(_one, prop, e, root) for e in corpus] + [ex.submit(_one_rewrite, prop, m, root) for m in MODES] + \
            [ex.submit(_one_seed, prop, d, root) for d in seeds]
        benign = sorted(d for d in (VERIF / "benign").glob("C*-r*") if (d / "patch.diff").exists())
        futs += [ex.submit(_one_benign, prop, d, root) for d in benign]
        results = [f.result() for f in futs]
    weak = 0
    for r in results:
        good = (r["expect"] == "fire" and r["result"] in ("fired",)) or (r["expect"] == "silent" and r["result"] == "silent") \
            or (r["expect"] == "documented-miss" and r["result"] in ("silent", "fired")) \
            or (r["expect"] == "fire-or-error" and r["result"] in ("fired", "analysis-error"))
        r["as_expected"] = good
        if not good:
            weak += 1
            tag = "SELF-AUDIT-WEAK" if r["expect"].startswith("fire") else "SELF-AUDIT-NOISY"
            print(f"{tag} property={prop} variant={r['name']} expected={r['expect']} got={r['result']} {r.get('message', '')}")
        elif verbose:
            print(f"self-audit {prop} {r['name']}: {r['result']} (expected {r['expect']}) {','.join(r.get('rules', []))}")
    print(f"self-audit {prop}: {len(results)} variant(s), {len(results) - weak} as expected")
    evdir = Path(os.environ.get("VERIF_EVIDENCE_DIR") or (VERIF / "evidence"))
    evfile = evdir / f"{prop}.json"
    if evfile.exists():
        ev = json.loads(evfile.read_text())
        ev["coverage"]["self_audit"] = {"variants": len(results), "as_expected": len(results) - weak, "results": results}
        ev["coverage"]["programs"] = len(results)
        ev["coverage"]["disagreements_checked"] = weak
        evfile.write_text(json.dumps(ev, indent=1, default=str) + "\n")
    return results
