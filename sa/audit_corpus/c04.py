_WALK = '''        pivot_atom = self.get_atom(pivot)
        beyond = [pivot_atom]
        todo = [pivot_atom]
        while todo:
            current = todo.pop()
            for bonded in current.bonds:
                if (
                    bonded.residue is self
                    and bonded.refdistance > current.refdistance
                    and bonded not in beyond
                ):
                    beyond.append(bonded)
                    todo.append(bonded)
        return [
            atom.name
            for atom in self.atoms
            if atom in beyond and atom is not pivot_atom
        ]
'''
MUTATIONS = [
    ("flat-rank-filter", "residue.py", _WALK, "        refdist = self.get_atom(pivot).refdistance\n        return [atom.name for atom in self.atoms if atom.refdistance > refdist]\n", "fire"),
    ("walk-ge-equivalent-on-this-topology", "residue.py", "and bonded.refdistance > current.refdistance", "and bonded.refdistance >= current.refdistance", "silent"),
    ("pivot-included", "residue.py", "            if atom in beyond and atom is not pivot_atom\n", "            if atom in beyond\n", "fire"),
    ("cb-in-backbone", "config.py", 'BACKBONE = ["N", "CA", "C", "O", "O2", "HA", "HN", "H", "tN"]', 'BACKBONE = ["N", "CA", "C", "O", "O2", "HA", "HN", "H", "tN", "CB"]', "silent"),
    ("backbone-reordered", "config.py", 'BACKBONE = ["N", "CA", "C", "O", "O2", "HA", "HN", "H", "tN"]', 'BACKBONE = ["CA", "N", "C", "O", "O2", "HA", "HN", "H", "tN"]', "silent"),
    ("new-coordinate-writer", "debump.py", "        self.biomolecule = biomolecule\n", "        self.biomolecule = biomolecule\n        for a_ in biomolecule.atoms:\n            a_.x = round(a_.x, 3)\n", "fire"),
    ("debump-ungated", "main.py", "        if args.debump:\n            _LOGGER.info(\"Debumping biomolecule (again).\")\n            debumper.debump_biomolecule()", "        _LOGGER.info(\"Debumping biomolecule (again).\")\n        debumper.debump_biomolecule()", "fire"),
    ("water-guard-dropped", "hydrogens/__init__.py", "            type_ = optinstance.opttype\n            if type_ == \"Water\":\n                klass = getattr(structures, type_)\n                myobj = klass(residue, optinstance, self.debumper)\n                self.atomlist += myobj.atomlist\n                self.optlist.append(myobj)\n                self.resmap[residue] = myobj\n        _LOGGER.debug(\"Done.\")",
     "            type_ = optinstance.opttype\n            if True:\n                klass = getattr(structures, type_)\n                myobj = klass(residue, optinstance, self.debumper)\n                self.atomlist += myobj.atomlist\n                self.optlist.append(myobj)\n                self.resmap[residue] = myobj\n        _LOGGER.debug(\"Done.\")", "fire"),
    ("assign-only-keeps-debump", "main.py", "    if args.assign_only or args.clean:\n        args.debump = False\n        args.opt = False", "    if args.clean:\n        args.debump = False\n        args.opt = False", "fire"),
    ("mover-adds-offset", "debump.py", "            atom.x = newcoords[iatom][0] + coordlist[1][0]\n", "            atom.x = 0.5 * (newcoords[iatom][0] + coordlist[1][0]) + 0.5 * atom.x\n", "fire"),
    ("pivot-is-second-atom", "debump.py", "        pivot = atomnames[2]\n        for atomname in atomnames:\n            if residue.has_atom(atomname):\n                coordlist.append(residue.get_atom(atomname).coords)\n            else:\n                raise ValueError(\"Error occurred while trying to debump!\")\n        initcoords", "        pivot = atomnames[1]\n        for atomname in atomnames:\n            if residue.has_atom(atomname):\n                coordlist.append(residue.get_atom(atomname).coords)\n            else:\n                raise ValueError(\"Error occurred while trying to debump!\")\n        initcoords", "fire-or-error"),
    ("selection-memoised", "residue.py", [('        pivot_atom = self.get_atom(pivot)\n        beyond = [pivot_atom]', '        if pivot in self.moveable_names:\n            return list(self.moveable_names[pivot])\n        pivot_atom = self.get_atom(pivot)\n        beyond = [pivot_atom]'), ('        return [\n            atom.name\n            for atom in self.atoms\n            if atom in beyond and atom is not pivot_atom\n        ]', '        names = [\n            atom.name\n            for atom in self.atoms\n            if atom in beyond and atom is not pivot_atom\n        ]\n        self.moveable_names[pivot] = names\n        return list(names)'), ('        self.dihedrals = []\n        atomclass = ""', '        self.dihedrals = []\n        self.moveable_names = {}\n        atomclass = ""'), ('        self.atoms.append(atom)\n        self.map[atom.name] = atom\n', '        self.atoms.append(atom)\n        self.map[atom.name] = atom\n        self.moveable_names = {}\n')], None, "fire"),
    ("selection-local-cache-only", "residue.py", [('        pivot_atom = self.get_atom(pivot)\n        beyond = [pivot_atom]', "        seen_names = {}\n" + '        pivot_atom = self.get_atom(pivot)\n        beyond = [pivot_atom]')], None, "silent"),
    ("flip-drops-oxygens-at-cterm", "hydrogens/structures.py", "newmoveablenames = [name for name in moveablenames if name != \"HO\"]",
     "newmoveablenames = [name for name in moveablenames if not name.startswith((\"O\", \"HO\"))]", "fire"),
    ("flip-filter-unrelated-name", "hydrogens/structures.py", "newmoveablenames = [name for name in moveablenames if name != \"HO\"]",
     "newmoveablenames = [name for name in moveablenames if name not in (\"HO\", \"OXT\")]", "silent"),
    ("opt-forced-on", "main.py", "        args.debump = False\n        args.opt = False\n", "        args.debump = False\n        args.opt = False\n    elif args.pka_method is not None:\n        args.opt = True\n", "fire"),
]
