MUTATIONS = [
    ("drop-swanson-ASP-cterm", "biomolecule.py",
     '''                elif resname == "ASP" and ph < value:
                    if residue.is_c_term and force_field in [
                        "amber",
                        "tyl06",
                        "swanson",
                    ]:''',
     '''                elif resname == "ASP" and ph < value:
                    if residue.is_c_term and force_field in [
                        "amber",
                        "tyl06",
                    ]:''', "fire"),
    ("asp-le", "biomolecule.py", 'elif resname == "ASP" and ph < value:', 'elif resname == "ASP" and ph <= value:', "fire"),
    ("tyr-flipped", "biomolecule.py", 'elif resname == "TYR" and ph >= value:', 'elif resname == "TYR" and ph < value:', "fire"),
    ("his-always", "biomolecule.py", 'elif resname == "HIS" and ph < value:', 'elif resname == "HIS":', "fire"),
    ("cys-gt", "biomolecule.py", 'elif resname == "CYS" and ph >= value:', 'elif resname == "CYS" and ph > value:', "fire"),
    ("asp-not-ge", "biomolecule.py", 'elif resname == "ASP" and ph < value:', 'elif resname == "ASP" and not ph >= value:', "silent"),
    ("list-to-tuple", "biomolecule.py", 'if force_field in ["charmm", "peoepb"]:\n                        warn = (key, "negative")',
     'if force_field in ("charmm", "peoepb"):\n                        warn = (key, "negative")', "silent"),
    ("skip-without-warning", "biomolecule.py",
     '''                        warn = (key, "negative at C-Terminal")
                        _LOGGER.warning(warn)''',
     '''                        pass''', "fire"),
    ("lys-parse-unsupported", "biomolecule.py", 'if force_field in ["charmm", "peoepb"]:\n                        warn = (key, "neutral")',
     'if force_field in ["charmm", "peoepb", "parse"]:\n                        warn = (key, "neutral")', "fire"),
    ("table-loses-LYN-atom", "dat/AMBER.DAT", "LYN	HZ2", "LYN	HZ9", "fire"),
    # terminal rows would then share the key of the residue's own side chain and overwrite it (R4 keys-distinguish-groups)
    ("producer-keeps-termini", "main.py", 'if row["group_label"].startswith(row["res_name"])', 'if True', "fire"),
    ("ph-rounded-after-parsing", "main.py", "    if args.assign_only or args.clean:", "    args.ph = round(args.ph, 2)\n    if args.assign_only or args.clean:", "fire"),
    ("ph-read-into-a-local", "main.py", "    if args.assign_only or args.clean:", "    ph = args.ph\n    _LOGGER.debug(f\"pH {ph:.2f}\")\n    if args.assign_only or args.clean:", "silent"),
]
