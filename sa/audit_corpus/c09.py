MUTATIONS = [
    ("whitespace-steers-model", "main.py", '    _LOGGER.info("Applying force field to biomolecule states.")\n    biomolecule.set_states()',
     '    _LOGGER.info("Applying force field to biomolecule states.")\n    if args.whitespace:\n        biomolecule.remove_hydrogens()\n    biomolecule.set_states()', "fire"),
    ("keep-chain-into-termini", "main.py", "    biomolecule.set_termini(neutraln=args.neutraln, neutralc=args.neutralc)", "    biomolecule.set_termini(neutraln=args.neutraln or args.keep_chain, neutralc=args.neutralc)", "fire"),
    ("option-into-local-first", "main.py", "    lines = io.print_biomolecule_atoms(matched_atoms, args.keep_chain)", "    keep = args.keep_chain\n    lines = io.print_biomolecule_atoms(matched_atoms, keep)", "silent"),
    ("printer-rounds-coordinates", "io.py", "        atom.serial = iatom + 1\n", "        atom.serial = iatom + 1\n        atom.x = round(atom.x, 2)\n", "fire"),
    ("chainflag-renames-chain", "structures.py", '        tstr = self.chain_id if chainflag else ""\n', '        if not chainflag:\n            self.residue.chain_id = ""\n        tstr = self.chain_id if chainflag else ""\n', "fire"),
    ("name-scheme-before-charge-check", "main.py", "    total_charge = 0\n    for residue in biomolecule.residues:\n        charge = residue.charge",
     "    if args.ffout is not None:\n        biomolecule.apply_name_scheme(forcefield_)\n    total_charge = 0\n    for residue in biomolecule.residues:\n        charge = residue.charge", "fire"),
    ("name-scheme-touches-charge", "biomolecule.py", "                if aname is not None and rname is not None:\n                    atom.res_name = rname",
     "                if aname is not None and rname is not None:\n                    atom.ffcharge = round(atom.ffcharge, 3)\n                    atom.res_name = rname", "fire"),
    ("neutraln-everywhere", "biomolecule.py", "        for chain in self.chains:\n            self.assign_termini(chain, neutraln=neutraln, neutralc=neutralc)",
     "        for chain in self.chains:\n            self.assign_termini(chain, neutraln=neutraln, neutralc=neutralc)\n            if neutraln:\n                self.hold_residues(None)", "fire"),
    ("drop-water-after-setup", "main.py", '    if args.drop_water:\n        _LOGGER.info("Dropping water from structure.")\n        pdblist = drop_water(pdblist)\n    _LOGGER.info("Setting up molecule.")\n    biomolecule, definition, ligand = setup_molecule(\n        pdblist, definition, args.ligand\n    )',
     '    _LOGGER.info("Setting up molecule.")\n    biomolecule, definition, ligand = setup_molecule(\n        pdblist, definition, args.ligand\n    )\n    if args.drop_water:\n        _LOGGER.info("Dropping water from structure.")\n        pdblist = drop_water(pdblist)', "fire"),
    ("apbs-input-rewrites-args", "main.py", "    if args.apbs_input:\n        io.dump_apbs(args.output_pqr, args.apbs_input)", "    if args.apbs_input:\n        args.whitespace = False\n        io.dump_apbs(args.output_pqr, args.apbs_input)", "fire"),
    ("table-shift-broken", "dat/PARSE.DAT", "NEUTRAL-NALA", "NEUTRAL-NALA", "silent"),
]
MUTATIONS = [m for m in MUTATIONS if m[0] != "table-shift-broken"]
