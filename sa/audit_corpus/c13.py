MUTATIONS = [
    ("one-sided-append", "biomolecule.py", "                    sg_partners[atom].append(partner)\n                    value.append(atom)\n", "                    sg_partners[atom].append(partner)\n", "silent"),  # equivalent within the property's domain: each atom still finds its partner on its own turn (only the three-sulfur case differs)
    ("limit-3A", "config.py", "BONDED_SS_LIMIT = 2.5", "BONDED_SS_LIMIT = 3.0", "fire"),
    ("gt-compare", "biomolecule.py", "                if dist < BONDED_SS_LIMIT:", "                if dist > BONDED_SS_LIMIT:", "fire"),
    ("same-chain-only", "biomolecule.py", "                if atom == partner or sg_partners[atom] != []:\n                    continue",
     "                if atom == partner or sg_partners[atom] != []:\n                    continue\n                if atom.chain_id != partner.chain_id:\n                    continue", "fire"),
    ("patch-first-only", "biomolecule.py", "            if numpartners == 1:\n                partner = sg_partners[atom][0]", "            if numpartners == 1 and not partner_done:\n                partner_done = True\n                partner = sg_partners[atom][0]", "fire"),
    ("hg-always-skipped", "biomolecule.py", "residue.ss_bonded and atomname == \"HG\"", "residue.ss_bonded or atomname == \"HG\"", "fire"),
    ("cys-flag-ignored-equivalent", "aa.py", 'if "CYX" in self.patches or self.name == "CYX" or self.ss_bonded:', 'if "CYX" in self.patches or self.name == "CYX":', "silent"),
    ("cyx-removes-hb", "dat/PATCHES.xml", "    <name>CYX</name>\n    <applyto>CYS</applyto>\n    <remove>HG</remove>", "    <name>CYX</name>\n    <applyto>CYS</applyto>\n    <remove>HG</remove>\n    <remove>HB3</remove>", "fire"),
    ("le-compare", "biomolecule.py", "                if dist < BONDED_SS_LIMIT:", "                if dist <= BONDED_SS_LIMIT:", "silent"),
    ("literal-limit", "biomolecule.py", "                if dist < BONDED_SS_LIMIT:", "                if dist < 2.5:", "silent"),
    ("partner-is-self", "biomolecule.py", "                res1.ss_bonded_partner = partner\n", "                res1.ss_bonded_partner = atom\n", "fire"),
]
