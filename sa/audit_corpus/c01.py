MUTATIONS = [
    ("and-to-or", "biomolecule.py", "if charge is not None and radius is not None:", "if charge is not None or radius is not None:", "fire"),
    ("default-on-miss", "biomolecule.py", "                else:\n                    misslist.append(atom)\n",
     "                else:\n                    atom.ffcharge = 0.0\n                    misslist.append(atom)\n", "fire"),
    ("miss-also-hit", "biomolecule.py", "                else:\n                    misslist.append(atom)\n",
     "                else:\n                    misslist.append(atom)\n                    hitlist.append(atom)\n", "fire"),
    ("nested-if-twin", "biomolecule.py",
     '''                if charge is not None and radius is not None:
                    atom.ffcharge = charge
                    atom.radius = radius
                    hitlist.append(atom)
                else:
                    misslist.append(atom)
''',
     '''                if charge is not None:
                    if radius is not None:
                        atom.ffcharge = charge
                        atom.radius = radius
                        hitlist.append(atom)
                    else:
                        misslist.append(atom)
                else:
                    misslist.append(atom)
''', "silent"),
    ("scaled-charge", "biomolecule.py", "                    atom.ffcharge = charge\n", "                    atom.ffcharge = charge * 1.0001\n", "fire"),
    ("strip-prefix-on-miss", "forcefield.py",
     "        charge = None\n        radius = None\n        if resname in self.map:\n            resid = self.map[resname]\n            if resid.has_atom(atomname):\n                atom = resid.atoms[atomname]\n                charge = atom.charge",
     "        charge = None\n        radius = None\n        if resname not in self.map:\n            resname = resname.lstrip('NC')\n        if resname in self.map:\n            resid = self.map[resname]\n            if resid.has_atom(atomname):\n                atom = resid.atoms[atomname]\n                charge = atom.charge", "fire"),
    ("swap-columns", "forcefield.py", "                        charge = float(fields[2])\n                        radius = float(fields[3])",
     "                        charge = float(fields[3])\n                        radius = float(fields[2])", "fire"),
    ("match-to-search", "forcefield.py", "regexp = re.compile(regname).match(name)", "regexp = re.compile(regname).search(name)", "fire"),
    ("drop-dollar", "forcefield.py", '        regname += "$"\n', '', "fire"),
    ("drop-nucleic-from-set_states", "biomolecule.py", "            if isinstance(residue, (aa.Amino, na.Nucleic)):\n                residue.set_state()",
     "            if isinstance(residue, aa.Amino):\n                residue.set_state()", "fire"),
    ("swap-NC-prefix", "aa.py", '                self.ffname = f"N{self.ffname}"\n        elif self.is_c_term:\n            if "NEUTRAL-CTERM" in self.patches:\n                self.ffname = f"NEUTRAL-C{self.ffname}"\n            else:\n                self.ffname = f"C{self.ffname}"\n\n    def rebuild_tetrahedral',
     '                self.ffname = f"C{self.ffname}"\n        elif self.is_c_term:\n            if "NEUTRAL-CTERM" in self.patches:\n                self.ffname = f"NEUTRAL-C{self.ffname}"\n            else:\n                self.ffname = f"N{self.ffname}"\n\n    def rebuild_tetrahedral', "fire"),
    ("prefix-in-variable", "aa.py", '            else:\n                self.ffname = f"N{self.ffname}"\n        elif self.is_c_term:\n            if "NEUTRAL-CTERM" in self.patches:\n                self.ffname = f"NEUTRAL-C{self.ffname}"\n            else:\n                self.ffname = f"C{self.ffname}"\n\n    def rebuild_tetrahedral',
     '            else:\n                prefix = "N"\n                self.ffname = prefix + self.ffname\n        elif self.is_c_term:\n            if "NEUTRAL-CTERM" in self.patches:\n                self.ffname = f"NEUTRAL-C{self.ffname}"\n            else:\n                self.ffname = f"C{self.ffname}"\n\n    def rebuild_tetrahedral', "silent"),
    ("new-radius-writer", "debump.py", "        self.biomolecule = biomolecule\n", "        self.biomolecule = biomolecule\n        for a_ in biomolecule.atoms:\n            a_.radius = 1.5\n", "fire"),
    ("ffname-for-amino-only", "biomolecule.py",
     "        hitlist = []\n        for residue in self.residues:\n            if isinstance(residue, (aa.Amino, aa.WAT, na.Nucleic)):\n                resname = residue.ffname",
     "        hitlist = []\n        for residue in self.residues:\n            if isinstance(residue, (aa.Amino, aa.WAT)):\n                resname = residue.ffname", "fire"),
    ("local-alias-key", "forcefield.py", "        charge = None\n        radius = None\n        if resname in self.map:\n            resid = self.map[resname]\n            if resid.has_atom(atomname):\n                atom = resid.atoms[atomname]\n                charge = atom.charge",
     "        charge = None\n        radius = None\n        if resname in self.map:\n            resid = self.map[resname]\n            if atomname in resid.atoms:\n                atom = resid.atoms[atomname]\n                charge = atom.charge", "silent"),
    ("copy-only-heavy", "forcefield.py", "            for atomname in fromobj.atoms:\n                map_[toname].atoms[atomname] = fromobj.atoms[atomname]",
     "            for atomname in fromobj.atoms:\n                if atomname.startswith('H'):\n                    continue\n                map_[toname].atoms[atomname] = fromobj.atoms[atomname]", "fire"),
]
