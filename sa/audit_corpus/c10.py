_FIRST_ICODE = '''                    # 28 - 30
                    line += " " * 3
                    # 31 - 38 X Coords
                    line += " " * (
                        8 - len(str(atoms.get_value("Cartn_x", i)))
                    ) + str(atoms.get_value("Cartn_x", i))
                    # 39 - 46 Y Coords
                    line += " " * (
                        8 - len(str(atoms.get_value("Cartn_y", i)))
                    ) + str(atoms.get_value("Cartn_y", i))
                    # 47 - 54 Z Coords
                    line += " " * (
                        8 - len(str(atoms.get_value("Cartn_z", i)))
                    ) + str(atoms.get_value("Cartn_z", i))
                    # 55 - 60 OCCUPANCY
                    line += " " * (
                        6 - len(str(atoms.get_value("occupancy", i)))
                    ) + str(atoms.get_value("occupancy", i))
                    # 61 - 66 TEMP FACTOR
                    line += " " * (
                        6 - len(str(atoms.get_value("B_iso_or_equiv", i)))
                    ) + str(atoms.get_value("B_iso_or_equiv", i))
                    # 67 - 76
                    line += " " * 10
                    # 77 - 78 ELEMENT SYMBOL
                    line += " " * (
                        2 - len(atoms.get_value("type_symbol", i))
                    ) + atoms.get_value("type_symbol", i)
                    # 79 - 80 CHARGE OF ATOM
                    charge = atoms.get_value("pdbx_formal_charge", i)
                    if charge in MISSING_VALUES:
                        line += " " * 2
                    else:
                        line += " " * (2 - len(str(charge))) + str(charge)
                    pdb_arr.append(pdb.ATOM(line))'''
MUTATIONS = [
    ("one-copy-two-blanks", "cif.py", _FIRST_ICODE, _FIRST_ICODE.replace('line += " " * 3', 'line += " " * 2', 1), "fire"),
    ("literal-blanks", "cif.py", _FIRST_ICODE, _FIRST_ICODE.replace('line += " " * 3', 'line += "   "', 1), "silent"),
    ("markers-without-none", "cif.py", 'MISSING_VALUES = [".", "?", "", None]', 'MISSING_VALUES = [".", "?", ""]', "fire"),
    ("markers-dot-only", "cif.py", 'MISSING_VALUES = [".", "?", "", None]', 'MISSING_VALUES = ["."]', "fire"),
    ("markers-tuple", "cif.py", 'MISSING_VALUES = [".", "?", "", None]', 'MISSING_VALUES = (".", "?", "", None)', "silent"),
    ("charge-discarded-one-copy", "cif.py", _FIRST_ICODE, _FIRST_ICODE.replace('line += " " * (2 - len(str(charge))) + str(charge)', 'str(atoms.get_value("pdbx_formal_charge", i))', 1), "fire"),
    ("x-width-7-one-copy", "cif.py", _FIRST_ICODE, _FIRST_ICODE.replace('8 - len(str(atoms.get_value("Cartn_x", i)))', '7 - len(str(atoms.get_value("Cartn_x", i)))', 1), "fire"),
    ("label-seq-id", "cif.py", _FIRST_ICODE, _FIRST_ICODE, "silent"),
    ("is-cif-steers-model", "main.py", '    _LOGGER.info("Applying force field to biomolecule states.")\n    biomolecule.set_states()',
     '    _LOGGER.info("Applying force field to biomolecule states.")\n    if is_cif:\n        biomolecule.remove_hydrogens()\n    biomolecule.set_states()', "fire"),
    ("suffix-case-sensitive", "io.py", 'if path.suffix.lower() == ".cif":', 'if path.suffix == ".cif":', "fire"),
    ("suffix-endswith", "io.py", 'if path.suffix.lower() == ".cif":', 'if path.name.lower().endswith(".cif"):', "silent"),
    ("suffix-substring", "io.py", 'if path.suffix.lower() == ".cif":', 'if ".cif" in str(path).lower():', "fire"),
    ("flag-computed-first", "io.py", '    is_cif = False\n    if path.suffix.lower() == ".cif":\n        pdblist, errlist = cif.read_cif(input_file)\n        is_cif = True',
     '    is_cif = path.suffix.lower() == ".cif"\n    if is_cif:\n        pdblist, errlist = cif.read_cif(input_file)', "silent"),
    ("flag-not-set", "io.py", '        pdblist, errlist = cif.read_cif(input_file)\n        is_cif = True', '        pdblist, errlist = cif.read_cif(input_file)', "fire"),
    ("cif-records-dropped-on-errors", "io.py", '        _LOGGER.error(errlist)\n    return pdblist, is_cif',
     '        _LOGGER.error(errlist)\n        if is_cif:\n            pdblist = pdblist[:-1]\n    return pdblist, is_cif', "fire"),
]
MUTATIONS = [m for m in MUTATIONS if m[0] != "label-seq-id"]
