"""Seeded breaks / benign twins for C02 (name, file relative to pdb2pqr/, old, new, expectation)."""
MUTATIONS = [
    ("dat-charge-typo", "dat/AMBER.DAT", "ASH	CB	-0.031600", "ASH	CB	-0.131600", "fire"),
    ("dat-reorder-comment", "dat/AMBER.DAT", "ASH	N	-0.415700	1.8240	N\n", "# a comment\nASH	N	-0.415700	1.8240	N\n", "silent"),
    ("both-nterm-patches", "biomolecule.py",
     '                self.apply_patch("NTERM", res0)\n',
     '                self.apply_patch("NTERM", res0)\n                self.apply_patch("NEUTRAL-NTERM", res0)\n', "fire"),
    ("cterm-dropped-for-last", "biomolecule.py",
     '''            if neutralc:
                self.apply_patch("NEUTRAL-CTERM", reslast)
            else:
                self.apply_patch("CTERM", reslast)''',
     '''            if neutralc:
                self.apply_patch("NEUTRAL-CTERM", reslast)''', "fire"),
    ("cyclic-threshold-2A", "biomolecule.py", "if dist < 1.35:", "if dist < 2.0:", "fire"),
    ("raise-dropped", "main.py", "    if charge_err:\n        raise ValueError(charge_err)\n",
     "    if charge_err:\n        _LOGGER.warning(charge_err)\n", "fire"),
    ("tolerance-widened", "config.py", "CHARGE_ERROR = 1e-3", "CHARGE_ERROR = 0.6", "fire"),
    ("sum-subset", "main.py", "    for residue in biomolecule.residues:\n        charge = residue.charge\n",
     "    for residue in biomolecule.residues[1:]:\n        charge = residue.charge\n", "fire"),
    ("tolerance-inlined", "utilities.py", "def noninteger_charge(charge, error_tol=CHARGE_ERROR)",
     "def noninteger_charge(charge, error_tol=0.001)", "silent"),
    ("patch-name-in-variable", "biomolecule.py",
     '''            if neutralc:
                self.apply_patch("NEUTRAL-CTERM", reslast)
            else:
                self.apply_patch("CTERM", reslast)''',
     '''            cpatch = "NEUTRAL-CTERM" if neutralc else "CTERM"
            self.apply_patch(cpatch, reslast)''', "silent"),
]
