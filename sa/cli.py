"""vcheck -- run the rule set of one property against $VERIF_REPO (default /repo)."""
from __future__ import annotations

import argparse
import importlib
import json
import os
import sys
import traceback

from .core import AnalysisError, Program
from .report import VERIF, Report, finish

PROPS = [f"C{i:02d}" for i in range(1, 19)]


def run_one(prop: str, tier: str) -> int:
    try:
        mod = importlib.import_module(f"sa.checks.{prop.lower()}")
    except ModuleNotFoundError:
        print(f"ANALYSIS-ERROR property={prop} no check module (property not claimed)")
        return 2
    try:
        prog = Program()
        rep = Report(prop, tier)
        rep.analysed = {"repo": str(prog.root), "modules": len(prog.modules), "functions": len(prog.funcs),
                        "classes": len(prog.classes), "source_digest": prog.digest()}
        try:
            mod.check(prog, rep)
        except AnalysisError as exc:
            if not any(not ob.ok for r in rep.rules for ob in r.obs):
                raise
            rep.deferred.append(str(exc))  # violations found before the analysis broke off are still reported
            if rep.rules and not rep.rules[-1].obs:
                rep.rules.pop()
        renamed = {f"{rel}::{q}": m for rel, mo in prog.modules.items() for q, m in getattr(mo, "alpha", {}).items()}
        if getattr(prog, "unextracted", None):
            rep.analysed["helpers_inlined"] = {"note": "new single-use helpers spliced back into their only caller before analysis (alpha.unextract)",
                                               "helpers": [f"{rel}::{q}" for rel, q in prog.unextracted]}
        if renamed:
            rep.analysed["alpha_normalised"] = {"note": "local variables renamed towards the reference naming before analysis "
                                                "(alpha-equivalent program)", "functions": renamed}
        code = finish(rep)
        if tier == "thorough" and not os.environ.get("VERIF_EVIDENCE_DIR"):
            # wider exploration: the self-audit re-runs the rule set on scratch copies carrying one seeded break or benign
            # twin each; it never changes the verdict on the tree under analysis
            from . import audit
            audit.run(prop, mod, rep, verbose=False)
        return code
    except AnalysisError as exc:
        print(f"ANALYSIS-ERROR property={prop} {exc}")
        return 2
    except Exception:  # noqa: BLE001 -- a crash of the analyser is never a verdict
        tb = traceback.format_exc()
        print(f"ANALYSIS-ERROR property={prop} internal error in the analyser:\n{tb}")
        return 2


def main(argv=None) -> int:
    ap = argparse.ArgumentParser(prog="vcheck")
    ap.add_argument("prop", help="C01..C18, 'all', or 'show'")
    ap.add_argument("path", nargs="?")
    ap.add_argument("--tier", default=os.environ.get("VERIF_TIER") or "quick", choices=["quick", "thorough"])
    args = ap.parse_args(argv)
    os.chdir(VERIF)
    if args.prop == "show":
        print(json.dumps(json.load(open(args.path)), indent=1))
        return 0
    if args.prop == "audit":
        from . import audit
        audit.run(args.path.upper())
        return 0
    if args.prop == "all":
        worst = 0
        for p in PROPS:
            if (VERIF / "sa" / "checks" / f"{p.lower()}.py").exists():
                worst = max(worst, run_one(p, args.tier))
        return worst
    return run_one(args.prop.upper(), args.tier)


if __name__ == "__main__":
    sys.exit(main())
