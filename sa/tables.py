"""E4 table model: independent loaders for the XML topology, the patch language and the
.DAT/.names force-field tables, written from docs/source/formats/{dat,xml-names}.rst.

Validated at development time against the real loaders (0 differences in residues, atoms,
bonds, dihedrals, altnames, charges, radii for all six force fields); no check calls the
real loaders.
"""
from __future__ import annotations

import copy
import re
import xml.etree.ElementTree as ET
from collections import OrderedDict
from pathlib import Path

from .core import AnalysisError, repo_root

FFS = ["amber", "charmm", "parse", "tyl06", "peoepb", "swanson"]
AMINO = ["ALA", "ARG", "ASN", "ASP", "CYS", "GLN", "GLU", "GLY", "HIS", "ILE", "LEU", "LYS", "MET", "PHE", "PRO",
         "SER", "THR", "TRP", "TYR", "VAL"]
NUCLEIC = ["DA", "DC", "DG", "DT", "RA", "RC", "RG", "RU"]


class RefAtom:
    def __init__(self, name, xyz, bonds, altnames):
        self.name = name
        self.xyz = xyz
        self.bonds = list(bonds)
        self.altnames = altnames

    @property
    def is_h(self):
        return self.name[0] == "H"


class Ref:
    def __init__(self, name):
        self.name = name
        self.atoms: "OrderedDict[str, RefAtom]" = OrderedDict()
        self.dihedrals: list[str] = []
        self.altnames: dict[str, str] = {}
        self.duplicates: list[str] = []


class Patch:
    name = applyto = newname = ""


def _atom(a):
    def f(k):
        t = a.findtext(k)
        return float(t) if t is not None else 0.0

    name = a.findtext("name")
    if name is None:
        raise AnalysisError("table model: <atom> without <name>")
    return RefAtom(name.strip(), (f("x"), f("y"), f("z")), [b.text.strip() for b in a.findall("bond")],
                   [x.text.strip() for x in a.findall("altname")])


def _parse(path: Path):
    if not path.exists():
        raise AnalysisError(f"data table {path} not found")
    try:
        return ET.parse(path).getroot()
    except ET.ParseError as exc:
        raise AnalysisError(f"cannot parse {path}: {exc}") from exc


def load_defs(path: Path):
    out = OrderedDict()
    for r in _parse(path).iter("residue"):
        ref = Ref(r.findtext("name").strip())
        for a in r.findall("atom"):
            at = _atom(a)
            if at.name in ref.atoms:
                ref.duplicates.append(at.name)
            ref.atoms[at.name] = at
            for alt in at.altnames:
                ref.altnames[alt] = at.name
        ref.dihedrals = [d.text.strip() for d in r.findall("dihedral")]
        out[ref.name] = ref
    return out


def load_patches(path: Path):
    out = []
    for p in _parse(path).iter("patch"):
        P = Patch()
        P.name = p.findtext("name").strip()
        P.applyto = (p.findtext("applyto") or "").strip()
        P.newname = (p.findtext("newname") or "").strip()
        P.atoms = OrderedDict()
        P.altnames = {}
        P.duplicates = []
        for a in p.iter("atom"):
            at = _atom(a)
            if at.name in P.atoms:
                P.duplicates.append(at.name)
            P.atoms[at.name] = at
            for alt in at.altnames:
                P.altnames[alt] = at.name
        P.remove = [r.text.strip() for r in p.iter("remove")]
        P.dihedrals = [d.text.strip() for d in p.iter("dihedral")]
        out.append(P)
    return out


def apply_patch(ref: Ref, P: Patch) -> Ref:
    """The patch language: add atoms (+ back-bonds), remove atoms (+ their bonds), add dihedrals."""
    ref = copy.deepcopy(ref)
    for an, a in P.atoms.items():
        ref.atoms[an] = copy.deepcopy(a)
        for b in a.bonds:
            if b in ref.atoms and an not in ref.atoms[b].bonds:
                ref.atoms[b].bonds.append(an)
    ref.altnames.update(P.altnames)
    for r in P.remove:
        if r in ref.atoms:
            for b in ref.atoms[r].bonds:
                if b in ref.atoms and r in ref.atoms[b].bonds:
                    ref.atoms[b].bonds.remove(r)
            del ref.atoms[r]
    ref.dihedrals = ref.dihedrals + P.dihedrals
    return ref


class FFAtom:
    __slots__ = ("name", "charge", "radius", "resname", "group", "line")

    def __init__(self, name, q, r, res, grp="", line=0):
        self.name = name
        self.charge = q
        self.radius = r
        self.resname = res
        self.group = grp
        self.line = line


class Tables:
    """All tables of one tree."""

    def __init__(self, root: Path | None = None):
        self.root = Path(root) if root else repo_root()
        self.dat = self.root / "pdb2pqr" / "dat"
        self.aa = load_defs(self.dat / "AA.xml")
        self.na = load_defs(self.dat / "NA.xml")
        self.patch_list = load_patches(self.dat / "PATCHES.xml")
        self.map: "OrderedDict[str, Ref]" = OrderedDict()
        self.map.update(self.aa)
        self.map.update(self.na)
        self.patches: "OrderedDict[str, Patch]" = OrderedDict()
        self.patch_newnames: dict[str, str] = {}  # generated reference name -> patch name
        for P in self.patch_list:
            if P.newname != "":
                rx = re.compile(P.applyto)
                for name in list(self.map.keys()):
                    if rx.match(name):
                        nn = P.newname.replace("*", name)
                        self.map[nn] = apply_patch(self.map[name], P)
                        self.patches[nn] = P
                        self.patch_newnames[nn] = P.name
            if P.applyto in self.map:
                self.map[P.name] = apply_patch(self.map[P.applyto], P)
            self.patches[P.name] = P
        self._ff: dict[str, OrderedDict] = {}

    # ------------------------------------------------------------------ force fields
    def ff(self, name: str):
        if name not in self._ff:
            self._ff[name] = self._load_ff(name)
        return self._ff[name]

    def _load_ff(self, ff: str):
        M: "OrderedDict[str, OrderedDict[str, FFAtom]]" = OrderedDict()
        path = self.dat / f"{ff.upper()}.DAT"
        if not path.exists():
            raise AnalysisError(f"force-field table {path} not found")
        for ln, line in enumerate(path.read_text(encoding="utf-8").splitlines(), 1):
            if line.startswith("#"):
                continue
            f = line.split()
            if not f:
                continue
            if len(f) < 4:
                raise AnalysisError(f"{path.name}:{ln}: fewer than four columns")
            try:
                q, r = float(f[2]), float(f[3])
            except ValueError as exc:
                raise AnalysisError(f"{path.name}:{ln}: {exc}") from exc
            M.setdefault(f[0], OrderedDict())[f[1]] = FFAtom(f[1], q, r, f[0], f[4] if len(f) > 4 else "", ln)

        def matching(regname, mp):
            rg = re.compile(regname + "$")
            return [m for m in (rg.match(n) for n in mp) if m]

        def upd_res(to, frm):
            if to not in M:
                M[to] = OrderedDict()
            for an, a in M[frm].items():
                M[to][an] = a

        root = _parse(self.dat / f"{ff.upper()}.names")
        for r in root.findall("residue"):
            new = r.findtext("name").strip()
            old = r.findtext("useresname")
            old = old.strip() if old else None
            amap = OrderedDict()
            for a in r.findall("atom"):
                amap[a.findtext("name").strip()] = a.findtext("useatomname").strip()
            if old is not None:
                newlist = matching(new, self.map)
                if "$group" in old:
                    for mt in newlist:
                        frm = old.replace("$group", mt.group(1))
                        if frm in M:
                            upd_res(mt.string, frm)
                else:
                    for mt in newlist:
                        if old in M:
                            upd_res(mt.string, old)
            if not amap:
                continue
            for mt in matching(new, M):
                res = M[mt.string]
                for nn, on in amap.items():
                    if on in res:
                        res[nn] = res[on]
        return M

    # ------------------------------------------------------------------ topology helpers
    def heavy_neighbours(self, ref: Ref, atom: str):
        return [b for b in ref.atoms[atom].bonds if b in ref.atoms and not b.startswith("H")] if atom in ref.atoms else []

    def patched(self, resname: str, patch_names) -> Ref:
        if resname not in self.map:
            raise AnalysisError(f"table model: residue {resname} not in AA.xml/NA.xml")
        ref = self.map[resname]
        for p in patch_names:
            if p not in self.patches:
                raise AnalysisError(f"table model: patch {p} not in PATCHES.xml")
            ref = apply_patch(ref, self.patches[p])
        return ref


def bond_graph(ref: Ref):
    """Undirected adjacency over atoms present in the reference (pseudo-atoms dropped)."""
    adj = {a: set() for a in ref.atoms}
    for a, at in ref.atoms.items():
        for b in at.bonds:
            if b in ref.atoms:
                adj[a].add(b)
                adj[b].add(a)
    return adj
