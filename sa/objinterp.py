"""Abstract execution of small repository classes on object models (built on guards.Interp).

Objects are dictionaries carrying ``__class__``; methods are found through the program model's MRO, bodies are
interpreted statement by statement (nothing of the repository is imported or run).  Code outside the interpretable
subset raises AnalysisError.  Used where a property is about the joint behaviour of a few short methods (SAX handlers,
container classes) and a rule over their text would be brittle.
"""
from __future__ import annotations

import ast
import re

from .core import AnalysisError, U
from .guards import Flow, ForkInterp, Interp, Obj, Unknown, _NeedDecision


class Vec(tuple):
    """Model of a small numeric array: element-wise + and -, scalar * and /."""

    def __add__(self, other):
        return Vec(a + b for a, b in zip(self, other))

    def __sub__(self, other):
        return Vec(a - b for a, b in zip(self, other))

    def __mul__(self, k):
        return Vec(a * k for a in self)

    __rmul__ = __mul__

    def __truediv__(self, k):
        return Vec(a / k for a in self)

    def norm(self):
        import math
        return math.sqrt(sum(a * a for a in self))


class Match(dict):
    """Model of an re.Match object."""


class FuncRef:
    """A repository function (or bound method) used as a value: calling it interprets the function."""

    def __init__(self, runner, finfo, selfobj=None):
        self.runner, self.finfo, self.selfobj = runner, finfo, selfobj

    def __call__(self, *args, **kw):
        if self.selfobj is not None:
            return self.runner.run_function(self.finfo, self.selfobj, args, kw)
        decos = {U(d) for d in self.finfo.node.decorator_list}
        plain = self.finfo.cls is None or "staticmethod" in decos
        if plain:
            return self.runner.run_function(self.finfo, None, args, kw, plain=True)
        return self.runner.run_function(self.finfo, args[0], args[1:], kw)

    def __deepcopy__(self, memo):
        return self

    def __repr__(self):
        return f"<function {self.finfo.key}>"


class Closure:
    """A function defined inside a function: called with the defining environment (by reference) extended by its parameters."""

    def __init__(self, runner, node, interp):
        self.runner, self.node, self.interp = runner, node, interp

    def __call__(self, *args, **kw):
        node = self.node
        params = [a.arg for a in node.args.args]
        env = self.interp.env  # shared: assignments to free variables are not modelled (nonlocal is rejected below)
        if any(isinstance(n, (ast.Nonlocal, ast.Global)) for n in ast.walk(node)):
            raise AnalysisError("object model: nested function with nonlocal/global")
        local = dict(env)
        defaults = node.args.defaults
        for i, p_ in enumerate(params):
            if i < len(args):
                local[p_] = args[i]
            elif p_ in kw:
                local[p_] = kw[p_]
            else:
                j = i - (len(params) - len(defaults))
                if j < 0:
                    raise AnalysisError(f"object model: missing argument {p_!r} for nested function {node.name}")
                local[p_] = self.interp.ev(defaults[j])
        it = Interp(local, call_hook=self.runner.hook, loop_hook=self.runner.loop, strict=True, name_hook=self.runner.names, attr_hook=self.runner.attrs)
        it.str_hook, it.def_hook = self.runner.text_of, self.runner.closure
        body = node.body if isinstance(node, ast.FunctionDef) else [ast.Return(value=node.body)]
        try:
            it.run(body)
        except Flow as fl:
            if fl.kind == "return":
                return fl.value
            raise
        return None

    def __deepcopy__(self, memo):
        return self


class GenModel:
    """A generator object: the generator function's body is interpreted in a thread of its own that runs only between a next() and the
    following yield (strict hand-over), so the interleaving with the consumer is the one Python has."""

    def __init__(self, runner, finfo, selfobj, args, kw, plain):
        import threading
        self._go, self._got = threading.Semaphore(0), threading.Semaphore(0)
        self._value, self._exc, self._done, self._started = None, None, False, False
        self._runner = runner

        def body():
            self._go.acquire()
            try:
                runner._yield_stack.append(self)
                try:
                    runner.run_function(finfo, selfobj, args, kw, plain=plain, _as_generator=True)
                finally:
                    runner._yield_stack.pop()
            except BaseException as exc:  # noqa: BLE001  (handed to the consumer)
                self._exc = exc
            self._done = True
            self._got.release()

        self._thread = threading.Thread(target=body, daemon=True)

    def emit(self, value):
        self._value = value
        self._got.release()
        self._go.acquire()

    def __iter__(self):
        return self

    def __next__(self):
        if self._done:
            raise StopIteration
        if not self._started:
            self._started = True
            self._thread.start()
        depth = self._runner.depth
        self._go.release()
        self._got.acquire()
        self._runner.depth = depth
        if self._done:
            if self._exc is not None:
                exc, self._exc = self._exc, None
                raise exc
            raise StopIteration
        return self._value

    def __deepcopy__(self, memo):
        return self


class CounterModel(dict):
    """Model of collections.Counter: a mapping whose missing keys count as 0."""

    def __missing__(self, key):
        return 0

    def update(self, iterable=(), **kw):  # noqa: A003
        for k in (iterable.items() if isinstance(iterable, dict) else iterable):
            if isinstance(iterable, dict):
                self[k[0]] = self[k[0]] + k[1]
            else:
                self[k] = self[k] + 1


class DequeModel(list):
    """Model of collections.deque (unbounded): a list with the operations at the left end."""

    def popleft(self):
        return self.pop(0)

    def appendleft(self, x):
        self.insert(0, x)

    def extendleft(self, xs):
        for x in xs:
            self.insert(0, x)

    def rotate(self, n=1):
        if self:
            n %= len(self)
            self[:] = self[-n:] + self[:-n]


class DefaultDictModel(dict):
    """Model of collections.defaultdict with a builtin factory (list, dict, set, int, float, str)."""

    def __init__(self, factory, *a):
        super().__init__(*a)
        self.factory = factory

    def __missing__(self, key):
        if self.factory is None:
            raise KeyError(key)
        self[key] = self.factory()
        return self[key]

    def __deepcopy__(self, memo):
        import copy as _c
        new = DefaultDictModel(self.factory)
        memo[id(self)] = new
        for k, v in self.items():
            new[_c.deepcopy(k, memo)] = _c.deepcopy(v, memo)
        return new


class ObjRunner:
    def __init__(self, prog, rel, extra_hook=None, depth_limit=30, fork=False):
        self.fork = fork      # undetermined `if` tests (symbolic values) are explored both ways: see explore()
        self.oracle = {}
        self.prog = prog
        self.rel = rel
        self.extra_hook = extra_hook
        self.depth = 0
        self.depth_limit = depth_limit
        self.calls = []  # (class, method) executed, for the evidence
        self.module_state = {}
        self._yield_stack = []
        self._paths = None
        self._default_values = {}

    def explore(self, thunk, limit=64):
        """Run thunk() once per path through the undetermined tests it meets; thunk must build its own fresh model state.
        Yields (decisions, result)."""
        work = [{}]
        n = 0
        while work:
            n += 1
            if n > limit:
                raise AnalysisError(f"object model: more than {limit} paths through undetermined tests")
            dec = work.pop()
            self.oracle.clear()
            self.oracle.update(dec)
            self.module_state = {}
            try:
                res = thunk()
            except _NeedDecision as nd:
                work.append({**dec, nd.key: True})
                work.append({**dec, nd.key: False})
                continue
            yield dict(dec), res

    # ------------------------------------------------------------------ classes
    def cinfo(self, name):
        lst = [c for c in self.prog.classes_by_name.get(name, []) if c.module.rel == self.rel] or self.prog.classes_by_name.get(name, [])
        return lst[0] if lst else None

    def find(self, clsname, meth):
        c = self.cinfo(clsname)
        if c is None:
            return None
        return self.prog.find_method(c, meth)

    def is_instance(self, obj, clsname):
        if not isinstance(obj, dict) or "__class__" not in obj:
            return False
        c, want = self.cinfo(obj["__class__"]), self.cinfo(clsname)
        if c is None or want is None:
            return obj["__class__"] == clsname
        return self.prog.is_subclass(c, want)

    # ------------------------------------------------------------------ calls
    def new(self, clsname, *args, **kw):
        obj = Obj({"__class__": clsname})
        if self.find(clsname, "__init__") is not None:
            self.call(obj, "__init__", *args, **kw)
            return obj
        c = self.cinfo(clsname)
        fields = [(st.target.id, st.value) for k in (reversed(self.prog.mro(c)) if c is not None else []) for st in k.node.body
                  if isinstance(st, ast.AnnAssign) and isinstance(st.target, ast.Name)]
        record_like = c is not None and (any(U(b).split(".")[-1] == "NamedTuple" for k in self.prog.mro(c) for b in k.node.bases)
                                         or any(U(d).split("(")[0].split(".")[-1] == "dataclass" for d in c.node.decorator_list))
        if record_like and fields:
            # a record class (typing.NamedTuple, dataclass): positional and keyword arguments bind to the annotated fields in order
            if len(args) > len(fields) or any(k_ not in dict(fields) for k_ in kw):
                raise Flow("raise", f"TypeError({clsname}() got unexpected arguments)", c.node)
            for (name, default), val in zip(fields, args):
                obj[name] = val
            for name, default in fields[len(args):]:
                if name in kw:
                    obj[name] = kw[name]
                elif default is not None:
                    obj[name] = Interp(dict(self.module_env(c.module.rel)), name_hook=self.names, call_hook=self.hook).ev(default)
                else:
                    raise Flow("raise", f"TypeError({clsname}() missing argument {name!r})", c.node)
            obj["__fields__"] = [n_ for n_, _ in fields]
        elif args or kw:
            raise AnalysisError(f"object model: {clsname}(...) with arguments but no constructor in the repository")
        return obj

    def call(self, obj, meth, *args, **kw):
        clsname = obj["__class__"] if isinstance(obj, dict) and "__class__" in obj else None
        f = self.find(clsname, meth) if clsname else None
        if f is None:
            raise AnalysisError(f"object model: {clsname}.{meth} not found")
        return self.run_function(f, obj, args, kw)

    def module_env(self, rel):
        """Constants visible in module rel: its own and those it imports from sibling modules (one copy per runner, so that state
        kept in them is shared between the calls of one evaluation and not between evaluations)."""
        if rel not in self.module_state:
            import copy
            self.module_state[rel] = copy.deepcopy(self.prog.module_env(rel))
        return self.module_state[rel]

    def run_block(self, finfo, stmts, env):
        """Interpret a block of statements of function finfo with the given local environment; returns the final environment."""
        full = dict(env)
        for k, v in self.module_env(finfo.module.rel).items():
            full.setdefault(k, v)
        it = (ForkInterp(full, self.oracle, call_hook=self.hook, loop_hook=self.loop, strict=True, name_hook=self.names, attr_hook=self.attrs) if self.fork
              else Interp(full, call_hook=self.hook, loop_hook=self.loop, strict=True, name_hook=self.names, attr_hook=self.attrs))
        it.str_hook, it.def_hook = self.text_of, self.closure
        it.run(stmts)
        return it.env

    def call_function(self, rel, name, *args, **kw):
        return self.run_function(self.prog.func(rel, name), None, args, kw, plain=True)

    def run_function(self, f, selfobj, args, kw, plain=False, _as_generator=False):
        if not _as_generator and _is_generator(f.node):
            return GenModel(self, f, selfobj, tuple(args), dict(kw), plain)
        self.depth += 1
        if self.depth > self.depth_limit:
            raise AnalysisError(f"object model: call depth exceeded in {f.key}")
        try:
            node = f.node
            params = [a.arg for a in node.args.args]
            decos = {U(d) for d in node.decorator_list}
            env = {}
            if "staticmethod" in decos or plain:
                names = params
            else:
                env[params[0]] = selfobj if "classmethod" not in decos else {"__class__": selfobj["__class__"], "__is_class__": True}
                if "classmethod" not in decos and selfobj.get("__is_class__"):
                    raise AnalysisError(f"object model: instance method {f.key} called on the class")
                names = params[1:]
            defaults = node.args.defaults
            for i, p in enumerate(names):
                if i < len(args):
                    env[p] = args[i]
                elif p in kw:
                    env[p] = kw[p]
                else:
                    j = i - (len(names) - len(defaults))
                    if j < 0:
                        raise AnalysisError(f"object model: missing argument {p!r} for {f.key}")
                    # a default value is computed once, when the function is defined, and shared by all calls (of one evaluation)
                    ck = (f.key, p)
                    if ck not in self._default_values:
                        dit = Interp(dict(self.module_env(f.module.rel)), call_hook=self.hook, name_hook=self.names, attr_hook=self.attrs, strict=True)
                        try:
                            self._default_values[ck] = dit.ev(defaults[j])
                        except AnalysisError:
                            self._default_values[ck] = Interp(dict(self.module_env(f.module.rel))).ev(defaults[j])
                    env[p] = self._default_values[ck]
            for a, d in zip(node.args.kwonlyargs, node.args.kw_defaults):
                if a.arg in kw:
                    env[a.arg] = kw[a.arg]
                elif d is not None:
                    env[a.arg] = Interp(dict(self.module_env(f.module.rel))).ev(d)
                else:
                    raise AnalysisError(f"object model: missing keyword argument {a.arg!r} for {f.key}")
            self.calls.append(f.key)
            if f.cls is not None:
                env["__defining_class__"] = f.cls.name
            # module-level constants of the callee's module: one object per runner, so state kept in them is shared between calls
            for k, v in self.module_env(f.module.rel).items():
                env.setdefault(k, v)
            it = (ForkInterp(env, self.oracle, call_hook=self.hook, loop_hook=self.loop, strict=True, name_hook=self.names, attr_hook=self.attrs) if self.fork
                  else Interp(env, call_hook=self.hook, loop_hook=self.loop, strict=True, name_hook=self.names, attr_hook=self.attrs))
            it.str_hook, it.def_hook = self.text_of, self.closure
            if _as_generator:
                it.yield_hook = self._emit
            try:
                it.run(node.body)
            except Flow as fl:
                if fl.kind == "return":
                    return fl.value
                if fl.kind == "raise":
                    raise
                raise AnalysisError(f"object model: stray {fl.kind} in {f.key}") from fl
            return None
        finally:
            self.depth -= 1

    def closure(self, interp, node):
        return Closure(self, node, interp)

    def _emit(self, value):
        if not self._yield_stack:
            raise AnalysisError("object model: yield outside a generator evaluation")
        self._yield_stack[-1].emit(value)

    def eval_expr(self, rel, node, env):
        """Value of an expression standing at module level of rel (import-time evaluation of a constant)."""
        full = dict(env)
        it = Interp(full, call_hook=self.hook, loop_hook=self.loop, strict=True, name_hook=self.names, attr_hook=self.attrs)
        it.str_hook = self.text_of
        return it.ev(node)

    # ------------------------------------------------------------------ hooks
    _BUILTIN_TYPES = {"str": str, "int": int, "float": float, "list": list, "dict": dict, "tuple": tuple, "set": set, "bool": bool}

    def names(self, interp, node):
        """Class references: `Amino`, `aa.Amino` (module alias), builtin type names."""
        if isinstance(node, ast.Name):
            if node.id in interp.env:
                return NotImplemented
            if self.cinfo(node.id) is not None and any(c.module.rel == getattr(getattr(node, "_module", None), "rel", self.rel)
                                                         for c in self.prog.classes_by_name.get(node.id, [])):
                return self.class_ref(node.id)
            if node.id in self._BUILTIN_TYPES:
                return self._BUILTIN_TYPES[node.id]
            imp = self._imported_class(node, node.id)
            if imp is not None:
                return self.class_ref(imp)
            if node.id == "__file__":
                from .fsmodel import PKG_ROOT
                return f"{PKG_ROOT}/{getattr(getattr(node, '_module', None), 'rel', self.rel)}"
            if isinstance(node.ctx, ast.Load) and not (isinstance(getattr(node, "_parent", None), ast.Call) and node._parent.func is node):
                here = getattr(getattr(node, "_module", None), "rel", self.rel)
                if f"{here}::{node.id}" in self.prog.funcs:
                    return FuncRef(self, self.prog.funcs[f"{here}::{node.id}"])  # a repository function used as a value
                impf = self._imported_function(node, node.id)
                if impf is not None:
                    return FuncRef(self, impf)
                if node.id in ("len", "str", "int", "float", "abs", "min", "max", "sorted", "bool", "repr"):
                    return __builtins__[node.id] if isinstance(__builtins__, dict) else getattr(__builtins__, node.id)
            return NotImplemented
        if node.value.id == "string" and hasattr(__import__("string"), node.attr) and isinstance(getattr(__import__("string"), node.attr), str):
            return getattr(__import__("string"), node.attr)
        is_callee = isinstance(getattr(node, "_parent", None), ast.Call) and node._parent.func is node
        if node.value.id == "operator" and not is_callee and node.attr in ("lt", "le", "gt", "ge", "eq", "ne", "add", "sub", "mul", "truediv", "neg", "not_", "itemgetter", "attrgetter"):
            return getattr(__import__("operator"), node.attr)
        if node.value.id == "str" and "str" not in interp.env and not is_callee and hasattr(str, node.attr):
            return getattr(str, node.attr)
        if node.value.id == "math" and not is_callee and isinstance(getattr(__import__("math"), node.attr, None), float):
            return getattr(__import__("math"), node.attr)
        target_rel = self._module_alias(node, node.value.id)
        if target_rel is not None:
            mod = self.prog.modules[target_rel]
            if not is_callee and f"{target_rel}::{node.attr}" in self.prog.funcs:
                return FuncRef(self, self.prog.funcs[f"{target_rel}::{node.attr}"])  # module.function used as a value
            for st in mod.tree.body:
                if isinstance(st, ast.ClassDef) and st.name == node.attr:
                    return self.class_ref(node.attr, st)
                if isinstance(st, ast.Assign) and isinstance(st.value, ast.Name) and any(isinstance(t, ast.Name) and t.id == node.attr for t in st.targets):
                    if self.cinfo(st.value.id) is not None:
                        return self.class_ref(st.value.id)  # DA = ADE
        return NotImplemented

    def attrs(self, interp, base, attr, node):
        """@property methods of the modelled object's class."""
        cls = base.get("__class__") if isinstance(base, dict) else None
        if not isinstance(cls, str) or base.get("__is_class__"):
            return NotImplemented
        f = self.find(cls, attr)
        if f is not None and any(U(d) in ("property", "functools.cached_property", "cached_property") for d in f.node.decorator_list):
            return self.run_function(f, base, (), {})
        if f is not None and node is not None and not (isinstance(getattr(node, "_parent", None), ast.Call) and node._parent.func is node):
            return FuncRef(self, f, selfobj=base)  # a bound method used as a value
        # an attribute of the class (a constant assigned in the body of the class or of one of its bases)
        c = self.cinfo(cls)
        if c is not None and f is None:
            from .core import try_fold
            for k in self.prog.mro(c):
                stored = self.__dict__.get("_class_refs", {}).get((k.node.name, id(k.node)))
                if stored is not None and attr in stored and not attr.startswith("__"):
                    return stored[attr]  # a value stored on the class object earlier in this process
                for st in k.node.body:
                    tgt = st.targets[0] if isinstance(st, ast.Assign) and len(st.targets) == 1 else st.target if isinstance(st, ast.AnnAssign) else None
                    if isinstance(tgt, ast.Name) and tgt.id == attr and getattr(st, "value", None) is not None:
                        v = try_fold(st.value, self.module_env(k.module.rel))
                        if v is not None or (isinstance(st.value, ast.Constant) and st.value.value is None):
                            return v
        return NotImplemented

    def text_of(self, obj, kind, node):
        """str()/repr()/f-string text of a modelled object: the __str__ (else __repr__) its class defines, else a neutral placeholder."""
        cls = obj.get("__class__")
        if isinstance(cls, str) and not obj.get("__is_class__"):
            f = (self.find(cls, "__str__") if kind == "str" else None) or self.find(cls, "__repr__")
            if f is not None:
                return self.run_function(f, obj, (), {})
            if "__str__" in obj:
                return obj["__str__"]
        return f"<{cls} object>"

    def class_ref(self, name, node=None):
        """Model of a class object: its name and the constants assigned in its body."""
        from .core import try_fold
        cache = self.__dict__.setdefault("_class_refs", {})
        c = self.cinfo(name)
        node = node or (c.node if c is not None else None)
        ck = (name, id(node))
        if ck in cache:
            return cache[ck]  # one class object per process: a store on it (Class.attr = ...) is seen by every later call
        ref = Obj({"__class__": name, "__is_class__": True})
        if node is not None:
            for st in node.body:
                if isinstance(st, ast.Assign) and len(st.targets) == 1 and isinstance(st.targets[0], ast.Name):
                    v = try_fold(st.value)
                    if v is not None or (isinstance(st.value, ast.Constant) and st.value.value is None):
                        ref.setdefault(st.targets[0].id, v)
        cache[ck] = ref
        return ref

    def loop(self, interp, st):
        seq = interp.ev(st.iter)
        if isinstance(seq, Unknown):
            raise AnalysisError(f"object model: loop over undetermined sequence {U(st.iter)!r}")
        if isinstance(seq, dict) and "__class__" in seq:
            if callable(seq.get("__lines__")):
                seq = seq["__lines__"]()  # a file model: iteration yields the remaining lines
            else:
                raise AnalysisError(f"object model: loop over the object {U(st.iter)!r}")
        broke = False
        for item in (seq if isinstance(seq, GenModel) else list(seq)):
            interp.store(st.target, item, st)
            try:
                interp.run(st.body)
            except Flow as fl:
                if fl.kind == "break":
                    broke = True
                    break
                if fl.kind == "continue":
                    continue
                raise
        if not broke:
            interp.run(st.orelse)

    def hook(self, interp, call):
        name = U(call.func)
        if name in ("map", "filter") and len(call.args) == 2 and name not in interp.env:
            fn = self._callable(interp, call.args[0])
            seq = interp.ev(call.args[1])
            if isinstance(seq, Unknown):
                raise AnalysisError(f"object model: {name} over an undetermined sequence")
            return [fn(x) for x in list(seq)] if name == "map" else [x for x in list(seq) if fn(x)]
        if name == "iter" and len(call.args) == 2 and name not in interp.env and isinstance(call.args[0], ast.Lambda) and not call.args[0].args.args:
            sentinel = interp.ev(call.args[1])
            out = []
            while True:
                val = interp.ev(call.args[0].body)
                if isinstance(val, Unknown):
                    raise AnalysisError(f"object model: {U(call)[:60]!r} yields an undetermined value")
                if val == sentinel:
                    return out
                out.append(val)
                if len(out) > 100000:
                    raise AnalysisError(f"object model: {U(call)[:60]!r} does not reach its sentinel")
        if name == "isinstance" and len(call.args) == 2:
            args = [interp.ev(call.args[0])]
        else:
            args = []
            for a in call.args:
                if isinstance(a, ast.Starred):
                    seq = interp.ev(a.value)
                    if isinstance(seq, Unknown):
                        raise AnalysisError(f"object model: *{U(a.value)} is undetermined")
                    args.extend(list(seq))
                else:
                    args.append(interp.ev(a))
        kw = {k.arg: interp.ev(k.value) for k in call.keywords if k.arg}
        if self.extra_hook is not None:
            res = self.extra_hook(self, interp, call, args, kw)
            if res is not NotImplemented:
                return res
        if name == "isinstance" and len(call.args) == 2:
            second = interp.ev(call.args[1])
            classes = list(second) if isinstance(second, (tuple, list)) else [second]
            out = False
            for c in classes:
                if isinstance(c, type):
                    out = out or (isinstance(args[0], c) and not (isinstance(args[0], dict) and "__class__" in args[0]))
                elif isinstance(c, dict) and c.get("__is_class__"):
                    out = out or self.is_instance(args[0], c["__class__"])
                else:
                    raise AnalysisError(f"object model: isinstance against an undetermined class in {U(call)[:60]!r}")
            return out
        if name in ("getattr", "setattr", "hasattr") and name not in interp.env and len(args) >= 2 and isinstance(args[0], dict) \
                and "__class__" in args[0] and isinstance(args[1], str):
            obj, attr = args[0], args[1]
            if name == "setattr" and len(args) == 3:
                obj[attr] = args[2]
                return None
            if name in ("getattr", "hasattr"):
                val = self.attrs(interp, obj, attr, call) if attr not in obj else obj[attr]
                if val is NotImplemented:
                    if name == "hasattr":
                        return False
                    if len(args) == 3:
                        return args[2]
                    raise Flow("raise", f"AttributeError({attr!r})", call)
                return True if name == "hasattr" else val
        # regular expressions on model strings (the standard library's semantics, not repository code)
        if isinstance(call.func, ast.Name) and name not in interp.env and hasattr(__import__("math"), name) and args \
                and all(isinstance(a, (int, float)) for a in args) and self._from_math(call, name):
            try:
                return getattr(__import__("math"), name)(*args)
            except (ValueError, OverflowError, ZeroDivisionError) as exc:
                raise Flow("raise", f"{type(exc).__name__}({str(exc)!r})", call) from None
        if name.startswith("math.") and hasattr(__import__("math"), name[5:]) and args and all(isinstance(a, (int, float)) for a in args):
            try:
                return getattr(__import__("math"), name[5:])(*args)
            except (ValueError, OverflowError) as exc:
                raise Flow("raise", f"{type(exc).__name__}({str(exc)!r})", call) from None
        if name in ("np.array", "numpy.array", "np.asarray") and len(args) == 1 and isinstance(args[0], (list, tuple)) \
                and all(isinstance(x, (int, float)) for x in args[0]):
            return Vec(args[0])
        if name in ("np.linalg.norm", "numpy.linalg.norm") and len(args) == 1 and isinstance(args[0], Vec):
            return args[0].norm()
        if name in ("itertools.product", "product") and name not in interp.env and args and all(isinstance(a, (list, tuple, range)) for a in args):
            import itertools
            rep_ = kw.get("repeat", 1)
            return [list(t) for t in itertools.product(*args, repeat=rep_)]
        if name in ("re.compile",) and args and isinstance(args[0], str):
            return {"__class__": "re.Pattern", "pattern": args[0], "flags": args[1] if len(args) > 1 else 0}
        if name in ("re.match", "re.fullmatch", "re.search") and len(args) >= 2 and all(isinstance(a, str) for a in args[:2]):
            return self._match(name.split(".")[1], args[0], args[1])
        if isinstance(call.func, ast.Attribute) and isinstance(call.func.value, ast.Name) and call.func.value.id not in interp.env \
                and self.cinfo(call.func.value.id) is not None and self.find(call.func.value.id, call.func.attr) is not None:
            clsobj = {"__class__": call.func.value.id, "__is_class__": True}
            f_ = self.find(call.func.value.id, call.func.attr)
            decos_ = {U(d) for d in f_.node.decorator_list}
            if not decos_ & {"staticmethod", "classmethod"} and args and isinstance(args[0], dict) and "__class__" in args[0] and not args[0].get("__is_class__"):
                return self.run_function(f_, args[0], args[1:], kw)  # Base.method(self, ...): the explicit form of a call on the instance
            return self.run_function(f_, clsobj, args, kw)
        if isinstance(call.func, ast.Attribute) and isinstance(call.func.value, ast.Name) and call.func.value.id not in interp.env:
            target_rel = self._module_alias(call, call.func.value.id)
            if target_rel is not None and f"{target_rel}::{call.func.attr}" in self.prog.funcs:
                return self.run_function(self.prog.funcs[f"{target_rel}::{call.func.attr}"], None, args, kw, plain=True)
            if target_rel is not None and f"{target_rel}::{call.func.attr}" in self.prog.classes:
                return self.new(call.func.attr, *args, **kw)
        if isinstance(call.func, ast.Attribute) and U(call.func.value) == "super()":
            cur = self.cinfo(interp.env.get("__defining_class__", ""))
            selfobj = interp.env.get("self")
            if cur is not None and isinstance(selfobj, dict):
                for c in self.prog.mro(cur)[1:]:
                    if call.func.attr in c.methods:
                        return self.run_function(c.methods[call.func.attr], selfobj, args, kw)
            return None  # the base is outside the repository (object, sax.ContentHandler)
        if name.split(".")[0] == "itertools" and "itertools" not in interp.env and not kw.keys() - {"repeat", "r"}:
            import itertools as _it
            fn_ = name.split(".", 1)[1] if "." in name else ""
            me = self

            def seqs(xs):
                return [list(x) if isinstance(x, (list, tuple, range, str, dict, set, frozenset, GenModel)) or hasattr(x, "__next__") else None for x in xs]
            if fn_ == "count" and len(args) <= 2 and all(isinstance(a, int) for a in args):
                start, step = (list(args) + [0, 1][len(args):])[:2]
                return range(start, start + 100000 * (step or 1), step or 1)  # as far as any loop of the repository could ever count
            if fn_ in ("chain", "chain.from_iterable"):
                parts = seqs(args if fn_ == "chain" else list(args[0]))
                if None not in parts:
                    return [x for p_ in parts for x in p_]
            if fn_ == "islice" and len(args) >= 2 and None not in seqs(args[:1]):
                return list(_it.islice(seqs(args[:1])[0], *args[1:]))
            if fn_ in ("takewhile", "dropwhile", "filterfalse") and len(args) == 2 and callable(args[0]) and None not in seqs(args[1:]):
                pred = lambda x: me._apply(args[0], [x], {}, call)  # noqa: E731
                return list(getattr(_it, fn_)(pred, seqs(args[1:])[0]))
            if fn_ in ("zip_longest", "combinations", "permutations", "pairwise", "accumulate", "repeat") and None not in seqs(args[:1] if fn_ in ("combinations", "permutations", "repeat") else args):
                if fn_ == "repeat" and len(args) == 2:
                    return [args[0]] * args[1]
                if fn_ in ("combinations", "permutations"):
                    return [list(t) for t in getattr(_it, fn_)(seqs(args[:1])[0], *args[1:])]
                if fn_ in ("zip_longest", "pairwise"):
                    return [list(t) for t in getattr(_it, fn_)(*seqs(args), **({"fillvalue": kw["fillvalue"]} if "fillvalue" in kw else {}))]
        stdlib_recv = isinstance(call.func, ast.Attribute) and isinstance(call.func.value, ast.Name) and call.func.value.id not in interp.env and \
            call.func.value.id in ("operator", "functools", "itertools", "types", "collections", "pathlib")
        if isinstance(call.func, ast.Attribute) and not stdlib_recv:
            recv = interp.ev(call.func.value)
            attr = call.func.attr
            if isinstance(recv, dict) and recv.get("__class__") == "re.Pattern" and attr in ("match", "fullmatch", "search"):
                return self._match(attr, recv["pattern"], args[0])
            if isinstance(recv, Match):
                if attr == "group":
                    return recv["__m__"].group(*args)
                if attr == "groups":
                    return list(recv["__m__"].groups())
            if isinstance(recv, DequeModel) and attr in ("popleft", "appendleft", "extendleft", "rotate", "clear") and not any(isinstance(a, Unknown) for a in args):
                try:
                    return getattr(recv, attr)(*args)
                except IndexError:
                    raise Flow("raise", "IndexError('pop from an empty deque')", call) from None
            if isinstance(recv, list) and attr in ("index", "count", "copy", "sort", "reverse") and not any(isinstance(a, Unknown) for a in args):
                try:
                    return getattr(recv, attr)(*args, **kw)
                except (ValueError, TypeError) as exc:
                    raise Flow("raise", f"{type(exc).__name__}({str(exc)!r})", call) from None
            if isinstance(recv, (set, frozenset)) and attr in ("add", "discard", "remove", "difference", "union", "intersection", "update", "copy",
                                                              "issubset", "issuperset", "symmetric_difference", "difference_update", "clear", "pop"):
                try:
                    return getattr(recv, attr)(*[set(a) if isinstance(a, (list, tuple)) and attr not in ("add", "discard", "remove") else a for a in args])
                except (KeyError, TypeError) as exc:
                    raise Flow("raise", f"{type(exc).__name__}({str(exc)!r})", call) from None
            if isinstance(recv, str) and attr in ("isalpha", "isalnum", "isupper", "islower", "isnumeric", "isdecimal", "title", "capitalize", "swapcase",
                                                  "center", "ljust", "rjust", "zfill", "partition", "rpartition", "rsplit", "splitlines", "casefold", "removeprefix", "removesuffix",
                                                  "expandtabs", "istitle", "isidentifier", "isascii"):
                return getattr(recv, attr)(*args)
            if isinstance(recv, str) and attr in ("isspace", "find", "replace", "isdigit", "split", "join", "rstrip", "lstrip", "count", "index", "format"):
                return getattr(recv, attr)(*args)
            if isinstance(recv, dict) and "__class__" not in recv and attr in ("get", "keys", "values", "items", "setdefault", "pop", "update"):
                res = getattr(recv, attr)(*args)
                return list(res) if attr in ("keys", "values", "items") else res
            if isinstance(recv, dict) and "__class__" in recv and callable(recv.get(attr)) and not isinstance(recv.get(attr), dict):
                return self._apply(recv[attr], args, kw, call)  # a function stored in a field of the object
            if isinstance(recv, dict) and "__class__" in recv:
                if recv.get("__is_class__"):
                    f = self.find(recv["__class__"], attr)
                    if f is not None:
                        return self.run_function(f, recv, args, kw)
                f = self.find(recv["__class__"], attr)
                if f is not None:
                    return self.run_function(f, recv, args, kw)
                ci = self.cinfo(recv["__class__"])
                if ci is not None and attr not in recv and all(b in self.prog.classes_by_name or b == "object" for c_ in self.prog.mro(ci)
                                                                for b in (U(x) for x in c_.node.bases)):
                    # a repository class whose whole ancestry is in the repository: the method does not exist
                    raise Flow("raise", f"AttributeError({recv['__class__']!r} object has no attribute {attr!r})", call)
            if U(call.func.value).endswith("ContentHandler"):
                return None
        if isinstance(call.func, ast.Attribute) and isinstance(call.func.value, ast.Name) and call.func.value.id == "str" and "str" not in interp.env \
                and hasattr(str, call.func.attr) and args and isinstance(args[0], str):
            try:
                return getattr(str, call.func.attr)(*args, **kw)  # unbound form str.ljust(s, n)
            except (TypeError, ValueError) as exc:
                raise Flow("raise", f"{type(exc).__name__}({str(exc)!r})", call) from None
        if isinstance(call.func, ast.Name) and callable(interp.env.get(name)) and not isinstance(interp.env.get(name), dict):
            return self._apply(interp.env[name], args, kw, call)  # a function held in a variable (table dispatch, parameter)
        if isinstance(call.func, ast.Name) and isinstance(interp.env.get(name), dict) and interp.env[name].get("__is_class__") and name not in ("cls",):
            return self.new(interp.env[name]["__class__"], *args, **kw)  # a class held in a variable (klass = REGISTRY[name]; klass(line))
        if isinstance(call.func, ast.Name) and name not in interp.env:
            genv = self.module_env(getattr(getattr(call, "_module", None), "rel", self.rel))
            if callable(genv.get(name)) and not isinstance(genv.get(name), dict):
                return self._apply(genv[name], args, kw, call)
        if isinstance(call.func, ast.Subscript):
            fn_ = interp.ev(call.func)
            if callable(fn_) and not isinstance(fn_, dict):
                return self._apply(fn_, args, kw, call)  # TABLE[key](...)
            if isinstance(fn_, dict) and fn_.get("__is_class__"):
                return self.new(fn_["__class__"], *args, **kw)  # a registry of classes
        if isinstance(call.func, ast.Call):
            fn_ = interp.ev(call.func)
            if callable(fn_) and not isinstance(fn_, dict):
                return self._apply(fn_, args, kw, call)  # TABLE.get(key, default)(...)
        if name.startswith("operator.") and name[9:] not in ("methodcaller", "itemgetter", "attrgetter") and hasattr(__import__("operator"), name[9:]) and "operator" not in interp.env:
            return self._apply(getattr(__import__("operator"), name[9:]), args, kw, call)
        if name == "next" and name not in interp.env and args and isinstance(args[0], list) and isinstance(call.args[0], (ast.GeneratorExp, ast.ListComp)):
            # next(<generator expression>, default): the first element (the expression was evaluated eagerly; its elements have no effects here)
            if args[0]:
                return args[0][0]
            if len(args) > 1:
                return args[1]
            raise Flow("raise", "StopIteration()", call)
        if name == "next" and name not in interp.env and args and isinstance(args[0], GenModel):
            try:
                return next(args[0])
            except StopIteration:
                if len(args) > 1:
                    return args[1]
                raise Flow("raise", "StopIteration()", call) from None
        if name == "iter" and name not in interp.env and len(args) == 1 and isinstance(args[0], (list, tuple, GenModel)):
            return args[0] if isinstance(args[0], GenModel) else iter(list(args[0]))
        if name in ("functools.partial", "partial") and name not in interp.env and args and callable(args[0]) and not isinstance(args[0], dict):
            fn0, pre, prekw, me = args[0], list(args[1:]), dict(kw), self
            return lambda *a, **k: me._apply(fn0, pre + list(a), {**prekw, **k}, call)
        if name in ("operator.methodcaller", "methodcaller") and name not in interp.env and args and isinstance(args[0], str):
            mname, margs, mkw, me = args[0], list(args[1:]), dict(kw), self

            def call_method(obj, mname=mname, margs=margs, mkw=mkw):
                if isinstance(obj, dict) and "__class__" in obj:
                    return me.call(obj, mname, *margs, **mkw)
                return getattr(obj, mname)(*margs, **mkw)
            return call_method
        if name in ("operator.itemgetter", "itemgetter", "operator.attrgetter", "attrgetter") and name not in interp.env and len(args) == 1:
            key_, by_attr = args[0], name.endswith("attrgetter")
            return (lambda o: o[key_]) if not by_attr or isinstance(key_, int) else (lambda o: o[key_] if isinstance(o, dict) else getattr(o, key_))
        if name in ("types.MappingProxyType", "MappingProxyType") and len(args) == 1 and isinstance(args[0], dict):
            return args[0]  # a read-only view: the mapping itself, for evaluation purposes
        if name in ("Path", "pathlib.Path", "PurePath", "pathlib.PurePath") and name not in interp.env and len(args) == 1 and (
                isinstance(args[0], str) or (isinstance(args[0], dict) and args[0].get("__class__") == "<path>")):
            if self._paths is None:
                from .fsmodel import FileSystemModel
                self._paths = FileSystemModel()
            return self._paths.path(args[0]["__str__"] if isinstance(args[0], dict) else args[0])
        if name in ("Counter", "collections.Counter") and name not in interp.env and len(args) <= 1 and not kw:
            c_ = CounterModel()
            if args:
                c_.update(args[0])
            return c_
        if name in ("deque", "collections.deque") and name not in interp.env and len(args) <= 1 and not kw and not any(isinstance(a, Unknown) for a in args):
            return DequeModel(*args)
        if name in ("defaultdict", "collections.defaultdict") and name not in interp.env and len(args) <= 2 and not kw and (
                not args or (isinstance(call.args[0], ast.Name) and call.args[0].id in ("list", "dict", "set", "int", "float", "str")) or args[0] is None):
            fac = {"list": list, "dict": dict, "set": set, "int": int, "float": float, "str": str}.get(call.args[0].id) if args and args[0] is not None else None
            return DefaultDictModel(fac, *args[1:])
        if name == "slice" and name not in interp.env and 1 <= len(args) <= 3 and not kw and all(a is None or isinstance(a, int) for a in args):
            return slice(*args)
        if name == "id" and name not in interp.env and len(args) == 1 and not kw and not isinstance(args[0], Unknown):
            return id(args[0])  # identity of the model object: equal for the same object, different for different live objects - all a program may rely on
        if name in ("set", "frozenset", "dict") and name not in interp.env and len(args) <= 1 and not kw:
            return {"set": set, "frozenset": frozenset, "dict": dict}[name](*args)
        if isinstance(call.func, ast.Name) and self.cinfo(name) is not None:
            return self.new(name, *args, **kw)
        if isinstance(call.func, ast.Name) and isinstance(interp.env.get(name), dict) and interp.env[name].get("__is_class__"):
            return self.new(interp.env[name]["__class__"], *args, **kw)  # cls(...) inside a classmethod
        if isinstance(call.func, ast.Name):
            here = getattr(getattr(call, "_module", None), "rel", self.rel)
            for key in (f"{here}::{name}", f"{self.rel}::{name}"):
                if key in self.prog.funcs:
                    return self.run_function(self.prog.funcs[key], None, args, kw, plain=True)
            imp = self._imported_function(call, name)
            if imp is not None:
                return self.run_function(imp, None, args, kw, plain=True)
        raise AnalysisError(f"object model: unsupported call {U(call)[:80]!r}")

    def _apply(self, fn, args, kw, call):
        """Call a function value: a repository function, or a pure function of the standard library (str methods, operator)."""
        if isinstance(fn, FuncRef):
            return fn(*args, **kw)
        if any(isinstance(a, Unknown) for a in args):
            return Unknown(f"result of {U(call)[:40]}")
        try:
            return fn(*args, **kw)
        except Flow:
            raise
        except (TypeError, ValueError, KeyError, IndexError, ZeroDivisionError, AttributeError) as exc:
            raise Flow("raise", f"{type(exc).__name__}({str(exc)!r})", call) from None

    def _imported_function(self, call, name):
        """Repository function bound by `from .m import name` in the calling module."""
        mod = getattr(call, "_module", None)
        if mod is None:
            return None
        base = mod.rel.rsplit("/", 1)[0] + "/" if "/" in mod.rel else ""
        for st in mod.tree.body:
            if isinstance(st, ast.ImportFrom) and st.level >= 1 and st.module:
                src_dir = base
                for _ in range(st.level - 1):
                    src_dir = src_dir.rstrip("/").rsplit("/", 1)[0] + "/" if "/" in src_dir.rstrip("/") else ""
                for a in st.names:
                    if (a.asname or a.name) == name:
                        key = f"{src_dir}{st.module.replace('.', '/')}.py::{a.name}"
                        if key in self.prog.funcs:
                            return self.prog.funcs[key]
        return None

    def _imported_class(self, node, name):
        """Repository class bound by `from .m import Name [as alias]` in the module of the node: its own name, or None."""
        mod = getattr(node, "_module", None)
        if mod is None:
            return None
        base = mod.rel.rsplit("/", 1)[0] + "/" if "/" in mod.rel else ""
        for st in mod.tree.body:
            if isinstance(st, ast.ImportFrom) and st.level >= 1 and st.module:
                src_dir = base
                for _ in range(st.level - 1):
                    src_dir = src_dir.rstrip("/").rsplit("/", 1)[0] + "/" if "/" in src_dir.rstrip("/") else ""
                for a in st.names:
                    if (a.asname or a.name) == name and f"{src_dir}{st.module.replace('.', '/')}.py::{a.name}" in self.prog.classes:
                        return a.name
        return None

    def _module_alias(self, call, alias):
        """Repository module a name is bound to by `from . import m as alias` / `from .. import m` in the calling module."""
        mod = getattr(call, "_module", None)
        if mod is None:
            return None
        base = mod.rel.rsplit("/", 1)[0] + "/" if "/" in mod.rel else ""
        for st in mod.tree.body:
            if isinstance(st, ast.ImportFrom) and st.level >= 1:
                src_dir = base
                for _ in range(st.level - 1):
                    src_dir = src_dir.rstrip("/").rsplit("/", 1)[0] + "/" if "/" in src_dir.rstrip("/") else ""
                pkg = (st.module or "").replace(".", "/")
                for a in st.names:
                    if (a.asname or a.name) == alias:
                        for cand in (f"{src_dir}{pkg + '/' if pkg else ''}{a.name}.py", f"{src_dir}{pkg + '/' if pkg else ''}{a.name}/__init__.py"):
                            if cand in self.prog.modules:
                                return cand
        return None

    @staticmethod
    def _from_math(call, name):
        mod = getattr(call, "_module", None)
        if mod is None:
            return False
        return any(isinstance(st, ast.ImportFrom) and st.module == "math" and any((a.asname or a.name) == name for a in st.names)
                   for st in mod.tree.body)

    def _callable(self, interp, node):
        """A function value handed to map/filter: bound regex method, lambda, repository function or None (identity test)."""
        if isinstance(node, ast.Constant) and node.value is None:
            return bool
        if isinstance(node, ast.Attribute):
            recv = interp.ev(node.value)
            if isinstance(recv, dict) and recv.get("__class__") == "re.Pattern" and node.attr in ("match", "fullmatch", "search"):
                return lambda x, k=node.attr, p=recv["pattern"]: self._match(k, p, x)
            if isinstance(recv, dict) and "__class__" in recv and self.find(recv["__class__"], node.attr) is not None:
                f = self.find(recv["__class__"], node.attr)
                return lambda x: self.run_function(f, recv, (x,), {})
        if isinstance(node, ast.Lambda) and len(node.args.args) == 1:
            pname = node.args.args[0].arg

            def call_lambda(x):
                sub = Interp(dict(interp.env), call_hook=self.hook, loop_hook=self.loop, strict=True)
                sub.env[pname] = x
                return sub.ev(node.body)
            return call_lambda
        if isinstance(node, ast.Name) and f"{self.rel}::{node.id}" in self.prog.funcs:
            f = self.prog.funcs[f"{self.rel}::{node.id}"]
            return lambda x: self.run_function(f, None, (x,), {}, plain=True)
        if isinstance(node, ast.Name) and node.id in ("str", "int", "float", "bool", "len"):
            return {"str": str, "int": int, "float": float, "bool": bool, "len": len}[node.id]
        raise AnalysisError(f"object model: unsupported function value {U(node)[:60]!r}")

    @staticmethod
    def _match(kind, pattern, string):
        if not isinstance(string, str):
            raise AnalysisError("object model: regular expression applied to a non-string model value")
        try:
            m = getattr(re, kind)(pattern, string)
        except re.error as exc:
            raise AnalysisError(f"object model: invalid pattern {pattern!r}: {exc}") from exc
        if m is None:
            return None
        return Match({"__class__": "re.Match", "string": m.string, "__m__": m})


def _is_generator(fn):
    todo = list(fn.body)
    while todo:
        n = todo.pop()
        if isinstance(n, (ast.Yield, ast.YieldFrom)):
            return True
        if isinstance(n, (ast.FunctionDef, ast.AsyncFunctionDef, ast.Lambda, ast.ClassDef)):
            continue
        todo.extend(ast.iter_child_nodes(n))
    return False
