"""Obligations, known-findings matching, evidence and the fail-closed verdict."""
from __future__ import annotations

import json
import os
import re
import time
from pathlib import Path

from .core import AnalysisError

VERIF = Path(__file__).resolve().parent.parent
KNOWN_FILE = VERIF / "KNOWN_FINDINGS.txt"


class Ob:
    """One obligation of one rule on one construct (call site, cell, field, path)."""

    __slots__ = ("rule", "key", "ok", "what", "where", "detail")

    def __init__(self, rule, key, ok, what="", where="", detail=None):
        self.rule = rule  # "R1"
        self.key = key  # stable construct key (no line numbers)
        self.ok = bool(ok)
        self.what = what  # the fact that was established / that failed
        self.where = where  # file:line (function) -- diagnostic only, not part of the key
        self.detail = detail

    def as_dict(self, status):
        d = {"rule": self.rule, "key": self.key, "status": status, "fact": self.what}
        if self.where:
            d["where"] = self.where
        if self.detail is not None:
            d["detail"] = self.detail
        return d


class Rule:
    def __init__(self, rid, title, floor=1):
        self.rid = rid
        self.title = title
        self.floor = floor  # minimal number of instances below which the rule is vacuous
        self.obs: list[Ob] = []
        self.info: dict = {}

    def ok(self, key, what="", where="", detail=None):
        self.obs.append(Ob(self.rid, key, True, what, where, detail))

    def bad(self, key, what="", where="", detail=None):
        self.obs.append(Ob(self.rid, key, False, what, where, detail))

    def add(self, key, ok, what="", where="", detail=None):
        if not ok and "Unknown(" in str(what):
            # a value the evaluator could not determine reached the comparison: that is "not analysable", not a verdict on the code
            raise AnalysisError(f"rule {self.rid} {key}: an undetermined value reached the comparison ({str(what)[:160]})")
        self.obs.append(Ob(self.rid, key, ok, what, where, detail))


class Report:
    def __init__(self, prop, tier):
        self.prop = prop
        self.tier = tier
        self.rules: list[Rule] = []
        self.analysed: dict = {}
        self.assumptions: list[str] = []
        self.trusted: list[str] = ["CPython ast/compile (python3-vt 3.11)"]
        self.explanation = ""
        self.exhaustive = False
        self.extra: dict = {}
        self.not_decided: list[str] = []
        self.deferred: list[str] = []  # rules that could not be evaluated; an error unless another rule reports a violation
        self.t0 = time.time()

    def guarded(self, fn, *args, **kw):
        """Run one rule function; if it leaves the analysable subset, go on with the other rules (a violation they find is
        still a violation; without one the run ends as ANALYSIS-ERROR)."""
        n_rules = len(self.rules)
        try:
            return fn(*args, **kw)
        except AnalysisError as exc:
            del self.rules[n_rules:]  # a half-evaluated rule proves nothing
            self.deferred.append(str(exc))
            return None

    def rule(self, rid, title, floor=1) -> Rule:
        r = Rule(rid, title, floor)
        self.rules.append(r)
        return r


def load_known():
    """Parse KNOWN_FINDINGS.txt -> ({(prop,key): text}, [fixed lines])."""
    known, fixed = {}, []
    if not KNOWN_FILE.exists():
        return known, fixed
    for line in KNOWN_FILE.read_text(encoding="utf-8").splitlines():
        line = line.strip()
        if not line or line.startswith("#"):
            continue
        m = re.match(r"finding:\s+property=(\S+)\s+key=(.*?)\s+::\s+(.*)$", line)
        if m:
            known[(m.group(1), m.group(2).strip())] = m.group(3).strip()
            continue
        if line.startswith("fixed:"):
            fixed.append(line)
            continue
        raise AnalysisError(f"unparseable line in {KNOWN_FILE.name}: {line[:60]}")
    return known, fixed


def finish(rep: Report) -> int:
    """Print the verdict, write evidence and replay files, return the exit code."""
    known, _fixed = load_known()
    prop = rep.prop
    evdir = Path(os.environ.get("VERIF_EVIDENCE_DIR") or (VERIF / "evidence"))
    (evdir / "replay").mkdir(parents=True, exist_ok=True)
    for old in (evdir / "replay").glob(f"{prop}-*.json"):
        old.unlink()

    total = disch = 0
    knownf, viol = [], []
    rules_ev = {}
    samples = []
    distinct = set()
    for r in rep.rules:
        n = len(r.obs)
        if n < r.floor and all(ob.ok for rr in rep.rules for ob in rr.obs):
            raise AnalysisError(
                f"rule {prop}.{r.rid} ({r.title}) matched {n} instance(s), below its anchor floor {r.floor}: "
                "the constructs it reasons about were not found"
            )
        kn = vi = 0
        shown = 0
        for ob in r.obs:
            total += 1
            distinct.add((ob.rule, ob.key))
            fullkey = f"{ob.rule}|{ob.key}"
            if ob.ok:
                disch += 1
                if shown < 2:
                    samples.append(ob.as_dict("discharged"))
                    shown += 1
            elif (prop, fullkey) in known:
                kn += 1
                knownf.append((ob, known[(prop, fullkey)]))
            else:
                vi += 1
                viol.append(ob)
        rules_ev[r.rid] = {"title": r.title, "instances": n, "anchor_floor": r.floor, "known_findings": kn, "violations": vi}
        if r.info:
            rules_ev[r.rid]["info"] = r.info

    # stale known findings are not an error (a fix makes them vanish), but are shown
    seen_known = {f"{ob.rule}|{ob.key}" for ob, _ in knownf}
    stale = [k for (p, k) in known if p == prop and k not in seen_known]

    for r in rep.rules:
        print(f"[{prop}.{r.rid}] {r.title}: {len(r.obs)} obligation(s), "
              f"{sum(1 for o in r.obs if o.ok)} discharged")
    for ob, text in knownf:
        print(f"KNOWN-FINDING: property={prop} {ob.rule}|{ob.key} :: {text}")
        if len([s for s in samples if s["status"] == "known-finding"]) < 3:
            samples.append(ob.as_dict("known-finding"))
    for k in stale:
        print(f"note: listed finding no longer observed (fixed or moved): {prop} {k}")
    replay_paths = []
    for i, ob in enumerate(viol):
        path = evdir / "replay" / f"{prop}-{i}.json"
        path.write_text(json.dumps({
            "property": prop, "rule": f"{prop}.{ob.rule}", "key": ob.key, "fact": ob.what, "where": ob.where,
            "detail": ob.detail, "repo": str(os.environ.get("VERIF_REPO", "/repo")),
            "how_to_replay": f"./vcheck {prop} --tier {rep.tier}   (re-runs the rule on the current tree)",
        }, indent=1, default=str))
        replay_paths.append(path)
        print(f"  violated {prop}.{ob.rule} key={ob.key}\n    at {ob.where}\n    {ob.what}")
        shown_path = path.relative_to(VERIF) if str(path).startswith(str(VERIF)) else path
        print(f"VIOLATION property={prop} replay={shown_path}")
        samples.append(ob.as_dict("VIOLATED"))

    if rep.deferred and not viol:
        raise AnalysisError(rep.deferred[0])
    for msg in rep.deferred:
        print(f"note: a rule could not be evaluated on this tree: {msg}")

    level = "other"
    wall = round(time.time() - rep.t0, 3)
    coverage = {
        "explanation": rep.explanation,
        "obligations": total,
        "discharged": disch,
        "known_findings": len(knownf),
        "violations": len(viol),
        "evaluations": total,
        "distinct_nontrivial": len(distinct),
        "rule": "one obligation per (rule, construct): call site, table cell, field, path or sibling pair, "
                "keyed by normalised construct text; distinct = distinct keys; trivial (vacuous) rules are "
                "excluded by anchor floors",
        "rules": rules_ev,
        "samples": samples[:14],
        "analysed": rep.analysed,
        "exhaustive": rep.exhaustive,
        "checker_cmd": f"./vcheck {prop} --tier {rep.tier}",
        "trusted_base": rep.trusted,
        "not_decided": rep.not_decided,
    }
    coverage.update(rep.extra)
    ev = {
        "property_id": prop, "tier": rep.tier, "seed": int(os.environ.get("VERIF_SEED", "0") or 0),
        "level": level, "coverage": coverage, "assumptions": rep.assumptions, "wall_s": wall,
        "violations": len(viol),
    }
    (evdir / f"{prop}.json").write_text(json.dumps(ev, indent=1, default=str) + "\n")
    print(f"{prop}: {total} obligations, {disch} discharged, {len(knownf)} known finding(s), "
          f"{len(viol)} violation(s) [{wall}s]")
    return 1 if viol else 0
