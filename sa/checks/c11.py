"""C11 -- runs are deterministic and independent of process history (whole-program lints)."""
from __future__ import annotations

import ast
from pathlib import Path

from ..callgraph import CallGraph
from ..core import AnalysisError, Program, U, calls_in, enclosing_function, iter_stmts, parent, walk_no_defs
from ..report import VERIF

# Reviewed order-insensitive uses that the generic recogniser cannot classify (construct text -> reason).
REVIEWED_R1 = {
    ("ligand/mol2.py::Mol2Molecule.set_rings", "combinations(rings, i)"):
        "the list built from it (ring_sets) is only used in a membership test, which is order independent",
}
ORDER_CONSUMERS = {"list", "tuple", "enumerate", "iter", "zip", "combinations", "permutations", "product", "chain", "map",
                   "filter", "islice", "itertools.combinations", "itertools.permutations", "itertools.product",
                   "itertools.chain"}
MUTATORS = {"append", "extend", "insert", "remove", "pop", "clear", "update", "setdefault", "add", "discard", "sort",
            "reverse", "popitem", "__setitem__", "__delitem__"}
AMBIENT = {
    "random.", "secrets.", "uuid.", "time.time", "time.perf_counter", "time.monotonic", "time.ctime", "time.localtime",
    "datetime.now", "datetime.today", "datetime.utcnow", "date.today", "os.environ", "os.getenv", "os.listdir",
    "os.scandir", "os.walk", "glob.", "os.getpid", "socket.", "getpass.", "platform.", "os.urandom", "np.random",
    "numpy.random",
}
COMMUTATIVE_CALLS = {"add", "discard", "update", "any", "all", "min", "max", "sum", "len", "set", "frozenset", "issubset"}


def is_set_expr(v, known):
    if isinstance(v, (ast.Set, ast.SetComp)):
        return True
    if isinstance(v, ast.Call):
        n = U(v.func)
        if n in ("set", "frozenset"):
            return True
        if isinstance(v.func, ast.Attribute) and v.func.attr in ("union", "intersection", "difference", "symmetric_difference", "copy") \
                and (U(v.func.value) in known or is_set_expr(v.func.value, known)):
            return True
    if isinstance(v, ast.BinOp) and isinstance(v.op, (ast.BitOr, ast.BitAnd, ast.Sub, ast.BitXor)):
        return U(v.left) in known or U(v.right) in known or is_set_expr(v.left, known) or is_set_expr(v.right, known)
    if isinstance(v, ast.IfExp):
        return is_set_expr(v.body, known) or is_set_expr(v.orelse, known)
    if isinstance(v, (ast.Name, ast.Attribute)) and U(v) in known:
        return True
    return False


def set_typed_names(fn):
    """Names/attributes bound (anywhere in fn) to a set-valued expression."""
    out = {}

    changed = True
    while changed:
        changed = False
        for st in ast.walk(fn):
            tgts = []
            if isinstance(st, ast.Assign):
                tgts, val = st.targets, st.value
            elif isinstance(st, ast.AnnAssign) and st.value is not None:
                tgts, val = [st.target], st.value
            elif isinstance(st, ast.AugAssign) and isinstance(st.op, (ast.BitOr, ast.BitAnd, ast.Sub, ast.BitXor)):
                tgts, val = [st.target], st.value
            for t in tgts:
                if isinstance(t, (ast.Name, ast.Attribute)) and U(t) not in out and is_set_expr(val, out):
                    out[U(t)] = st
                    changed = True
    return out


def class_set_attrs(prog: Program):
    """self.<attr> names that are bound to a set anywhere in their class."""
    out = {}
    for ci in prog.classes.values():
        for m in ci.methods.values():
            for k, st in set_typed_names(m.node).items():
                if k.startswith("self."):
                    out.setdefault(ci.key, set()).add(k)
    return out


def lint_unordered(fn, known, report, report_ok=None):
    """Flag order-sensitive consumption of set-typed values inside fn."""
    def is_set(e):
        if isinstance(e, ast.Call) and isinstance(e.func, ast.Attribute) and e.func.attr in ("keys", "values", "items"):
            return False
        return is_set_expr(e, known)

    for n in walk_no_defs(fn):
        if isinstance(n, ast.AugAssign) and isinstance(n.op, ast.Add) and is_set(n.value) and U(n.target) not in known:
            report(n, f"{U(n.target)} += <set>: the elements of {U(n.value)[:40]!r} are appended in an arbitrary order")
        if isinstance(n, ast.Call) and isinstance(n.func, ast.Attribute) and n.func.attr in ("extend", "writelines") and n.args and is_set(n.args[0]):
            report(n, f"{U(n.func)}(<set>): the elements of {U(n.args[0])[:40]!r} are taken in an arbitrary order")
        if isinstance(n, ast.Starred) and is_set(n.value) and isinstance(parent(n), (ast.List, ast.Tuple, ast.Call)):
            pp = parent(n)
            if not (isinstance(pp, ast.Call) and U(pp.func) in ("set", "frozenset", "sorted", "max", "min", "sum", "len")):
                report(n, f"*{U(n.value)[:40]} unpacks a set in an arbitrary order")
        if isinstance(n, ast.For) and is_set(n.iter):
            if not commutative_body(n.body, U(n.target)):
                report(n, f"for-loop over the set {U(n.iter)!r} with an order-sensitive body")
            elif report_ok is not None:
                report_ok(n, f"for-loop over the set {U(n.iter)!r}: body is order independent (accumulation / set building / "
                             "per-element temporaries only)")
        elif isinstance(n, (ast.ListComp, ast.GeneratorExp, ast.DictComp)):
            for g in n.generators:
                if is_set(g.iter):
                    p = parent(n)
                    # a comprehension consumed by an order-insensitive reducer is fine
                    if isinstance(p, ast.Call) and U(p.func) in ("set", "frozenset", "sum", "any", "all", "min", "max", "len", "sorted"):
                        continue
                    report(n, f"ordered comprehension over the set {U(g.iter)!r}")
        elif isinstance(n, ast.Call):
            name = U(n.func)
            if name in ORDER_CONSUMERS and any(is_set(a) for a in n.args):
                p = parent(n)
                if isinstance(p, ast.Call) and U(p.func) in ("sorted", "len", "set", "sum", "min", "max", "frozenset", "any", "all"):
                    continue
                if name == "iter" and isinstance(p, ast.Call) and U(p.func) == "next":
                    continue  # reported below as next(iter(set))
                report(n, f"{name}() of a set ({U(n)[:50]}) fixes an arbitrary order")
            if isinstance(n.func, ast.Attribute) and n.func.attr == "join" and n.args and is_set(n.args[0]):
                report(n, f"join over the set {U(n.args[0])!r}")
            if isinstance(n.func, ast.Attribute) and n.func.attr == "pop" and not n.args and U(n.func.value) in known:
                report(n, f"{U(n.func.value)}.pop() takes an arbitrary element")
            if name == "next" and n.args and isinstance(n.args[0], ast.Call) and U(n.args[0].func) == "iter" \
                    and n.args[0].args and is_set(n.args[0].args[0]):
                report(n, "next(iter(set)) takes an arbitrary element")


def commutative_body(body, var):
    """Body whose effect does not depend on iteration order: numeric accumulation, set building, membership."""
    temps = set()
    end = max((getattr(s, "end_lineno", s.lineno) for s in body), default=0)
    fn = enclosing_function(body[0]) if body else None
    ok = _commutative_stmts(body, var, temps)
    if ok and temps and fn is not None:
        for n in walk_no_defs(fn):
            if isinstance(n, ast.Name) and n.id in temps and isinstance(n.ctx, ast.Load) and n.lineno > end:
                return False
    return ok


def _commutative_stmts(body, var, temps):
    for st in iter_stmts(body):
        if isinstance(st, ast.AugAssign) and isinstance(st.op, (ast.Add, ast.Mult, ast.BitOr, ast.BitAnd)):
            if isinstance(st.value, (ast.List, ast.Tuple, ast.JoinedStr)) or (isinstance(st.value, ast.Constant) and isinstance(st.value.value, str)):
                return False
            continue
        if isinstance(st, ast.Expr) and isinstance(st.value, ast.Call):
            c = st.value
            if isinstance(c.func, ast.Attribute) and c.func.attr in ("add", "discard", "update"):
                continue
            if U(c.func).startswith("_LOGGER."):
                continue
            return False
        if isinstance(st, (ast.If, ast.Pass, ast.Continue, ast.For)):
            continue
        if isinstance(st, ast.Assign) and isinstance(st.targets[0], ast.Name) and var in {n.id for n in ast.walk(st.value) if isinstance(n, ast.Name)}:
            # a per-iteration temporary computed from the element (checked below: not read after the loop)
            temps.add(st.targets[0].id)
            continue
        if isinstance(st, ast.Return) or isinstance(st, ast.Break):
            return False
        if isinstance(st, ast.Assign):
            # assignment to a subscript keyed by the element itself is order independent
            t = st.targets[0]
            if isinstance(t, ast.Subscript) and U(t.slice) == var:
                continue
            return False
        return False
    return True


def check(prog, rep):
    rep.explanation = (
        "whole-program lints over the code reachable from the entry points (call graph with receiver resolution): "
        "order-sensitive use of hash-ordered containers, ambient inputs, mutation of module/class-level or default "
        "objects outside import time, memoisation, dynamic-model escapes; each zero-expected rule carries a positive "
        "control that must match on every run"
    )
    rep.assumptions += ["third-party code (propka, pdbx, numpy) is deterministic and keeps no pdb2pqr state",
                        "dict iteration is insertion ordered (language guarantee)"]
    g = CallGraph(prog)
    reach = g.reachable()
    rep.analysed["callgraph"] = g.summary()
    rep.analysed["reachable_functions"] = len(reach)
    rep.analysed["excluded_unreachable"] = sorted(set(prog.funcs) - reach)[:80]
    run_lints(prog, rep, reach, "")
    from .shared import rule_bundled_tables_from_package
    rep.guarded(rule_bundled_tables_from_package, prog, rep, "R7")
    controls(rep)


def run_lints(prog, rep, reach, tag, only_rules=None):
    csets = class_set_attrs(prog)
    r1 = rep.rule("R1" + tag, "no order-sensitive iteration over hash-ordered containers", floor=1)
    r2 = rep.rule("R2" + tag, "no ambient inputs (randomness, clock, identity, environment, directory order)", floor=1)
    r3 = rep.rule("R3" + tag, "module- and class-level mutable objects are mutated only at import time", floor=1)
    r4 = rep.rule("R4" + tag, "mutable default arguments are neither mutated nor leaked into mutated state", floor=1)
    r5 = rep.rule("R5" + tag, "topology, force field and handlers are rebuilt per run (no memoisation, no global rebinding)", floor=1)
    r6 = rep.rule("R6" + tag, "no dynamic features that defeat the program model", floor=1)
    n_fn = 0
    set_sites = 0
    for key in sorted(reach):
        f = prog.funcs[key]
        fn = f.node
        n_fn += 1
        where = lambda n: f"pdb2pqr/{f.module.rel}:{n.lineno} ({f.qual})"  # noqa: E731
        # ---- R1
        known = dict(set_typed_names(fn))
        if f.cls is not None:
            for k in csets.get(f"{f.module.rel}::{f.cls.name}", ()):
                known.setdefault(k, None)
        set_sites += len(known)

        def rep1(node, msg, f=f):
            reason = REVIEWED_R1.get((f.key, U(node)))
            if reason:
                r1.ok(f"unordered|{f.key}:{U(node).splitlines()[0][:60]}", f"reviewed: {reason}", f"pdb2pqr/{f.module.rel}:{node.lineno} ({f.qual})")
                return
            r1.bad(f"unordered|{f.key}:{U(node).splitlines()[0][:60]}", msg, f"pdb2pqr/{f.module.rel}:{node.lineno} ({f.qual})")

        def ok1(node, msg, f=f):
            r1.ok(f"unordered|{f.key}:{U(node).splitlines()[0][:60]}", msg, f"pdb2pqr/{f.module.rel}:{node.lineno} ({f.qual})")

        lint_unordered(fn, known, rep1, ok1)
        # ---- R2
        for c in calls_in(fn):
            name = U(c.func)
            if any(name.startswith(a) or f".{a}" in f".{name}" for a in AMBIENT) or name in ("id", "hash"):
                if name == "hash" or name == "id" or not name.startswith("datetime.strptime"):
                    r2.bad(f"ambient|{f.key}:{name}", f"call to {name} makes the result depend on something other than the "
                           "input files and options", where(c))
        local_names = {a.arg for a in fn.args.args + fn.args.kwonlyargs}
        for n in walk_no_defs(fn):
            if isinstance(n, ast.Name) and n.id in ("id", "hash") and isinstance(n.ctx, ast.Load) and n.id not in local_names \
                    and not (isinstance(parent(n), ast.Call) and parent(n).func is n):
                r2.bad(f"ambient|{f.key}:{n.id}", f"builtin {n.id} used as a value (e.g. a sort key): object identity/hash "
                       "differs between runs", where(n))
            if isinstance(n, ast.Attribute) and U(n) in ("os.environ",):
                r2.bad(f"ambient|{f.key}:os.environ", "reads the process environment", where(n))
        # ---- R4
        defaults = []
        a = fn.args
        pos = a.posonlyargs + a.args
        for arg, d in zip(pos[len(pos) - len(a.defaults):], a.defaults):
            defaults.append((arg.arg, d))
        for arg, d in zip(a.kwonlyargs, a.kw_defaults):
            if d is not None:
                defaults.append((arg.arg, d))
        for pname, d in defaults:
            if isinstance(d, ast.Call) and U(d.func).split(".")[-1] in prog.classes_by_name and U(d.func) not in ("list", "dict", "set"):
                # an object of a repository class as default value is created once, when the function is defined, and shared by all calls
                used = [c for c in calls_in(fn) if isinstance(c.func, ast.Attribute) and isinstance(c.func.value, ast.Name) and c.func.value.id == pname]
                stores = [n_ for n_ in walk_no_defs(fn) if isinstance(n_, ast.Attribute) and isinstance(n_.ctx, ast.Store) and isinstance(n_.value, ast.Name) and n_.value.id == pname]
                r4.add(f"default|{f.key}:{pname}", not used and not stores, f"default {pname}={U(d)}: one object shared by every call; " +
                       ("it is only read" if not used and not stores else f"methods are called on it / it is written ({U(used[0].func) if used else U(stores[0])}): its state "
                        "is carried from one call to the next"), where(d))
                continue
            if isinstance(d, (ast.List, ast.Dict, ast.Set)) or (isinstance(d, ast.Call) and U(d.func) in ("list", "dict", "set")):
                muts = mutations_of(fn, pname)
                escapes = [s for s in iter_stmts(fn.body) if isinstance(s, ast.Assign) and isinstance(s.value, ast.Name)
                           and s.value.id == pname and isinstance(s.targets[0], ast.Attribute)]
                bad = list(muts)
                for s in escapes:
                    attr = s.targets[0].attr
                    for k2, f2 in prog.funcs.items():
                        if attr not in f2.module.src or attr not in _func_src(f2):
                            continue
                        for n2 in walk_no_defs(f2.node):
                            if isinstance(n2, ast.Call) and isinstance(n2.func, ast.Attribute) and n2.func.attr in MUTATORS \
                                    and isinstance(n2.func.value, ast.Attribute) and n2.func.value.attr == attr:
                                bad.append(n2)
                            if isinstance(n2, ast.Subscript) and isinstance(n2.ctx, ast.Store) and isinstance(n2.value, ast.Attribute) \
                                    and n2.value.attr == attr:
                                bad.append(n2)
                r4.add(f"default|{f.key}:{pname}", not bad,
                       f"mutable default {pname}={U(d)}: "
                       + ("never mutated" + (f"; escapes into {[U(s.targets[0]) for s in escapes]}, which nothing mutates" if escapes else "")
                          if not bad else f"mutated at line {bad[0].lineno} -- state leaks from one call/run into the next"),
                       where(fn))
        # ---- R5
        for d in fn.decorator_list:
            if any(x in U(d) for x in ("lru_cache", "functools.cache", "cached_property")) or U(d) == "cache":
                r5.bad(f"memo|{f.key}", f"decorator {U(d)} memoises results across runs", where(fn))
        for n in walk_no_defs(fn):
            if isinstance(n, ast.Global):
                assigned = [s for s in iter_stmts(fn.body) if isinstance(s, (ast.Assign, ast.AugAssign)) and any(
                    isinstance(t, ast.Name) and t.id in n.names for t in (s.targets if isinstance(s, ast.Assign) else [s.target]))]
                if assigned:
                    r5.bad(f"global|{f.key}:{','.join(n.names)}", "rebinds a module-level name at run time", where(n))
        # ---- R6
        for c in calls_in(fn):
            name = U(c.func)
            if name in ("eval", "exec", "globals", "locals", "__import__", "compile") or name.endswith("importlib.import_module"):
                r6.bad(f"dynamic|{f.key}:{name}", f"{name}() defeats the static program model", where(c))
            if name == "setattr" and c.args and isinstance(c.args[0], ast.Name) and c.args[0].id in ("sys", "builtins"):
                r6.bad(f"dynamic|{f.key}:setattr", "setattr on a module object", where(c))
    # ---- R3: module/class level mutable objects
    for rel, mod in prog.modules.items():
        shared = {}
        for st in mod.tree.body:
            if isinstance(st, ast.Assign) and isinstance(st.value, (ast.List, ast.Dict, ast.Set)) or (
                    isinstance(st, ast.Assign) and isinstance(st.value, ast.Call) and U(st.value.func) in ("list", "dict", "set", "OrderedDict", "defaultdict")):
                for t in st.targets:
                    if isinstance(t, ast.Name):
                        shared[t.id] = ("module", st)
            if isinstance(st, ast.ClassDef):
                for cs in st.body:
                    if isinstance(cs, ast.Assign) and isinstance(cs.value, (ast.List, ast.Dict, ast.Set)):
                        for t in cs.targets:
                            if isinstance(t, ast.Name):
                                shared[f"{st.name}.{t.id}"] = ("class", cs)
        for name, (kind, st) in shared.items():
            short = name.split(".")[-1]
            sites = []
            for key, f in prog.funcs.items():
                if short not in f.module.src:
                    continue
                if short not in _func_src(f):
                    continue
                if key not in reach and not import_time_only(prog, f):
                    continue
                # a function that rebinds the name locally does not touch the shared object
                for m in mutations_of(f.node, short, attr_ok=(kind == "class")):
                    # import-time registration: the function is only used as a decorator / at module level
                    if import_time_only(prog, f):
                        continue
                    if kind == "module" and f.module.rel != rel and short not in _imported_names(prog, f.module.rel):
                        continue
                    sites.append((f, m))
            r3.add(f"shared|{rel}:{name}", not sites,
                   f"{kind}-level mutable {name}: " + ("mutated only at import time or never" if not sites else
                                                       f"mutated at run time in {sites[0][0].key} line {sites[0][1].lineno}"),
                   f"pdb2pqr/{rel}:{st.lineno}")
    # ---- R3: a class object lives as long as the process; storing on it at run time (Class.attr = ..., cls.attr, type(self).attr,
    # self.__class__.attr) is state every later call and run sees - also when the attribute's initial value is immutable
    for key in sorted(reach):
        f = prog.funcs[key]
        if import_time_only(prog, f):
            continue
        local_names = {a.arg for a in f.node.args.args + f.node.args.kwonlyargs} | {
            n.id for n in walk_no_defs(f.node) if isinstance(n, ast.Name) and isinstance(n.ctx, ast.Store)}
        for n in walk_no_defs(f.node):
            if not (isinstance(n, ast.Attribute) and isinstance(n.ctx, (ast.Store, ast.Del))):
                continue
            base = U(n.value)
            is_class = (isinstance(n.value, ast.Name) and n.value.id in prog.classes_by_name and n.value.id not in local_names) or \
                base in ("cls", "type(self)", "self.__class__")
            if is_class:
                owner = f.cls.name if base in ("cls", "type(self)", "self.__class__") and f.cls is not None else base
                r3.bad(f"shared|{f.module.rel}:{owner}.{n.attr}", f"{f.qual} stores on the class object ({U(n)} at line {n.lineno}): the value outlives the call and "
                       "is seen by every later call and run", f"pdb2pqr/{f.module.rel}:{n.lineno} ({f.qual})")
    # ---- R2/R3: objects created by a call at import time live as long as the process
    SAFE_CTORS = ("logging.getLogger", "getLogger", "float", "int", "str", "bool", "tuple", "frozenset", "range", "re.compile", "Path", "PurePath",
                  "pathlib.Path", "namedtuple", "collections.namedtuple", "TypeVar", "typing.TypeVar", "len", "max", "min", "sum", "sorted", "round", "abs",
                  "math.sqrt", "math.radians", "math.degrees", "Decimal", "Fraction", "object")
    if tag == "":
        for rel, mod in prog.modules.items():
            if rel == "run.py":
                continue
            for st in mod.tree.body:
                if isinstance(st, (ast.Assign, ast.AnnAssign)) and isinstance(st.value, ast.GeneratorExp):
                    # a generator expression at module level is an iterator that lives as long as the process: whatever consumes it at run time
                    # leaves less for the next run
                    for t_ in (st.targets if isinstance(st, ast.Assign) else [st.target]):
                        if isinstance(t_, ast.Name):
                            users = [(k_, n_) for k_, f_ in prog.funcs.items() if k_ in reach and t_.id in _func_src(f_)
                                     for n_ in walk_no_defs(f_.node) if isinstance(n_, ast.Name) and n_.id == t_.id and isinstance(n_.ctx, ast.Load)]
                            r3.add(f"shared|{rel}:{t_.id}", not users, f"module-level generator {t_.id}: " + ("not used at run time" if not users else
                                   f"consumed at run time in {users[0][0]} (line {users[0][1].lineno}): its position is carried from one run of the process to the next"),
                                   f"pdb2pqr/{rel}:{st.lineno}")
                    continue
                if not (isinstance(st, (ast.Assign, ast.AnnAssign)) and isinstance(st.value, ast.Call)):
                    continue
                ctor = U(st.value.func)
                names = [t.id for t in (st.targets if isinstance(st, ast.Assign) else [st.target]) if isinstance(t, ast.Name)]
                if any(ctor.startswith(a) or f".{a}" in f".{ctor}" for a in AMBIENT):
                    r2.bad(f"ambient|{rel}:{ctor}", f"module-level {', '.join(names)} = {ctor}(...): an ambient source created at import time "
                           "and shared by every run of the process", f"pdb2pqr/{rel}:{st.lineno}")
                if ctor in SAFE_CTORS or ctor in ("list", "dict", "set", "OrderedDict", "defaultdict"):
                    continue
                last = ctor.split(".")[-1]
                if last in ("MappingProxyType", "tuple", "frozenset", "Path", "PurePath", "PurePosixPath"):
                    continue  # immutable values (a read-only view of a literal mapping, a tuple built by a generator, a path)
                rec = [c_ for c_ in prog.classes_by_name.get(last, []) if any(U(b).split(".")[-1] == "NamedTuple" for k_ in prog.mro(c_) for b in k_.node.bases)
                       or any(U(d).replace(" ", "").startswith(("dataclass(frozen=True", "dataclasses.dataclass(frozen=True")) for d in c_.node.decorator_list)]
                if rec and all(not isinstance(a, (ast.List, ast.Dict, ast.Set)) for a in st.value.args) and not any(
                        isinstance(k.value, (ast.List, ast.Dict, ast.Set)) for k in st.value.keywords):
                    continue  # an instance of an immutable record class (NamedTuple, frozen dataclass) holding no mutable literal
                for nm_ in names:
                    users = []
                    for key, f in prog.funcs.items():
                        if key not in reach or nm_ not in _func_src(f):
                            continue
                        if f.module.rel != rel and nm_ not in _imported_names(prog, f.module.rel):
                            continue
                        local = {a.arg for a in f.node.args.args} | {t_.id for s_ in iter_stmts(f.node.body) if isinstance(s_, ast.Assign)
                                                                    for t_ in s_.targets if isinstance(t_, ast.Name)}
                        if nm_ in local:
                            continue
                        for n_ in walk_no_defs(f.node):
                            if isinstance(n_, ast.Name) and n_.id == nm_ and isinstance(n_.ctx, ast.Load):
                                users.append((f, n_))
                    r3.add(f"shared|{rel}:{nm_}", not users, f"module-level object {nm_} = {ctor}(...): " + ("not used at run time" if not users else
                           f"used at run time in {users[0][0].key} (line {users[0][1].lineno}): whatever state the object keeps is carried "
                           "from one run of the process to the next"), f"pdb2pqr/{rel}:{st.lineno}")
    # ---- R5: per-run construction of the shared model objects
    builders = {"get_definitions", "Forcefield", "create_handler", "Debump", "Psize", "HydrogenRoutines", "Biomolecule",
                "Definition", "Mol2Molecule"}
    if tag == "":
        for rel, mod in prog.modules.items():
            for st in mod.tree.body:
                if isinstance(st, (ast.FunctionDef, ast.ClassDef, ast.Import, ast.ImportFrom)):
                    continue
                for c in [n for n in ast.walk(st) if isinstance(n, ast.Call)]:
                    nm = U(c.func).split(".")[-1]
                    if nm in builders:
                        r5.bad(f"module-level|{rel}:{nm}", f"{nm}(...) is constructed at import time and shared by all runs",
                               f"pdb2pqr/{rel}:{c.lineno}")
        n_sites = 0
        for key in sorted(reach):
            f = prog.funcs[key]
            for st in iter_stmts(f.node.body):
                if isinstance(st, ast.Assign) and isinstance(st.value, ast.Call) and U(st.value.func).split(".")[-1] in builders:
                    n_sites += 1
                    nm = U(st.value.func).split(".")[-1]
                    tg = st.targets[0]
                    glob = [g for g in walk_no_defs(f.node) if isinstance(g, ast.Global) and isinstance(tg, ast.Name) and tg.id in g.names]
                    cls_attr = isinstance(tg, ast.Attribute) and isinstance(tg.value, ast.Name) and tg.value.id not in ("self",) \
                        and tg.value.id[0].isupper()
                    r5.add(f"per-run|{f.key}:{nm}", not glob and not cls_attr,
                           f"{nm}(...) is built inside {f.qual} and bound to {U(tg)} "
                           f"({'a module/class-level name' if glob or cls_attr else 'a local/instance name'})",
                           f"pdb2pqr/{f.module.rel}:{st.lineno} ({f.qual})")
    for r in (r1, r2, r5, r6):
        if not r.obs:
            r.ok("none-found", f"0 sites in {n_fn} reachable functions" + (f" ({set_sites} set-typed bindings examined)" if r is r1 else ""))
    if not r4.obs:
        r4.ok("none-found", "no mutable default arguments")
    if not r3.obs:
        r3.ok("none-found", "no module- or class-level mutable objects")


_FSRC = {}


def _func_src(f):
    """Identifiers used in the (normalised) function: a cheap pre-filter for the name searches."""
    if f.key not in _FSRC:
        _FSRC[f.key] = {n.id if isinstance(n, ast.Name) else n.attr for n in ast.walk(f.node) if isinstance(n, (ast.Name, ast.Attribute))}
    return _FSRC[f.key]


def _imported_names(prog, rel):
    out = set()
    for st in ast.walk(prog.modules[rel].tree):
        if isinstance(st, ast.ImportFrom):
            out |= {a.asname or a.name for a in st.names}
    return out


_ITO_CACHE = {}


def import_time_only(prog, f):
    """True if every use of the function is as a decorator or a module-level call."""
    ck = (id(prog), f.key)
    if ck not in _ITO_CACHE:
        _ITO_CACHE[ck] = _import_time_only(prog, f)
    return _ITO_CACHE[ck]


_NAME_USES = {}


def _name_uses(prog):
    if id(prog) not in _NAME_USES:
        idx = {}
        for mod in prog.modules.values():
            for n in ast.walk(mod.tree):
                if isinstance(n, ast.Name) and isinstance(n.ctx, ast.Load):
                    idx.setdefault(n.id, []).append(n)
        _NAME_USES[id(prog)] = idx
    return _NAME_USES[id(prog)]


def _import_time_only(prog, f):
    name = f.node.name
    uses = 0
    for n in _name_uses(prog).get(name, []):
        p = parent(n)
        uses += 1
        if isinstance(p, ast.ClassDef) and n in p.decorator_list:
            continue
        if isinstance(p, (ast.FunctionDef,)) and n in p.decorator_list and enclosing_function(p) is None:
            continue
        if isinstance(p, ast.Call) and enclosing_function(p) is None and not isinstance(parent(p), ast.FunctionDef):
            continue
        return False
    return uses > 0


def mutations_of(fn, name, attr_ok=False):
    """Mutating uses of the object called `name` inside fn (not rebinding)."""
    out = []
    rebinds = any(isinstance(s, ast.Assign) and any(isinstance(t, ast.Name) and t.id == name for t in s.targets)
                  for s in iter_stmts(fn.body))
    params = {a.arg for a in fn.args.args + fn.args.kwonlyargs}

    aliases = set()

    def is_obj(e):
        if isinstance(e, ast.Name) and (e.id == name or e.id in aliases):
            return True
        if isinstance(e, ast.Attribute) and e.attr == name and isinstance(e.value, ast.Name) and not attr_ok:
            return e.value.id not in ("self", "cls")  # module.NAME
        return attr_ok and isinstance(e, ast.Attribute) and e.attr == name

    def may_be_obj(e):
        if isinstance(e, ast.IfExp):
            return may_be_obj(e.body) or may_be_obj(e.orelse)
        if isinstance(e, ast.BoolOp):
            return any(may_be_obj(v) for v in e.values)
        return is_obj(e)

    # local names bound to the very object (not to a copy of it)
    changed = True
    while changed:
        changed = False
        for s_ in iter_stmts(fn.body):
            if isinstance(s_, ast.Assign) and may_be_obj(s_.value):
                for t_ in s_.targets:
                    if isinstance(t_, ast.Name) and t_.id != name and t_.id not in aliases:
                        aliases.add(t_.id)
                        changed = True

    for n in walk_no_defs(fn):
        if isinstance(n, ast.Call) and isinstance(n.func, ast.Attribute) and n.func.attr in MUTATORS and is_obj(n.func.value):
            out.append(n)
        elif isinstance(n, (ast.Subscript,)) and isinstance(n.ctx, (ast.Store, ast.Del)) and is_obj(n.value):
            out.append(n)
        elif isinstance(n, ast.AugAssign) and is_obj(n.target):
            out.append(n)
    if rebinds and name not in params:
        return []
    if rebinds and name in params:
        # default objects: a rebind before any mutation makes later mutations act on the new object
        first_mut = min((m.lineno for m in out), default=None)
        first_bind = min((s.lineno for s in iter_stmts(fn.body) if isinstance(s, ast.Assign)
                          and any(isinstance(t, ast.Name) and t.id == name for t in s.targets)), default=None)
        if first_mut is None or (first_bind is not None and first_bind < first_mut):
            return []
    return out


def controls(rep):
    """Positive controls: a tiny module that violates each zero-expected rule must be flagged on every run."""
    from ..report import Report
    cdir = VERIF / "controls" / "c11"
    if not (cdir / "pdb2pqr").is_dir():
        raise AnalysisError("positive-control tree controls/c11/pdb2pqr is missing")
    cprog = Program(cdir)
    crep = Report("C11", "quick")
    run_lints(cprog, crep, set(cprog.funcs), "c")
    rc = rep.rule("R0", "positive controls: each lint fires on its seeded example", floor=5)
    want = {"R1c": "unordered|", "R2c": "ambient|", "R3c": "shared|", "R4c": "default|", "R5c": "memo|", "R6c": "dynamic|"}
    for r in crep.rules:
        fired = [o for o in r.obs if not o.ok and o.key.startswith(want[r.rid])]
        if r.rid == "R3c":
            al = [o for o in r.obs if not o.ok and "REGISTRY" in o.key]
            rc.add("control|R3-alias", bool(al), f"lint R3 {'flags' if al else 'MISSES'} a mutation made through a local alias of the shared object",
                   "controls/c11/pdb2pqr/control.py")
        if r.rid == "R1c":
            al = [o for o in r.obs if not o.ok and "list_extended_by_set" in o.key]
            rc.add("control|R1-list+=set", bool(al), f"lint R1 {'flags' if al else 'MISSES'} a list extended by a set", "controls/c11/pdb2pqr/control.py")
        rc.add(f"control|{r.rid[:-1]}", bool(fired), f"lint {r.rid[:-1]} {'flags' if fired else 'MISSES'} its control example "
               f"({fired[0].key if fired else 'no report'})", "controls/c11/pdb2pqr/control.py")
