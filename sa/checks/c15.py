"""C15 -- rigid-body fitting reproduces exact placements.

Decided statically by algebraic normal forms (E6): the straight-line arithmetic of q2mat, the
matrix part of qchichange composed with rotmol, the cmat assembly of qtrfit and the vector
algebra of utilities.dihedral are translated to polynomials and expanded/reduced (sympy as a
normaliser; a two-generator Groebner basis for c^2+s^2=1, |l|=1).  No branch, no path
condition, no solver query.  Convergence/accuracy of the Jacobi sweeps is not decided.
"""
from __future__ import annotations

import ast

from ..core import AnalysisError, U, calls_in, iter_stmts, try_fold, walk_no_defs


def sym_eval(e, env, sp):
    if isinstance(e, ast.Constant):
        return sp.nsimplify(e.value)
    if isinstance(e, ast.Name):
        if e.id not in env:
            raise AnalysisError(f"algebra: free name {e.id}")
        return env[e.id]
    if isinstance(e, ast.BinOp):
        a, b = sym_eval(e.left, env, sp), sym_eval(e.right, env, sp)
        if isinstance(e.op, ast.Add):
            return a + b
        if isinstance(e.op, ast.Sub):
            return a - b
        if isinstance(e.op, ast.Mult):
            return a * b
        if isinstance(e.op, ast.Div):
            return a / b
        raise AnalysisError(f"algebra: operator {type(e.op).__name__}")
    if isinstance(e, ast.UnaryOp) and isinstance(e.op, ast.USub):
        return -sym_eval(e.operand, env, sp)
    if isinstance(e, ast.UnaryOp) and isinstance(e.op, ast.UAdd):
        return sym_eval(e.operand, env, sp)
    if isinstance(e, ast.Subscript):
        v = sym_eval(e.value, env, sp)
        i = sym_eval(e.slice, env, sp)
        return v[int(i)]
    if isinstance(e, ast.Call) and isinstance(e.func, ast.Attribute) and e.func.attr in ("cos", "sin") and U(e.func.value) == "math":
        return env["__" + e.func.attr]
    raise AnalysisError(f"algebra: expression outside the straight-line arithmetic subset: {U(e)[:60]}")


def matrix_assignments(fn, name, env, sp, dim):
    M = [[None] * dim for _ in range(dim)]
    n = 0
    for st in fn.body:
        if isinstance(st, ast.Assign) and isinstance(st.targets[0], ast.Subscript) and isinstance(st.targets[0].value, ast.Subscript) \
                and U(st.targets[0].value.value) == name:
            tg = st.targets[0]
            i, j = try_fold(tg.value.slice), try_fold(tg.slice)
            if not (isinstance(i, int) and isinstance(j, int)):
                raise AnalysisError(f"algebra: non-constant index in {U(tg)}")
            M[i][j] = sym_eval(st.value, env, sp)
            n += 1
    return M, n


def rule_qtrfit_semantics(prog, r3, sp, qs, Aq, w3):
    """qtrfit is evaluated on two symbolic point pairs with the diagonaliser and q2mat kept uninterpreted, on every path
    through tests the symbols leave open."""
    from ..guards import Flow
    from ..objinterp import ObjRunner
    npts = 2
    D = [[sp.Symbol(f"d{p}{i}") for i in range(3)] for p in range(npts)]
    R = [[sp.Symbol(f"r{p}{i}") for i in range(3)] for p in range(npts)]
    V = [[sp.Symbol(f"v{i}{j}") for j in range(4)] for i in range(4)]
    rec = {}

    def extra(runner, interp, call, args, kw):
        nm = U(call.func)
        if nm == "jacobi":
            rec.setdefault("c", []).append([list(row) for row in args[0]])
            return [[sp.Symbol(f"e{i}") for i in range(4)], [list(row) for row in V]]
        if nm == "q2mat":
            rec.setdefault("q", []).append(list(args[0]))
            return "LROT"
        return NotImplemented

    run = ObjRunner(prog, "quatfit.py", extra_hook=extra, fork=True)

    def thunk():
        rec.clear()
        try:
            out = run.call_function("quatfit.py", "qtrfit", npts, [list(p) for p in D], [list(p) for p in R], sp.Symbol("nrot"))
        except Flow as fl:
            return ("raise", fl.value, dict(rec))
        return ("ok", out, {k: list(v) for k, v in rec.items()})

    paths = list(run.explore(thunk))
    r3.info["qtrfit_paths"] = len(paths)
    horn_bad, vec_bad = [], []
    qv = sp.Matrix(qs)
    overlap = sp.expand(sum(Aq[k, i] * D[p][i] * R[p][k] for p in range(npts) for i in range(3) for k in range(3)))
    for dec, (kind, out, got) in paths:
        tag = ("when " + "; ".join(f"{k[:50]} is {v}" for k, v in dec.items())) if dec else "on the only path"
        if kind != "ok":
            vec_bad.append(f"{tag}: qtrfit raises {out}")
            continue
        if len(got.get("c", [])) != 1 or len(got.get("q", [])) != 1:
            raise AnalysisError("qtrfit: expected one call of jacobi and one of q2mat on the model")
        c = got["c"][0]
        Cs = sp.Matrix(4, 4, lambda i, j: c[i][j] if i <= j else c[j][i])
        diff = sp.expand((qv.T * Cs * qv)[0] - overlap)
        if diff != 0:
            horn_bad.append(f"{tag}: q^T*C*q - overlap = {str(diff)[:120]}")
        want = [V[i][3] for i in range(4)]
        if got["q"][0] != want or not (isinstance(out, (list, tuple)) and len(out) == 2 and list(out[0]) == want and out[1] == "LROT"):
            vec_bad.append(f"{tag}: q2mat receives {got['q'][0]} and qtrfit returns {out}; the eigenvector of the largest eigenvalue is {want}")
    r3.add("horn-identity", not horn_bad,
           "q^T*C*q == sum_i rotmol(x_i, q2mat(q)) . y_i identically in q and the point coordinates, for the matrix qtrfit hands to the "
           "diagonaliser: its top eigenvector is the least-squares rotation for the way q2mat and rotmol are written" if not horn_bad else horn_bad[0], w3)
    r3.add("eigenvector-unmodified", not vec_bad,
           f"on all {len(paths)} path(s) the last eigenvector column goes to q2mat unchanged and (quaternion, matrix) are returned" if not vec_bad
           else vec_bad[0] + " -- a fit whose quaternion is replaced is no longer the best rigid superposition", w3)


def rule_callsite_semantics(prog, r4, sp):
    """set_dihedral_angle and rotate_tetrahedral are evaluated on object models whose coordinates are symbols; the rotation
    primitive is kept uninterpreted (it is decided by R2).  What is handed to it and what is stored back is compared, as
    polynomial identities, with 'rotate the far atoms about b->c, relative to b, by requested - current'."""
    from ..guards import Flow
    from ..objinterp import ObjRunner

    def atom(name):
        x, y, z = sp.symbols(f"{name}_x {name}_y {name}_z")
        return {"__class__": "Atom", "name": name, "x": x, "y": y, "z": z, "bonds": [], "cell": "C",
                "__props__": {"coords": lambda a: [a["x"], a["y"], a["z"]]}}

    calls = {}

    def mk_hook(res, cells_log):
        def extra(runner, interp, call, args, kw):
            nm = U(call.func)
            if nm in ("np.array", "numpy.array", "np.asarray") and args:
                return sp.Matrix(list(args[0]))
            if nm.endswith("qchichange") and len(args) == 3:
                k = len(calls.setdefault("q", []))
                out = [[sp.Symbol(f"R{k}_{j}_{i}") for i in range(3)] for j in range(len(list(args[1])))]
                calls["q"].append((args[0], [list(p) for p in args[1]], args[2], out))
                return out
            if nm.endswith("util.dihedral") or nm == "dihedral":
                flat = list(args[0]) if len(args) == 1 else list(args)
                calls.setdefault("d", []).append([list(c) for c in flat])
                return sp.Symbol("measured")
            if isinstance(call.func, ast.Attribute) and call.func.attr in ("remove_cell", "add_cell"):
                cells_log.append((call.func.attr, args[0]["name"] if args and isinstance(args[0], dict) else "?"))
                return None
            if isinstance(call.func, ast.Attribute):
                recv = None
                try:
                    recv = interp.ev(call.func.value)
                except AnalysisError:
                    return NotImplemented
                if recv is res:
                    if call.func.attr == "has_atom":
                        return args[0] in res["map"]
                    if call.func.attr == "get_atom":
                        return res["map"].get(args[0])
                    if call.func.attr == "get_moveable_names":
                        return list(res["__far__"])
            return NotImplemented
        return extra

    # ---- set_dihedral_angle on a four-atom torsion a-b-c-d with a second far atom e
    sdi = prog.func("debump.py", "Debump.set_dihedral_angle")
    w4 = f"pdb2pqr/debump.py:{sdi.node.lineno} (Debump.set_dihedral_angle)"
    A = {n: atom(n) for n in "abcde"}
    old, req = sp.symbols("current requested")
    res = {"__class__": "Residue", "map": A, "dihedrals": [sp.Symbol("other"), old], "__far__": ["d", "e"],
           "reference": {"__class__": "DefinitionResidue", "dihedrals": ["x x x x", "a b c d"]}}
    log = []
    run = ObjRunner(prog, "debump.py", extra_hook=mk_hook(res, log))
    deb = {"__class__": "Debump", "cells": {"__class__": "Cells"}}
    before = {n: list(A[n]["__props__"]["coords"](A[n])) for n in A}
    try:
        run.call(deb, "set_dihedral_angle", res, 1, req)
    except Flow as fl:
        r4.bad("frame|set_dihedral_angle", f"set_dihedral_angle stops with {fl.value} on the model torsion", w4)
        return
    q = calls.get("q", [])
    if len(q) != 1:
        raise AnalysisError(f"set_dihedral_angle: {len(q)} rotation calls on the model, expected one")
    axis, pts, ang, out = q[0]

    def same(u, v):
        return len(list(u)) == len(list(v)) and all(sp.expand(x - y) == 0 for x, y in zip(list(u), list(v)))

    b, c = before["b"], before["c"]
    r4.add("axis|set_dihedral_angle", same(axis, [c[i] - b[i] for i in range(3)]),
           f"rotation axis handed over: {list(axis)}; the bond b->c is {[c[i] - b[i] for i in range(3)]}", w4)
    okp = len(pts) == 2 and all(same(pts[k], [before[n][i] - b[i] for i in range(3)]) for k, n in enumerate("de"))
    r4.add("origin|set_dihedral_angle", okp and all(same([A[n]["x"], A[n]["y"], A[n]["z"]], [out[k][i] + b[i] for i in range(3)]) for k, n in enumerate("de")),
           "the far atoms are handed over relative to atom b and the rotated offsets are stored back with b added, atom by atom"
           if okp else f"points handed to the rotation: {pts}", w4)
    r4.add("angle|set_dihedral_angle", sp.expand(ang - (req - old)) == 0, f"rotation angle {ang} (requested - current = {req - old})", w4)
    untouched = all(same([A[n]["x"], A[n]["y"], A[n]["z"]], before[n]) for n in "abc")
    r4.add("near-side-fixed|set_dihedral_angle", untouched, "atoms a, b, c keep their coordinates", w4)
    d = calls.get("d", [])
    now = [[A[n]["x"], A[n]["y"], A[n]["z"]] for n in "abcd"]
    okd = len(d) == 1 and all(same(d[0][k], now[k]) for k in range(4)) and res["dihedrals"][1] == sp.Symbol("measured")
    r4.add("cache-refreshed|set_dihedral_angle", okd,
           "the stored torsion is re-measured from the four atoms' coordinates AFTER the move" if okd else
           f"the stored torsion becomes {res['dihedrals'][1]}, measured from {d[0] if d else 'nothing'}: not the current coordinates of a, b, c, d "
           "(the next call rotates by requested - stale)", w4)
    # ---- rotate_tetrahedral(atom1, atom2, angle): neighbours of atom2 other than atom1 turn about atom1->atom2
    calls.clear()
    rti = prog.func("residue.py", "Residue.rotate_tetrahedral")
    w5 = f"pdb2pqr/residue.py:{rti.node.lineno} (Residue.rotate_tetrahedral)"
    B = {n: atom(n) for n in ("p", "q", "h1", "h2")}
    B["q"]["bonds"] = [B["p"], B["h1"], B["h2"]]
    bef = {n: [B[n]["x"], B[n]["y"], B[n]["z"]] for n in B}
    run2 = ObjRunner(prog, "residue.py", extra_hook=mk_hook({"map": B, "__far__": []}, []))
    ang2 = sp.Symbol("angle")
    try:
        run2.call({"__class__": "Residue"}, "rotate_tetrahedral", B["p"], B["q"], ang2)
    except Flow as fl:
        r4.bad("frame|rotate_tetrahedral", f"rotate_tetrahedral stops with {fl.value} on the model", w5)
        return
    q = calls.get("q", [])
    okt = len(q) == 1 and same(q[0][0], [bef["q"][i] - bef["p"][i] for i in range(3)]) and sp.expand(q[0][2] - ang2) == 0 \
        and len(q[0][1]) == 2 and all(same(q[0][1][k], [bef[n][i] - bef["p"][i] for i in range(3)]) for k, n in enumerate(("h1", "h2"))) \
        and all(same([B[n]["x"], B[n]["y"], B[n]["z"]], [q[0][3][k][i] + bef["p"][i] for i in range(3)]) for k, n in enumerate(("h1", "h2"))) \
        and all(same([B[n]["x"], B[n]["y"], B[n]["z"]], bef[n]) for n in ("p", "q"))
    r4.add("frame|rotate_tetrahedral", okt, "axis = atom2 - atom1, the other neighbours of atom2 are rotated relative to atom1 and stored back with "
           "atom1 added; atom1 and atom2 stay", w5)


def check(prog, rep):
    try:
        import sympy as sp
    except ImportError as exc:
        raise AnalysisError("sympy is not available in this interpreter") from exc
    rep.explanation = (
        "polynomial normal forms of the rotation-matrix assignments in quatfit.q2mat / qchichange+rotmol / qtrfit and of "
        "utilities.dihedral on a canonical frame, expanded and reduced modulo c^2+s^2=1 and |l|=1; structural checks of the "
        "eigenvector selection and of the translate/rotate/translate composition and call-site frames"
    )
    rep.trusted += ["sympy expand / groebner (used as a polynomial normaliser)"]
    rep.guarded(rule_arguments_not_modified, prog, rep)  # first: stands even if the algebra below cannot be read off the code
    rep.guarded(rule_torsions_can_be_set, prog, rep)
    rep.guarded(rule_tetrahedral_move_set, prog, rep, "R9")
    rep.guarded(rule_stored_torsions_are_current, prog, rep, "R10")
    rep.not_decided += ["convergence of the Jacobi sweeps beyond the model fits of R6 (eight rigid motions of one template triple, two of "
                        "them chosen because they need five sweeps)", "degenerate (collinear) inputs", "the rounding of RADIANS_TO_DEGREES"]
    q = prog.module("quatfit.py")
    F = {n.name: n for n in q.tree.body if isinstance(n, ast.FunctionDef)}
    for need in ("q2mat", "qchichange", "rotmol", "qtrfit", "jacobi", "qfit", "qtransform", "find_coordinates", "center", "translate"):
        if need not in F:
            raise AnalysisError(f"quatfit.{need} not found")

    # ------------------------------------------------------------------ R1
    r1 = rep.rule("R1", "q2mat yields a proper rotation for every unit quaternion (never a mirror image)", floor=2)
    qs = sp.symbols("q0:4")
    from ..guards import Flow
    from ..objinterp import ObjRunner
    qrun = ObjRunner(prog, "quatfit.py")
    try:
        Um = qrun.call_function("quatfit.py", "q2mat", list(qs))
    except Flow as fl:
        raise AnalysisError(f"q2mat stops with {fl.value} on a symbolic quaternion") from None
    if not (isinstance(Um, list) and len(Um) == 3 and all(isinstance(r_, list) and len(r_) == 3 for r_ in Um)):
        raise AnalysisError("q2mat did not return a 3x3 nested list on the model")
    Umat = sp.Matrix(Um)
    nrm = sum(x * x for x in qs)
    ortho = (Umat * Umat.T - nrm**2 * sp.eye(3)).applyfunc(sp.expand)
    w1 = f"pdb2pqr/quatfit.py:{F['q2mat'].lineno} (q2mat)"
    r1.add("orthogonal", ortho == sp.zeros(3, 3), "U*U^T - |q|^4*I expands to the zero matrix identically in q0..q3"
           if ortho == sp.zeros(3, 3) else f"U*U^T - |q|^4*I = {ortho.tolist()}", w1)
    det = sp.expand(Umat.det() - nrm**3)
    r1.add("det+1", det == 0, "det U - |q|^6 expands to 0: determinant +1 on the unit sphere (proper rotation)" if det == 0 else
           f"det U - |q|^6 = {det}", w1)

    # ------------------------------------------------------------------ R2
    r2 = rep.rule("R2", "the torsion matrix is a right-handed Rodrigues rotation about the normalised axis", floor=4)
    ls = sp.symbols("l0:3")
    c, s = sp.symbols("c s")
    xs = sp.symbols("x0:3")
    ys = sp.symbols("y0:3")
    axis_sym = sp.symbols("a0:3")
    ang = sp.Symbol("angle")
    seen = {"normalize": [], "trig": []}

    def qc_extra(runner, interp, call, args, kw):
        nm = U(call.func)
        if nm.split(".")[-1] == "normalize" and len(args) == 1:
            seen["normalize"].append(list(args[0]))
            return list(ls)
        if nm in ("math.cos", "cos", "np.cos") and len(args) == 1:
            seen["trig"].append(args[0])
            return c
        if nm in ("math.sin", "sin", "np.sin") and len(args) == 1:
            seen["trig"].append(args[0])
            return s
        return NotImplemented

    def qc_names(interp, node):
        if U(node) in ("math.pi", "np.pi"):
            return sp.pi
        return NotImplemented

    crun = ObjRunner(prog, "quatfit.py", extra_hook=qc_extra)
    crun.names = lambda interp, node, _orig=crun.names: (sp.pi if U(node) in ("math.pi", "np.pi", "pi") else _orig(interp, node))
    try:
        out_pts = crun.call_function("quatfit.py", "qchichange", list(axis_sym), [list(xs), list(ys)], ang)
    except Flow as fl:
        raise AnalysisError(f"qchichange stops with {fl.value} on symbolic input") from None
    if not (isinstance(out_pts, list) and len(out_pts) == 2 and all(len(list(p_)) == 3 for p_ in out_pts)):
        raise AnalysisError("qchichange did not return one rotated point per input point on the model")
    A = sp.Matrix([sp.expand(e) for e in out_pts[0]]).jacobian(list(xs))
    A2 = sp.Matrix([sp.expand(e) for e in out_pts[1]]).jacobian(list(ys))
    G = sp.groebner([c**2 + s**2 - 1, ls[0]**2 + ls[1]**2 + ls[2]**2 - 1], c, s, *ls, order="grevlex")

    def red(e):
        return G.reduce(sp.expand(e))[1]

    w2 = f"pdb2pqr/quatfit.py:{F['qchichange'].lineno} (qchichange + rotmol)"
    L = sp.Matrix(ls)
    cross = sp.Matrix([[0, -ls[2], ls[1]], [ls[2], 0, -ls[0]], [-ls[1], ls[0], 0]])
    rod = c * sp.eye(3) + (1 - c) * (L * L.T) + s * cross
    d = (A - rod).applyfunc(sp.expand)
    r2.add("rodrigues", d == sp.zeros(3, 3), "effective matrix == c*I + (1-c)*l*l^T + s*[l]x identically (right-handed rotation by +angle)"
           if d == sp.zeros(3, 3) else f"effective matrix differs from the right-handed Rodrigues form by {d.tolist()}", w2)
    o = (A * A.T - sp.eye(3)).applyfunc(red)
    r2.add("orthogonal", o == sp.zeros(3, 3), "A*A^T = I modulo c^2+s^2=1, |l|=1", w2)
    ax = (A * L - L).applyfunc(red)
    r2.add("axis-fixed", ax == sp.zeros(3, 1), "A*l = l: points on the axis do not move, distances to axis atoms are preserved", w2)
    r2.add("det+1", red(A.det() - 1) == 0, "det A = 1 modulo the side relations", w2)
    r2.add("axis-normalised", bool(seen["normalize"]) and all(v == list(axis_sym) for v in seen["normalize"]),
           f"the axis used in the matrix is normalize(<axis argument>) (normalize called with {seen['normalize'][:1]})", w2)
    okang = bool(seen["trig"]) and all(sp.simplify(a_ - sp.pi * ang / 180) == 0 for a_ in seen["trig"])
    r2.add("degrees-to-radians", okang, f"cos/sin are taken of {sorted({str(a_) for a_ in seen['trig']})} (pi*angle/180 expected)", w2)
    lin0 = sp.expand(sp.Matrix(out_pts[0]) - A * sp.Matrix(xs)) == sp.zeros(3, 1)
    r2.add("applies-to-all-points", (A2 - A).applyfunc(sp.expand) == sp.zeros(3, 3) and lin0,
           "every point handed over is multiplied by the same matrix (two symbolic points in, two out)", w2)

    # ------------------------------------------------------------------ R3
    r3 = rep.rule("R3", "fit matrix, quaternion-to-matrix and rotmol conventions agree (Horn identity); largest eigenvector is used", floor=3)
    w3 = f"pdb2pqr/quatfit.py:{F['qtrfit'].lineno} (qtrfit)"
    Aq = rotmol_by_interpretation(prog, sp, [[Umat[i, j] for j in range(3)] for i in range(3)], xs)
    rule_qtrfit_semantics(prog, r3, sp, qs, Aq, w3)
    rule_jacobi_models(prog, rep, r3)

    # ------------------------------------------------------------------ R4
    r4 = rep.rule("R4", "call sites rotate about bond b->c relative to b; the measured torsion uses the same sign convention", floor=4)
    rule_callsite_semantics(prog, r4, sp)
    sub = prog.func("utilities.py", "subtract").node
    r4.add("subtract-order", _subtract_ok(sub), "utilities.subtract(a, b) returns a - b component-wise", f"pdb2pqr/utilities.py:{sub.lineno} (subtract)")
    # dihedral(): evaluate its vector algebra on the canonical frame p2=0, p3=z, p1=x, p4=(cos f, sin f, 1)
    dh = prog.func("utilities.py", "dihedral").node
    f = sp.symbols("phi", real=True)
    pts = {"coords1": sp.Matrix([1, 0, 0]), "coords2": sp.Matrix([0, 0, 0]), "coords3": sp.Matrix([0, 0, 1]),
           "coords4": sp.Matrix([sp.cos(f), sp.sin(f), 1])}
    env = dict(pts)
    chiral = scal = None
    for st in dh.body:
        if isinstance(st, ast.Assign) and isinstance(st.targets[0], ast.Name):
            try:
                env[st.targets[0].id] = vec_eval(st.value, env, sp)
            except AnalysisError:
                raise
        if isinstance(st, ast.If):
            break
    scal = env.get("scal")
    # the chirality test follows the if-cascade
    for st in dh.body:
        if isinstance(st, ast.Assign) and U(st.targets[0]) == "chiral":
            chiral = vec_eval(st.value, env, sp)
    neg = [st for st in dh.body if isinstance(st, ast.If) and U(st.test) in ("chiral < 0", "chiral < 0.0")]
    w6 = f"pdb2pqr/utilities.py:{dh.lineno} (dihedral)"
    ok = scal is not None and chiral is not None and sp.simplify(scal - sp.cos(f)) == 0 and sp.simplify(chiral - sp.sin(f)) == 0 \
        and bool(neg) and "value *= -1.0" in U(neg[0])
    r4.add("dihedral-sign", ok, f"on the canonical frame the cosine term is {sp.simplify(scal) if scal is not None else '?'} and the chirality term "
           f"{sp.simplify(chiral) if chiral is not None else '?'}; with 'negative if chiral < 0' the measured torsion is +phi, counter-clockwise about "
           "atom3 - atom2: a right-handed rotation by +delta about that axis (R2) increases it by delta", w6)

    # the snap-to-planar window of dihedral(): |cos +- 1| < eps reports exactly 0/180; its angular half-width acos(1 - eps)
    # must stay below the property's 0.05 degree tolerance (constant folding + a monotone function of the constant)
    import math
    cconsts = prog.module_constants("config.py")
    snaps = [n for n in ast.walk(dh) if isinstance(n, ast.Compare) and "scal" in U(n.left) and isinstance(n.ops[0], (ast.Lt, ast.LtE))]
    eps_vals = [try_fold(n.comparators[0], cconsts) for n in snaps]
    if snaps and all(isinstance(e, (int, float)) and 0 <= e < 1 for e in eps_vals):
        width = max(math.degrees(math.acos(1.0 - e)) for e in eps_vals)
        r4.add("dihedral-snap-window", width <= 0.05,
               f"dihedral() reports exactly 0/180 when |cos -/+ 1| < {sorted(set(eps_vals))}: a window of {width:.4f} degrees; the torsion set by "
               f"set_dihedral_angle (requested - measured) is off by up to that much ({'within' if width <= 0.05 else 'EXCEEDS'} the 0.05 degree tolerance)", w6)
    elif snaps:
        raise AnalysisError("dihedral(): snap thresholds do not fold to constants")

    # ------------------------------------------------------------------ R5
    r5 = rep.rule("R5", "the placed point is rotmol(d - mean(template), U) + mean(structure)", floor=2)
    rule_placement_semantics(prog, r5, sp)


SLOW_FITS = [  # (axis, angle in radians): rigid motions of the SER CB/CA/N triple whose fit needs a fifth Jacobi sweep (found by search, frozen)
    ((0.3573, 0.0924, 0.2334), 1.75884), ((-0.4044, -0.5629, 0.286), -2.30469),
]
PLAIN_FITS = [((0.0, 0.0, 1.0), 0.0), ((0.0, 0.0, 1.0), 1.5707963267948966), ((1.0, 0.0, 0.0), 3.141592653589793), ((1.0, 2.0, -0.5), 0.7),
              ((-0.3, 0.9, 0.2), -2.9), ((0.2, -0.1, 0.97), 0.0005)]


def rule_jacobi_models(prog, rep, r3):
    """The diagonaliser and the whole placement are evaluated on concrete models: a diagonal matrix (sorting and column
    permutation) and rigid motions of a template triple, two of which are known to need five sweeps."""
    import math
    from ..guards import Flow
    from ..objinterp import ObjRunner
    from ..tables import Tables
    jac = prog.func("quatfit.py", "jacobi")
    wj = f"pdb2pqr/quatfit.py:{jac.node.lineno} (jacobi)"
    run = ObjRunner(prog, "quatfit.py")
    diag = [3.0, 1.0, 4.0, 2.0]
    amat = [[diag[i] if i == j else 0.0 for j in range(4)] for i in range(4)]
    try:
        dvec, vmat = run.call_function("quatfit.py", "jacobi", amat, 30)
    except Flow as fl:
        raise AnalysisError(f"jacobi stops with {fl.value} on a diagonal matrix") from None
    order = sorted(range(4), key=lambda k: diag[k])
    oks = list(dvec) == sorted(diag) and all(abs(abs(vmat[order[k]][k]) - 1.0) < 1e-12 and
                                              all(abs(vmat[r_][k]) < 1e-12 for r_ in range(4) if r_ != order[k]) for k in range(4))
    r3.add("largest-eigenvector", oks, f"diag{tuple(diag)}: eigenvalues returned as {list(dvec)} with the eigenvector columns permuted along "
           f"(last column = axis {order[3]}, the largest eigenvalue's; qtrfit takes the last column: 'eigenvector-unmodified')" if oks else
           f"diag{tuple(diag)} -> eigenvalues {list(dvec)}, vectors {vmat}: not sorted ascending with matching columns", wj)
    # numeric models of the whole placement
    r6 = rep.rule("R6", "model fits: the placed atom lies within 1e-6 A of the exact rigid image of its template position", floor=6)
    t = Tables(prog.root)
    ser = t.map["SER"].atoms
    tpl = [list(ser[a].xyz) for a in ("CB", "CA", "N")]
    d = list(ser["OG"].xyz)

    def rot(v, axis, ang):
        nrm = math.sqrt(sum(a * a for a in axis))
        l_ = [a / nrm for a in axis]
        c_, s_ = math.cos(ang), math.sin(ang)
        dot = sum(l_[i] * v[i] for i in range(3))
        cr = [l_[1] * v[2] - l_[2] * v[1], l_[2] * v[0] - l_[0] * v[2], l_[0] * v[1] - l_[1] * v[0]]
        return [c_ * v[i] + (1 - c_) * dot * l_[i] + s_ * cr[i] for i in range(3)]

    shift = [3.0, -7.0, 11.0]
    fc = prog.func("quatfit.py", "find_coordinates")
    wf = f"pdb2pqr/quatfit.py:{fc.node.lineno} (find_coordinates; Jacobi sweeps in qfit/jacobi)"
    for kind, fits in (("plain", PLAIN_FITS), ("slow", SLOW_FITS)):
        for axis, ang in fits:
            ref = [[x + sh for x, sh in zip(rot(p_, axis, ang), shift)] for p_ in tpl]
            exact = [x + sh for x, sh in zip(rot(d, axis, ang), shift)]
            try:
                got = run.call_function("quatfit.py", "find_coordinates", 3, [list(p_) for p_ in ref], [list(p_) for p_ in tpl], list(d))
            except Flow as fl:
                r6.bad(f"fit|{kind}|{axis}:{ang:.4f}", f"find_coordinates stops with {fl.value}", wf)
                continue
            err = math.dist([float(x) for x in got], exact)
            r6.add(f"fit|{kind}|{axis}:{ang:.4f}", err <= 1e-6,
                   f"SER OG placed from CB/CA/N moved by {math.degrees(ang):.2f} deg about {axis}: {err:.2e} A from the exact image" +
                   ("" if err <= 1e-6 else " -- beyond the 1e-6 A of the property (the diagonalisation had not converged when it was stopped)"), wf)


def rotmol_by_interpretation(prog, sp, lrot, xs):
    """Effective matrix of rotmol(1, [x], lrot): the function is interpreted on a symbolic point."""
    from ..guards import Flow
    from ..objinterp import ObjRunner
    run = ObjRunner(prog, "quatfit.py")
    try:
        out = run.call_function("quatfit.py", "rotmol", 1, [list(xs)], [list(r_) for r_ in lrot])
    except Flow as fl:
        raise AnalysisError(f"rotmol stops with {fl.value} on a symbolic point") from None
    if not (isinstance(out, list) and len(out) == 1 and len(list(out[0])) == 3):
        raise AnalysisError("rotmol did not return one 3-vector for one point")
    return sp.Matrix([sp.expand(e) for e in out[0]]).jacobian(list(xs))


def rule_placement_semantics(prog, r5, sp):
    """find_coordinates is interpreted on three symbolic point pairs and a symbolic template atom with the fit itself
    (qtrfit) kept uninterpreted: the result must be rotmol(d - mean(template), L) + mean(structure), and the fit must be asked
    to superpose the centred template onto the centred structure."""
    from ..guards import Flow
    from ..objinterp import ObjRunner
    n = 3
    ref = [[sp.Symbol(f"s{p}{i}") for i in range(3)] for p in range(n)]   # structure points
    tpl = [[sp.Symbol(f"t{p}{i}") for i in range(3)] for p in range(n)]   # template points
    atom = [sp.Symbol(f"d{i}") for i in range(3)]
    L = [[sp.Symbol(f"L{i}{j}") for j in range(3)] for i in range(3)]
    rec = []

    def extra(runner, interp, call, args, kw):
        if U(call.func) == "qtrfit":
            rec.append([a for a in args])
            return ["QUAT", [list(r_) for r_ in L]]
        return NotImplemented

    run = ObjRunner(prog, "quatfit.py", extra_hook=extra)
    fc = prog.func("quatfit.py", "find_coordinates")
    where = f"pdb2pqr/quatfit.py:{fc.node.lineno} (find_coordinates -> qfit -> qtransform)"
    try:
        out = run.call_function("quatfit.py", "find_coordinates", n, [list(p_) for p_ in ref], [list(p_) for p_ in tpl], list(atom))
    except Flow as fl:
        raise AnalysisError(f"find_coordinates stops with {fl.value} on symbolic input") from None
    if len(rec) != 1 or len(rec[0]) < 3:
        raise AnalysisError("find_coordinates: expected one call of qtrfit on the model")
    mean_s = [sum(ref[p][i] for p in range(n)) / n for i in range(3)]
    mean_t = [sum(tpl[p][i] for p in range(n)) / n for i in range(3)]

    def same(u, v):
        return len(list(u)) == len(list(v)) and all(sp.simplify(sp.expand(x - y)) == 0 for x, y in zip(list(u), list(v)))

    fit_def, fit_ref = rec[0][1], rec[0][2]
    okd = len(fit_def) == n and all(same(fit_def[p], [tpl[p][i] - mean_t[i] for i in range(3)]) for p in range(n))
    okr = len(fit_ref) == n and all(same(fit_ref[p], [ref[p][i] - mean_s[i] for i in range(3)]) for p in range(n))
    r5.add("fit-direction", okd and okr and rec[0][0] == n,
           "the fit is asked to superpose the centred template points (first) onto the centred structure points (second), all of them" if okd and okr
           else f"qtrfit receives {str(fit_def)[:80]} / {str(fit_ref)[:80]}: not (template - mean, structure - mean)", where)
    A = rotmol_by_interpretation(prog, sp, L, sp.symbols("x0:3"))
    want = A * sp.Matrix([atom[i] - mean_t[i] for i in range(3)]) + sp.Matrix(mean_s)
    okp = isinstance(out, (list, tuple)) and len(list(out)) == 3 and same(list(out), list(want))
    r5.add("placement", okp, "the placed point is rotmol(d - mean(template), L) + mean(structure) for the rotation L the fit returns" if okp else
           f"find_coordinates returns {str(out)[:120]}", where)
    # a single point and a list of points go through the same transform
    r5.info["methods_interpreted"] = sorted(set(run.calls))


def rotmol_matrix(fn, lrot, xs, sp):
    env = {"lrot": lrot, "coor": [list(xs)], "i": 0}
    outs = []
    for node in ast.walk(fn):
        if isinstance(node, ast.Call) and isinstance(node.func, ast.Attribute) and node.func.attr == "append" and node.args \
                and isinstance(node.args[0], ast.BinOp):
            outs.append((node.lineno, sym_eval(node.args[0], env, sp)))
    outs.sort(key=lambda t: t[0])
    if len(outs) != 3:
        raise AnalysisError(f"rotmol: expected three component expressions, found {len(outs)}")
    return sp.Matrix([o for _, o in outs]).jacobian(list(xs))


def vec_eval(e, env, sp):
    """numpy vector algebra used by utilities.dihedral, on sympy column vectors."""
    if isinstance(e, ast.Name):
        if e.id not in env:
            raise AnalysisError(f"dihedral: free name {e.id}")
        return env[e.id]
    if isinstance(e, ast.Constant):
        return sp.nsimplify(e.value)
    if isinstance(e, ast.BinOp):
        a, b = vec_eval(e.left, env, sp), vec_eval(e.right, env, sp)
        if isinstance(e.op, ast.Sub):
            return a - b
        if isinstance(e.op, ast.Add):
            return a + b
        if isinstance(e.op, ast.Mult):
            return a * b
    if isinstance(e, ast.Call):
        name = U(e.func)
        args = [vec_eval(a, env, sp) for a in e.args]
        if name == "np.array":
            return args[0]
        if name == "np.cross":
            return args[0].cross(args[1])
        if name == "np.inner":
            return sp.simplify(args[0].dot(args[1]))
        if name == "normalize":
            v = args[0]
            n = sp.sqrt(sp.simplify(v.dot(v)))
            return (v / n).applyfunc(sp.simplify)
    raise AnalysisError(f"dihedral: expression outside the recognised vector algebra: {U(e)[:60]}")


def _subtract_ok(fn):
    params = [a.arg for a in fn.args.args][:2]
    rets = [st.value for st in iter_stmts(fn.body) if isinstance(st, ast.Return)]
    if len(params) != 2 or len(rets) != 1 or not isinstance(rets[0], ast.BinOp) or not isinstance(rets[0].op, ast.Sub):
        # list form:  [a[i] - b[i] for i in range(3)]
        if len(rets) == 1 and isinstance(rets[0], ast.ListComp) and isinstance(rets[0].elt, ast.BinOp) and isinstance(rets[0].elt.op, ast.Sub):
            e = rets[0].elt
            return params[0] in U(e.left) and params[1] in U(e.right) and params[1] not in U(e.left)
        return False
    e = rets[0]
    return params[0] in U(e.left) and params[1] in U(e.right) and params[1] not in U(e.left) and params[0] not in U(e.right)


_VIEW_CALLS = {"asarray", "asanyarray", "ascontiguousarray", "asfarray", "atleast_1d", "atleast_2d", "squeeze", "ravel", "reshape", "transpose"}
_VIEW_ATTRS = {"T", "real", "flat"}
_MUTATORS = {"append", "extend", "insert", "pop", "remove", "sort", "reverse", "clear", "fill", "resize", "put", "itemset", "partition", "setfield", "__setitem__",
             "__iadd__", "__isub__", "__imul__", "update"}


def rule_arguments_not_modified(prog, rep):
    """Effect analysis of quatfit.py: which parameters can a function modify in place - directly (a store through the parameter, through
    a view of it, or an in-place operator on either) or by handing it, or a view of it, to a function of the module that modifies the
    corresponding parameter.  The functions the pipeline calls from other modules must modify none: a placement must not move the
    structure or template points it was given."""
    r = rep.rule("R7", "the fitting routines called by the pipeline do not modify the point lists they are given", floor=2)
    mod = prog.modules["quatfit.py"]
    funcs = {n.name: n for n in mod.tree.body if isinstance(n, ast.FunctionDef)}

    def aliases(fn):
        """name -> {(param, kind)}; kind 'whole' (the object itself or a view) or 'element' (an item reached by an index)."""
        params = [a.arg for a in fn.args.args]
        al = {p_: {(p_, "whole")} for p_ in params}

        def of(expr):
            if isinstance(expr, ast.Name):
                return set(al.get(expr.id, ()))
            if isinstance(expr, ast.Subscript):
                base = of(expr.value)
                whole = isinstance(expr.slice, ast.Slice) or (isinstance(expr.slice, ast.Tuple) and any(isinstance(e, ast.Slice) for e in expr.slice.elts))
                return {(p_, k if whole else "element") for p_, k in base}
            if isinstance(expr, ast.Attribute) and expr.attr in _VIEW_ATTRS:
                return of(expr.value)
            if isinstance(expr, ast.Call):
                nm = U(expr.func).split(".")[-1]
                if nm in _VIEW_CALLS:
                    src = expr.args[0] if expr.args else (expr.func.value if isinstance(expr.func, ast.Attribute) else None)
                    if isinstance(expr.func, ast.Attribute) and not U(expr.func.value).split(".")[0] in ("np", "numpy"):
                        src = expr.func.value
                    return of(src) if src is not None else set()
                if nm == "array" and any(k.arg == "copy" and isinstance(k.value, ast.Constant) and k.value.value is False for k in expr.keywords):
                    return of(expr.args[0]) if expr.args else set()
            if isinstance(expr, ast.IfExp):
                return of(expr.body) | of(expr.orelse)
            return set()

        for _ in range(4):  # flow-insensitive closure over the assignments
            for n in ast.walk(fn):
                if isinstance(n, ast.Assign) and len(n.targets) == 1 and isinstance(n.targets[0], ast.Name):
                    al.setdefault(n.targets[0].id, set()).update(of(n.value))
                elif isinstance(n, (ast.For, ast.comprehension)) and isinstance(n.target, ast.Name):
                    al.setdefault(n.target.id, set()).update({(p_, "element") for p_, _ in of(n.iter)})
        return al, of

    direct, passes = {}, {}
    for name, fn in funcs.items():
        al, of = aliases(fn)
        hit, handed = {}, []
        for n in ast.walk(fn):
            if isinstance(n, (ast.Assign, ast.AugAssign, ast.Delete)):
                targets = n.targets if isinstance(n, (ast.Assign, ast.Delete)) else [n.target]
                for t_ in targets:
                    if isinstance(t_, ast.Subscript):
                        for p_, _ in of(t_.value):
                            hit.setdefault(p_, f"line {n.lineno}: {U(n)[:50]}")
                    elif isinstance(t_, ast.Name) and isinstance(n, ast.AugAssign):
                        for p_, k in al.get(t_.id, ()):
                            if k == "whole":
                                hit.setdefault(p_, f"line {n.lineno}: {U(n)[:50]} (in-place operator on the argument or a view of it)")
            if isinstance(n, ast.Call) and isinstance(n.func, ast.Attribute) and n.func.attr in _MUTATORS:
                for p_, _ in of(n.func.value):
                    hit.setdefault(p_, f"line {n.lineno}: {U(n)[:50]}")
            if isinstance(n, ast.Call) and isinstance(n.func, ast.Name) and n.func.id in funcs:
                for i, a in enumerate(n.args):
                    for p_, _ in of(a):
                        handed.append((n.func.id, i, p_, n.lineno))
        direct[name], passes[name] = hit, handed
    changed = True
    while changed:
        changed = False
        for name in funcs:
            for callee, i, p_, line in passes[name]:
                cp = [a.arg for a in funcs[callee].args.args]
                if i < len(cp) and cp[i] in direct[callee] and p_ not in direct[name]:
                    direct[name][p_] = f"line {line}: handed to {callee}(), which modifies its parameter {cp[i]!r} ({direct[callee][cp[i]]})"
                    changed = True
    external = set()
    for key, f in prog.funcs.items():
        if f.module.rel == "quatfit.py":
            continue
        for c in calls_in(f.node):
            nm = U(c.func).split(".")
            if len(nm) == 2 and nm[0] in ("quat", "quatfit") and nm[1] in funcs:
                external.add(nm[1])
    if not external:
        raise AnalysisError("no call into quatfit from the pipeline found")
    for name in sorted(external):
        fn = funcs[name]
        r.add(f"pure|{name}", not direct[name], f"{name}({', '.join(a.arg for a in fn.args.args)}): " + ("modifies none of its arguments, directly or through "
              "the functions it calls" if not direct[name] else "; ".join(f"modifies {p_!r} - {why}" for p_, why in direct[name].items())),
              f"pdb2pqr/quatfit.py:{fn.lineno} ({name})")
    r.info["functions_analysed"] = len(funcs)
    r.info["modifying_internal_functions"] = {n_: sorted(d) for n_, d in direct.items() if d}


def rule_torsions_can_be_set(prog, rep):
    """The symbolic argument of R4 (the fourth atom arrives at the requested angle) presupposes that the fourth atom is rotated at all: the
    part of C04's torsion move-set table that says so is listed here - no tabulated torsion has its rotated bond inside a ring, and no atom
    of the far side is left behind."""
    from ..report import Report
    from . import c04
    tmp = Report("C04", rep.tier)
    c04.check(prog, tmp)
    src = next((x for x in tmp.rules if x.rid == "R1"), None)
    if src is None:
        raise AnalysisError("the torsion move-set table (C04.R1) was not produced")
    r = rep.rule("R8", "every tabulated torsion can be set: the rotated bond is not part of a ring and the whole far side is rotated", floor=20)
    for ob in src.obs:
        if ob.key == "no-ring-bonds" or ob.key.startswith(("left-behind|", "atom|")):
            r.add(ob.key, ob.ok, ob.what, ob.where)
    # the four atoms of every tabulated torsion - of the residues and of every patched form PATCHES.xml generates - are bonded in a row: otherwise
    # the fourth atom does not hang from the rotated bond and setting the torsion moves something else
    from ..tables import Tables
    t = Tables(prog.root)
    n_dih, loose = 0, []
    for name, ref in t.map.items():
        for dih in ref.dihedrals:
            a = dih.split()
            if len(a) != 4 or any(x not in ref.atoms for x in a):
                continue
            n_dih += 1
            for x, y in zip(a, a[1:]):
                if y not in ref.atoms[x].bonds and x not in ref.atoms[y].bonds:
                    loose.append(f"{name}: {dih} ({x}-{y} is not a bond)")
    r.add("torsion-atoms-bonded-in-a-row", not loose and n_dih > 300, f"{n_dih} tabulated torsions (residues and patched forms): consecutive atoms are bonded"
          + (f" - NOT so: {loose[:4]}" if loose else ""), "pdb2pqr/dat/AA.xml, NA.xml, PATCHES.xml")


def rule_tetrahedral_move_set(prog, rep, rid="R9"):
    """Residue.rotate_tetrahedral(atom1, atom2, angle) is evaluated on model centres (the rotation itself stays uninterpreted: R2 decides the
    matrix): the atoms that receive the rotated coordinates must be exactly the atoms bonded to atom2 other than atom1 - terminal atoms and
    atoms that carry substituents of their own alike - each receiving the image of its own position, and nothing else may move."""
    from ..guards import Flow, Obj
    from ..objinterp import ObjRunner
    r = rep.rule(rid, "rotate_tetrahedral turns every atom bonded to the far atom of the axis, and only those", floor=3)
    fn = prog.func("residue.py", "Residue.rotate_tetrahedral")
    where = f"pdb2pqr/residue.py:{fn.node.lineno} (Residue.rotate_tetrahedral)"
    # name -> bonded names; axis atom1 -> atom2
    models = {
        "methyl on a chain (three terminal hydrogens)": ({"CA": ["CB", "N"], "CB": ["CA", "HB1", "HB2", "HB3"], "HB1": ["CB"], "HB2": ["CB"], "HB3": ["CB"], "N": ["CA"]}, ("CA", "CB")),
        "methylene in a chain (two hydrogens and a substituted carbon)": ({"CB": ["CA", "CG"], "CG": ["CB", "HG2", "HG3", "CD"], "HG2": ["CG"], "HG3": ["CG"],
                                                                          "CD": ["CG", "OE1", "OE2"], "OE1": ["CD"], "OE2": ["CD"], "CA": ["CB"]}, ("CB", "CG")),
        "hydroxyl (one hydrogen, listed after a lone pair)": ({"CB": ["OG", "CA"], "OG": ["LP1", "CB", "HG"], "HG": ["OG"], "LP1": ["OG"], "CA": ["CB"]}, ("CB", "OG")),
        "far atom in a ring (both ring neighbours are substituted)": ({"CB": ["CG"], "CG": ["CD1", "CB", "CD2"], "CD1": ["CG", "CE1"], "CD2": ["CG", "CE2"], "CE1": ["CD1"], "CE2": ["CD2"]}, ("CB", "CG")),
    }
    for label, (graph, (n1, n2)) in models.items():
        atoms = {}
        for k, nm in enumerate(graph):
            atoms[nm] = Obj({"__class__": "Atom", "name": nm, "x": 1.0 + k, "y": 0.5 * k, "z": -0.25 * k, "bonds": [],
                             "__props__": {"coords": lambda a_: [a_["x"], a_["y"], a_["z"]]}})
        for nm, nbrs in graph.items():
            atoms[nm]["bonds"] = [atoms[b] for b in nbrs]
        before = {nm: (a["x"], a["y"], a["z"]) for nm, a in atoms.items()}
        seen = {}

        def extra(runner, interp, call, args, kw, seen=seen, atoms=atoms, n1=n1):
            if U(call.func).endswith("qchichange") and len(args) == 3:
                seen["axis"], seen["coords"], seen["angle"] = args[0], [list(c) for c in args[1]], args[2]
                return [[10000.0 + 10 * i, 20000.0 + 10 * i, 30000.0 + 10 * i] for i in range(len(args[1]))]
            return NotImplemented

        res = Obj({"__class__": "Residue", "name": "XXX", "atoms": list(atoms.values()), "map": dict(atoms)})
        run = ObjRunner(prog, "residue.py", extra_hook=extra)
        try:
            run.call(res, "rotate_tetrahedral", atoms[n1], atoms[n2], 37.5)
        except Flow as fl:
            r.bad(f"moves|{label}", f"rotate_tetrahedral stops with {fl.value}", where)
            continue
        if "coords" not in seen:
            raise AnalysisError("rotate_tetrahedral: no call to qchichange on the model centre")
        moved = {nm for nm, a in atoms.items() if (a["x"], a["y"], a["z"]) != before[nm]}
        want = set(graph[n2]) - {n1}
        problems = []
        if moved != want:
            problems.append(f"atoms that moved {sorted(moved)}, atoms bonded to {n2} other than {n1}: {sorted(want)}")
        # each moved atom gets the image of its own position relative to atom1: the i-th rotated point goes to the atom whose offset was the i-th input
        o = before[n1]
        for nm in sorted(moved & want):
            a = atoms[nm]
            i = round((a["x"] - o[0] - 10000.0) / 10)
            if not (0 <= i < len(seen["coords"])) or any(abs(seen["coords"][i][k] - (before[nm][k] - o[k])) > 1e-9 for k in range(3)) or \
                    abs(a["y"] - o[1] - 20000.0 - 10 * i) > 1e-6 or abs(a["z"] - o[2] - 30000.0 - 10 * i) > 1e-6:
                problems.append(f"{nm} received the image of another point (or not relative to {n1})")
        ax = seen.get("axis")
        if not ax or any(abs(ax[k] - (before[n2][k] - before[n1][k])) > 1e-9 for k in range(3)):
            problems.append(f"the rotation axis handed to qchichange is {ax}, not {n2} - {n1}")
        if seen.get("angle") != 37.5:
            problems.append(f"the angle handed to qchichange is {seen.get('angle')}, requested 37.5")
        r.add(f"moves|{label}", not problems, f"{label}: " + ("; ".join(problems) if problems else f"rotated {sorted(moved)} about {n1}-{n2}"), where)


def rule_stored_torsions_are_current(prog, rep, rid="R10"):
    """Debump.set_dihedral_angle rotates by (requested - stored), so a torsion is set right only if the stored value is the torsion the atoms
    have now.  Biomolecule.calculate_dihedral_angles is evaluated twice on a model residue whose atoms move between the two calls (by anything:
    a tetrahedral rotation, a flip, the caller): after the second call every stored value must be the measurement of the current positions."""
    from ..guards import Flow, Obj
    from ..objinterp import ObjRunner
    r = rep.rule(rid, "the stored torsions are measured anew at every pass: a torsion is set relative to where the atoms are now", floor=2)
    fn = prog.func("biomolecule.py", "Biomolecule.calculate_dihedral_angles")
    where = f"pdb2pqr/biomolecule.py:{fn.node.lineno} (Biomolecule.calculate_dihedral_angles)"
    names = ["N", "CA", "CB", "CG", "CD"]

    def measure(pts):
        return round(sum((i + 1) * (p[0] + 2 * p[1] + 3 * p[2]) for i, p in enumerate(pts)), 6)  # any injective stand-in for the torsion

    def extra(runner, interp, call, args, kw):
        if U(call.func).endswith("dihedral") and len(args) == 4 and not kw:
            return measure(args)
        return NotImplemented

    for label, present in (("all atoms present", names), ("an atom missing at first, present later", names[:-1])):
        atoms = {nm: Obj({"__class__": "Atom", "name": nm, "x": float(k), "y": 0.5 * k * k, "z": -1.0 * k, "bonds": [],
                          "__props__": {"coords": lambda a_: [a_["x"], a_["y"], a_["z"]]}}) for k, nm in enumerate(names)}
        ref = Obj({"__class__": "DefinitionResidue", "name": "XXX", "dihedrals": ["N CA CB CG", "CA CB CG CD"], "map": {}})
        res = Obj({"__class__": "LYS", "name": "LYS", "atoms": [atoms[n] for n in present], "map": {n: atoms[n] for n in present}, "dihedrals": [],
                   "reference": ref, "is_n_term": False, "is_c_term": False})
        wat = Obj({"__class__": "WAT", "name": "HOH", "atoms": [], "map": {}, "dihedrals": [], "reference": None})
        bio = Obj({"__class__": "Biomolecule", "residues": [wat, res], "chains": []})
        run = ObjRunner(prog, "biomolecule.py", extra_hook=extra)
        try:
            run.call(bio, "calculate_dihedral_angles")
            first = list(res["dihedrals"])
            for k, nm in enumerate(names):  # the atoms move (not through set_dihedral_angle), the missing atom appears
                atoms[nm]["x"] += 0.37 * (k + 1)
                atoms[nm]["z"] -= 0.11 * k
            res["atoms"] = [atoms[n] for n in names]
            res["map"] = {n: atoms[n] for n in names}
            run.call(bio, "calculate_dihedral_angles")
        except Flow as fl:
            r.bad(f"current|{label}", f"calculate_dihedral_angles stops with {fl.value}", where)
            continue
        want = [measure([[atoms[n]["x"], atoms[n]["y"], atoms[n]["z"]] for n in d.split()]) for d in ref["dihedrals"]]
        got = list(res["dihedrals"])
        r.add(f"current|{label}", got == want, f"{label}: stored after the first pass {first}; the atoms moved; stored after the second pass {got}, "
              f"measured on the current positions {want}", where)
