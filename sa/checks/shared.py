"""Rules shared by several properties (each property lists them under its own rule id)."""
from __future__ import annotations

import ast
import itertools

from ..core import (AnalysisError, U, calls_in, eval_formula, formula_atoms, iter_stmts, parent, reach_formula, try_fold,
                    walk_no_defs)

LIST_MUTATORS = {"remove", "append", "insert", "pop", "extend", "clear", "sort", "reverse"}
OWNER_MUTATORS = {"atoms": {"remove_atom", "add_atom", "create_atom"}, "residues": {"add_residue", "remove_residue"}}


def reach_matches(stmt, root, atom_map, want):
    """Does `stmt` execute (within one pass through root's body) exactly under the expected condition?
    atom_map: atom text -> (variable, polarity) -- the tests the condition may be written with, in any arrangement of ifs, early
    exits and boolean operators; want(values) -> True / False / None (either).  Returns (ok, text)."""
    f = reach_formula(stmt, root)
    atoms = list(formula_atoms(f))
    foreign = [a for a in atoms if a not in atom_map]
    if foreign:
        return False, f"depends on tests outside the expected condition: {foreign}"
    variables = sorted({v for v, _ in atom_map.values()})
    for bits in itertools.product((False, True), repeat=len(variables)):
        val = dict(zip(variables, bits))
        got = eval_formula(f, {a: val[atom_map[a][0]] == atom_map[a][1] for a in atoms})
        exp = want(val)
        if exp is not None and got != exp:
            return False, f"with {val}: reached={got}, expected {exp}"
    return True, f"reached exactly under the expected condition (tests used: {atoms})"


def static_head(expr):
    """The constant beginning of a message expression (string constant, f-string, concatenation)."""
    if isinstance(expr, ast.Constant) and isinstance(expr.value, str):
        return expr.value
    if isinstance(expr, ast.JoinedStr):
        out = ""
        for v in expr.values:
            if isinstance(v, ast.Constant) and isinstance(v.value, str):
                out += v.value
            else:
                break
        return out
    if isinstance(expr, ast.BinOp) and isinstance(expr.op, ast.Add):
        whole = isinstance(expr.left, ast.Constant) or (isinstance(expr.left, ast.JoinedStr) and all(isinstance(v, ast.Constant) for v in expr.left.values))
        return static_head(expr.left) + (static_head(expr.right) if whole else "")
    return ""


def representative_message(expr):
    """A concrete message for a message expression: its constant parts, every formatted value replaced by a placeholder."""
    if isinstance(expr, ast.Constant) and isinstance(expr.value, str):
        return expr.value
    if isinstance(expr, ast.JoinedStr):
        return "".join(v.value if isinstance(v, ast.Constant) and isinstance(v.value, str) else "<value>" for v in expr.values)
    if isinstance(expr, ast.BinOp) and isinstance(expr.op, ast.Add):
        return representative_message(expr.left) + representative_message(expr.right)
    return "<value>"


_DELIVERY = {}


def suppressed_by_filter(prog, log_call):
    """Is a warning the properties rely on kept from the user by the duplicate-message filter attached to the loggers?  io.DuplicateFilter.filter
    is evaluated on a model record carrying a representative text of the message, 25 times in a row on one filter object (repeated reports in
    one run, and the same report in later runs of one process): every one must pass.  Returns a description of the suppression or None.
    Fallback when the filter cannot be evaluated: the message must not begin like an entry of config.FILTER_WARNINGS."""
    if not log_call.args:
        return None
    text = representative_message(log_call.args[0])
    key = (id(prog), text)
    if key not in _DELIVERY:
        _DELIVERY[key] = _filter_verdict(prog, text)
    if _DELIVERY[key] is not NotImplemented:
        return _DELIVERY[key]
    head = static_head(log_call.args[0])
    for w in prog.module_constants("config.py").get("FILTER_WARNINGS", []) or []:
        if isinstance(w, str) and head and (head.startswith(w) or w.startswith(head)):
            return w
    return None


def _filter_verdict(prog, text):
    from ..guards import Flow, Obj
    from ..objinterp import ObjRunner
    if not prog.classes_by_name.get("DuplicateFilter"):
        return None

    def extra(runner, interp, call, args, kw):
        if isinstance(call.func, ast.Attribute) and call.func.attr == "getMessage" and not args:
            recv = interp.ev(call.func.value)
            if isinstance(recv, dict) and recv.get("__class__") == "<record>":
                return recv["msg"]
        return NotImplemented

    try:
        run = ObjRunner(prog, "io.py", extra_hook=extra)
        filt = run.new("DuplicateFilter")
        for k in range(25):
            rec = Obj({"__class__": "<record>", "levelname": "WARNING", "levelno": 30, "msg": text, "name": "pdb2pqr.biomolecule", "args": ()})
            if not run.call(filt, "filter", rec):
                return f"io.DuplicateFilter lets the message {text[:50]!r} through {k} time(s) and drops it from then on"
    except Flow as fl:
        return f"io.DuplicateFilter stops with {fl.value} on the message {text[:50]!r}"
    except AnalysisError:
        return NotImplemented
    return None


from ..fsmodel import FileSystemModel, _PathModel  # noqa: E402,F401  (re-exported: the checks import it from here)


def patch_isolation_on_models(prog):
    """Biomolecule.apply_patch evaluated on two model residues that share one reference topology (as all residues of a type do): a patch that
    adds an atom, removes one and adds a torsion is applied to the first, in four histories (no patch before / PEPTIDE before; residue with or
    without the removed atom).  -> list of problems ('' entries never); raises AnalysisError if not evaluable."""
    import copy as _copy

    from ..guards import Flow, Obj
    from ..objinterp import ObjRunner
    problems = []
    # what the patch does: adds an atom / removes one / adds a torsion - all three, and each alone (CYX only removes, a cap only adds)
    kinds = {"adds, removes and adds a torsion": (True, True, True), "only removes an atom": (False, True, False),
             "only adds a torsion": (False, False, True), "only adds an atom": (True, False, False)}
    import itertools as _it
    for (kind, (adds, removes, torsion)), peptide_first in _it.product(kinds.items(), (False, True)):
        for has_removed in (True, False):
            ref = Obj({"__class__": "DefinitionResidue", "name": "CYS", "dihedrals": ["N CA CB SG"],
                       "map": {n: Obj({"__class__": "DefinitionAtom", "name": n, "bonds": list(b)}) for n, b in
                               (("N", ["CA"]), ("CA", ["N", "CB", "C"]), ("C", ["CA"]), ("CB", ["CA", "SG"]), ("SG", ["CB", "HG"]), ("HG", ["SG"]))}})
            ref["__props__"] = {}

            def residue(tag, with_hg):
                atoms = ["N", "CA", "C", "CB", "SG"] + (["HG"] if with_hg else [])
                res = Obj({"__class__": "CYS", "name": "CYS", "__id__": tag, "reference": ref, "patches": [], "map": {}, "atoms": []})
                for n in atoms:
                    a = Obj({"__class__": "Atom", "name": n, "reference": ref["map"][n], "residue": res, "bonds": []})
                    res["map"][n] = a
                    res["atoms"].append(a)
                return res

            r1, r2 = residue("first", has_removed), residue("second", True)
            patches = {
                "MODEL": Obj({"__class__": "Patch", "name": "MODEL", "map": {"XS": Obj({"__class__": "DefinitionAtom", "name": "XS", "bonds": ["SG"]})} if adds else {},
                              "remove": ["HG"] if removes else [], "dihedrals": ["CA CB SG XS"] if torsion else [], "altnames": {}, "newname": ""}),
                "PEPTIDE": Obj({"__class__": "Patch", "name": "PEPTIDE", "map": {"N+1": Obj({"__class__": "DefinitionAtom", "name": "N+1", "bonds": ["C"]})},
                                "remove": [], "dihedrals": [], "altnames": {}, "newname": ""}),
            }

            def extra(runner, interp, call, args, kw):
                nm = U(call.func)
                if nm in ("copy.deepcopy", "deepcopy") and len(args) == 1:
                    return _copy.deepcopy(args[0])
                if isinstance(call.func, ast.Attribute):
                    try:
                        recv = interp.ev(call.func.value)
                    except AnalysisError:
                        return NotImplemented
                    a_ = call.func.attr
                    if isinstance(recv, dict) and recv.get("__class__") == "CYS":
                        if a_ == "remove_atom":
                            atom = recv["map"].pop(args[0], None)
                            recv["atoms"][:] = [x for x in recv["atoms"] if x is not atom]
                            return None
                        if a_ == "get_atom":
                            return recv["map"].get(args[0])
                        if a_ == "has_atom":
                            return args[0] in recv["map"]
                        if a_ == "rename_atom":
                            return None
                    if isinstance(recv, dict) and recv.get("__class__") == "DefinitionResidue" and a_ == "has_atom":
                        return args[0] in recv["map"]
                return NotImplemented

            run = ObjRunner(prog, "biomolecule.py", extra_hook=extra)
            bio = Obj({"__class__": "Biomolecule", "patch_map": patches, "residues": [r1, r2]})
            try:
                if peptide_first:
                    run.call(bio, "apply_patch", "PEPTIDE", r1)
                    run.call(bio, "apply_patch", "PEPTIDE", r2)
                run.call(bio, "apply_patch", "MODEL", r1)
            except Flow as fl:
                problems.append(f"apply_patch stops with {fl.value}")
                continue
            hist = f"a patch that {kind}, {'after the PEPTIDE patch' if peptide_first else 'first patch'}, residue {'with' if has_removed else 'without'} the removed atom"
            m1, m2 = r1["reference"]["map"], r2["reference"]["map"]
            sg1 = m1.get("SG", {}).get("bonds", [])
            if (removes and ("HG" in m1 or "HG" in sg1)) or (adds and ("XS" not in m1 or "XS" not in sg1)) or (torsion and "CA CB SG XS" not in r1["reference"]["dihedrals"]):
                problems.append(f"{hist}: the patched residue's own topology is not the patched one (atoms {sorted(m1)}, SG bonded to {m1.get('SG', {}).get('bonds')})")
            if "HG" not in m2 or "XS" in m2 or "HG" not in m2["SG"]["bonds"] or "XS" in m2["SG"]["bonds"] or "CA CB SG XS" in r2["reference"]["dihedrals"]:
                problems.append(f"{hist}: the patch leaks to the other residue of the same type (its topology now has atoms {sorted(m2)}, SG bonded to "
                                f"{m2['SG']['bonds']}, torsions {r2['reference']['dihedrals']})")
            if "XS" in patches["MODEL"]["map"] and patches["MODEL"]["map"]["XS"]["bonds"] != ["SG"]:
                problems.append(f"{hist}: the patch definition itself was modified")
            if "MODEL" not in r1["patches"] or (removes and "HG" in r1["map"]):
                problems.append(f"{hist}: the patched residue keeps the removed atom or does not record the patch")
    return problems


def rule_patch_isolation(prog, rep, rid):
    """apply_patch must give every patched residue a private copy of its reference (only PEPTIDE is applied in place)."""
    r = rep.rule(rid, "patches act on a private copy of the residue's reference; only PEPTIDE edits the shared one", floor=2)
    fn = prog.func("biomolecule.py", "Biomolecule.apply_patch").node
    where = f"pdb2pqr/biomolecule.py:{fn.lineno} (Biomolecule.apply_patch)"
    try:
        problems = patch_isolation_on_models(prog)
    except AnalysisError:
        problems = None
    if problems is not None:
        r.add("in-place-only-for-PEPTIDE", not any("leaks" in p_ or "definition itself" in p_ for p_ in problems),
              "apply_patch on two model residues sharing one topology, four histories: a patch applied to one never shows in the other's topology nor in the "
              "patch definition" + ("" if not problems else " - NOT so: " + "; ".join(p_ for p_ in problems if "leaks" in p_ or "definition itself" in p_)[:400]), where)
        own = [p_ for p_ in problems if "leaks" not in p_ and "definition itself" not in p_]
        r.add("removals-on-working-copy", not own, "the patched residue's own topology gains the added atom, bond and torsion and loses the removed atom and its bonds"
              + ("" if not own else " - NOT so: " + "; ".join(own)[:400]), where)
        r.add("copy-exists", not problems, "decided on the model residues (see the two obligations above)", where)
        return
    # the working reference: the name finally stored into residue.reference
    fin = [s for s in iter_stmts(fn.body) if isinstance(s, ast.Assign) and U(s.targets[0]) == "residue.reference"]
    if not fin or not isinstance(fin[-1].value, ast.Name):
        raise AnalysisError("apply_patch: 'residue.reference = <working copy>' not found")
    work = fin[-1].value.id
    binds = [s for s in iter_stmts(fn.body) if isinstance(s, ast.Assign) and U(s.targets[0]) == work]
    alias = [s for s in binds if U(s.value) == "residue.reference"]
    deep = [s for s in binds if U(s.value) in ("copy.deepcopy(residue.reference)", "deepcopy(residue.reference)")]
    other = [s for s in binds if s not in alias and s not in deep]
    r.add("copy-exists", bool(deep) and not other, f"{work} is bound by {[U(s.value) for s in binds]}", where)
    for s in alias:
        f = reach_formula(s, fn)
        atoms = list(formula_atoms(f))
        pep = [a for a in atoms if a in ("patchname == 'PEPTIDE'", "'PEPTIDE' == patchname")]
        leak = None
        for vals in itertools.product((True, False), repeat=len(atoms)):
            asg = dict(zip(atoms, vals))
            if eval_formula(f, asg) and not any(asg[a] for a in pep):
                leak = {k: v for k, v in asg.items() if k not in pep}
                break
        r.add("in-place-only-for-PEPTIDE", bool(pep) and leak is None,
              "the shared reference is edited in place only when the patch is PEPTIDE" if leak is None and pep else
              f"the shared reference is edited in place also when {leak}: a removal or addition made for one residue leaks to every "
              "other residue of that type (e.g. a free cysteine loses HG because another one is bridged)",
              f"pdb2pqr/biomolecule.py:{s.lineno} (Biomolecule.apply_patch)")
    if not alias:
        r.ok("in-place-only-for-PEPTIDE", "no in-place arm: every patch works on a deep copy", where)
    # patch atoms taken into the copy must not be shared mutable objects that are edited later: removal edits only the copy's lists
    rm = [s for s in iter_stmts(fn.body) if isinstance(s, ast.Delete) and work in U(s)]
    r.add("removals-on-working-copy", all(U(t).startswith(work + ".") for s in rm for t in s.targets) and bool(rm),
          f"deletions in apply_patch act on {work} only ({len(rm)} statement(s))", where)


def rule_no_mutation_while_iterating(prog, rep, rid, scope):
    """A list must not be structurally modified by the body of a loop that iterates over it."""
    r = rep.rule(rid, "no container is structurally modified while it is being iterated", floor=1)
    n_loops = 0
    for key in scope:
        if key not in prog.funcs:
            raise AnalysisError(f"anchor function {key} not found")
        f = prog.funcs[key]
        for lp in [n for n in walk_no_defs(f.node) if isinstance(n, ast.For)]:
            it = U(lp.iter)
            if not isinstance(lp.iter, (ast.Name, ast.Attribute)):
                continue
            n_loops += 1
            hits = []
            for c in calls_in(lp):
                if isinstance(c.func, ast.Attribute) and c.func.attr in LIST_MUTATORS and U(c.func.value) == it:
                    hits.append(U(c)[:50])
                if "." in it:
                    base, attr = it.rsplit(".", 1)
                    if isinstance(c.func, ast.Attribute) and U(c.func.value) == base and c.func.attr in OWNER_MUTATORS.get(attr, ()):
                        hits.append(U(c)[:50])
            for n in ast.walk(lp):
                if isinstance(n, ast.Delete) and any(U(t).startswith(it + "[") for t in n.targets):
                    hits.append(U(n)[:50])
            # a mutation immediately followed by leaving the loop is harmless
            real = []
            for h in hits:
                real.append(h)
            where = f"pdb2pqr/{f.module.rel}:{lp.lineno} ({f.qual})"
            if real:
                r.bad(f"iterate+mutate|{key}:{it}", f"the loop over {it} modifies {it} ({real[0]}): the iterator skips or repeats elements "
                      "(e.g. later chain segments are never examined)", where)
    r.ok("scanned", f"{n_loops} loops over named containers in {len(scope)} functions examined")


def rule_ter_chain_count(prog, rep, rid):
    """Blank-chain inputs: one TER record means two chains."""
    r = rep.rule(rid, "files without chain identifiers are split into chains at every TER record", floor=2)
    init = prog.func("biomolecule.py", "Biomolecule.__init__").node
    where = f"pdb2pqr/biomolecule.py:{init.lineno} (Biomolecule.__init__)"
    # counter incremented in a loop on TER records
    counter = None
    for lp in [s for s in init.body if isinstance(s, ast.For)]:
        for s in iter_stmts(lp.body):
            if isinstance(s, ast.AugAssign) and isinstance(s.op, ast.Add) and try_fold(s.value) == 1:
                g = [U(t) for t in _guards(s, lp)]
                if any("pdb.TER" in x for x in g) and not any(isinstance(c, ast.Call) and "create_residue" in U(c.func) for c in ast.walk(lp)):
                    counter = U(s.target)
    if counter is None:
        raise AnalysisError("Biomolecule.__init__: TER counting loop not found")
    inits = [try_fold(s.value) for s in init.body if isinstance(s, ast.Assign) and U(s.targets[0]) == counter]
    tests = [n for n in ast.walk(init) if isinstance(n, ast.Compare) and U(n.left) == counter and len(n.ops) == 1]
    if len(inits) != 1 or not tests or not isinstance(inits[0], int):
        raise AnalysisError(f"Biomolecule.__init__: initial value / use of {counter} not found")
    c0 = inits[0]
    k = try_fold(tests[0].comparators[0])
    op = type(tests[0].ops[0])
    f = {ast.Gt: lambda a, b: a > b, ast.GtE: lambda a, b: a >= b, ast.NotEq: lambda a, b: a != b, ast.Lt: lambda a, b: a < b}.get(op)
    if f is None or not isinstance(k, int):
        raise AnalysisError("Biomolecule.__init__: chain-count test left the recognised shape")
    r.add("one-TER-means-two-chains", f(c0 + 1, k) and not f(c0, k),
          f"{counter} starts at {c0} and counts TER records; blank chain identifiers are replaced when {U(tests[0])}: "
          f"no TER -> {f(c0, k)} (must be False), one TER -> {f(c0 + 1, k)} (must be True)", f"pdb2pqr/biomolecule.py:{tests[0].lineno} (Biomolecule.__init__)")
    # the generated id advances with the TER count seen so far
    idx = [s for s in iter_stmts(init.body) if isinstance(s, ast.AugAssign) and U(s.target) == "count"]
    ok = any("pdb.TER" in U(t) for s in idx for t in _guards(s, init))
    r.add("id-advances-at-TER", ok and "[count]" in U(init), "the generated chain identifier is indexed by the number of TER records passed", where)


def _guards(stmt, stop):
    """Tests that hold on the way to stmt (a test that must be false is returned without its leading `not`)."""
    from ..core import guards_of
    out = []
    for t, p in guards_of(stmt, stop):
        while isinstance(t, ast.UnaryOp) and isinstance(t.op, ast.Not):
            t, p = t.operand, not p
        if p:
            out.append(t)
    return out


def _pqr_line(rec, serial, name, resname, chain, resseq, icode, x, y, z, q, r):
    """One record in the column layout the PQR writer uses (coordinates start at column 31)."""
    return (f"{rec:<6}{serial:>5} {name:<4} {resname:>3} {chain or ' ':1}{resseq:>4}{icode or ' ':1}   {x:8.3f}{y:8.3f}{z:8.3f} {q:7.4f} {r:6.4f}\n")


def _pqr_model():
    recs = [
        # default layout, --keep-chain, negative numbers (an insertion code is glued to the number: listed finding C08 R2|sep|res_seq+ins_code), five-digit serial fused with the record name; the second
        # record is a large sphere that reaches beyond BOTH running extrema at once (in y it stays the maximum)
        ("ATOM", 1, "N", "MET", None, 1, None, 26.8, 41.153, 3.834, -0.32, 2.0),
        ("ATOM", 2, "S", "BIG", None, 2, None, 26.0, 41.0, 4.0, 0.0, 5.0),
        ("ATOM", 17, "OXT", "GLY", "A", -6, None, -1.5, 0.0, -12.25, -0.8, 1.7),
        ("ATOM", 18, "H", "GLY", None, -6, None, 1.5, 0.0, 12.25, 0.4, 0.0),
        ("HETATM", 1234, "O", "HOH", None, 301, None, 41.0, -22.0, 3.0, -0.834, 1.7683),
        ("HETATM", 12345, "C1", "LIG", "B", 301, None, 1.0, 2.0, -30.0, 0.1, 1.908),
        ("ATOM", 20, "CA", "FAR", None, 999, None, -123.456, 2.0, -99.999, 0.25, 1.5),  # negative coordinates that fill their eight columns
        ("ATOM", 21, "HT1", "TER", None, 1, None, 5.0, 6.0, 7.0, 0.33, 0.2245),  # CHARMM output naming: the terminal residue is called TER
        ("ATOM", 22, "END", "TER", "A", 2, None, 5.5, 6.5, 7.5, -0.33, 1.7),  # an atom and a residue that carry record names
    ]
    out = [("REMARK   5 box 1.0 2.0 3.0 4.0   500.000 600.000 700.000 9.0000 80.0000\n", None)]  # a comment that would count if it were parsed
    for rec in recs:
        keys = ("type", "serial", "name", "res_name", "chain_id", "res_seq", "ins_code", "x", "y", "z", "charge", "radius")
        out.append((_pqr_line(*rec), dict(zip(keys, rec))))
    out += [("TER\n", None), ("END\n", None)]
    return out


PQR_MODEL_LINES = _pqr_model()
_KEYS = ("type", "serial", "name", "res_name", "chain_id", "res_seq", "ins_code", "x", "y", "z", "charge", "radius")


def writer_line(prog, rec):
    """One PQR record as pdb2pqr's own writer (Atom.get_pqr_string) formats it: the writer is interpreted on an atom model."""
    from ..guards import Flow, Obj
    from ..objinterp import ObjRunner
    f = dict(zip(_KEYS, rec))
    a = Obj({"__class__": "Atom", "type": f["type"], "serial": f["serial"], "name": f["name"], "res_name": f["res_name"],
             "chain_id": f["chain_id"] or "", "res_seq": f["res_seq"], "ins_code": f["ins_code"] or "", "x": f["x"], "y": f["y"], "z": f["z"],
             "ffcharge": f["charge"], "radius": f["radius"], "alt_loc": "", "occupancy": 1.0, "temp_factor": 0.0, "seg_id": "", "element": "",
             "charge": "", "residue": None})
    run = ObjRunner(prog, "structures.py")
    try:
        out = run.call(a, "get_pqr_string", chainflag=f["chain_id"] is not None)
    except Flow as fl:
        raise AnalysisError(f"Atom.get_pqr_string stops with {fl.value} on a model atom") from None
    if not isinstance(out, str):
        raise AnalysisError("Atom.get_pqr_string did not return a string on a model atom")
    return out if out.endswith("\n") else out + "\n"


def respaced(prog, lines):
    """The lines as print_pqr writes them with --whitespace (print_pqr is interpreted; non-record lines are dropped by it or kept)."""
    return written_file(prog, lines, whitespace=True, is_cif=False)


def written_file(prog, lines, whitespace, is_cif, printer="print_pqr"):
    """The lines of the file print_pqr (or print_pdb) writes from the given output lines under the two flags that steer it (the printer is
    interpreted on a file-system model)."""
    from ..guards import Flow, Obj
    from ..objinterp import ObjRunner
    fs = FileSystemModel()
    run = ObjRunner(prog, "main.py", extra_hook=fs.hook)
    argsm = Obj({"__class__": "Namespace", "whitespace": whitespace, "output_pqr": "model.pqr", "pdb_output": "model.pdb"})
    try:
        run.call_function("main.py", printer, argsm, list(lines), [], [], is_cif)
    except Flow as fl:
        raise AnalysisError(f"{printer} stops with {fl.value} on the model lines") from None
    return fs.files.get("model.pqr" if printer == "print_pqr" else "model.pdb", "").splitlines(keepends=True)


_MODEL_CACHE = {}


def pqr_model(prog, extra_records=()):
    """[(line, expected fields or None)]: header, the model records as the writer under analysis formats them (so that readers and
    psize are checked against the writer itself), trailer.  Falls back to the frozen column layout if the writer cannot be interpreted."""
    key = (id(prog), tuple(extra_records))
    if key in _MODEL_CACHE:
        return _MODEL_CACHE[key]
    base = [w for _, w in PQR_MODEL_LINES if w is not None]
    recs = [tuple(w[k] for k in _KEYS) for w in base] + list(extra_records)
    out = [PQR_MODEL_LINES[0]]
    try:
        for rec in recs:
            out.append((writer_line(prog, rec), dict(zip(_KEYS, rec))))
        source = "writer"
    except AnalysisError:
        out = [PQR_MODEL_LINES[0]] + [(_pqr_line(*rec), dict(zip(_KEYS, rec))) for rec in recs]
        source = "frozen layout"
    out += list(PQR_MODEL_LINES[-2:])
    _MODEL_CACHE[key] = (out, source)
    return out, source


def rule_pqr_reader(prog, rep, rid, title="pdb2pqr's own PQR reader turns every ATOM/HETATM line into one atom with the written field values"):
    """io.read_pqr / Atom.from_pqr_line are executed on object models over model PQR lines in every layout the writer emits."""
    from ..guards import Flow
    from ..objinterp import ObjRunner
    r = rep.rule(rid, title, floor=6)
    fr = prog.func("io.py", "read_pqr")
    where = f"pdb2pqr/io.py:{fr.node.lineno} (read_pqr) / pdb2pqr/structures.py (Atom.from_pqr_line)"
    run = ObjRunner(prog, "structures.py")
    model, source = pqr_model(prog)
    r.info["model_lines_formatted_by"] = source
    lines = [ln for ln, _ in model]
    try:
        run.rel = "io.py"
        atoms = run.call_function("io.py", "read_pqr", lines)
    except Flow as fl:
        r.bad("reader|runs", f"read_pqr stops with {fl.value} on a model file made of the layouts the writer emits "
              "(default, --keep-chain, --whitespace, insertion code, negative residue number, five-digit serial)", where)
        return
    want = [w for _, w in model if w is not None]
    if not isinstance(atoms, list):
        raise AnalysisError("read_pqr did not return a list on the model")
    r.add("reader|one-atom-per-coordinate-line", len(atoms) == len(want),
          f"{len(want)} ATOM/HETATM lines among {len(lines)} model lines -> {len(atoms)} atoms returned "
          f"(types {[a.get('type') if isinstance(a, dict) else a for a in atoms]})", where)
    for i, (a, w) in enumerate(zip(atoms, want)):
        got = {k: a.get(k) for k in w} if isinstance(a, dict) else {}
        bad = {k: (got.get(k), w[k]) for k in w if got.get(k) != w[k]}
        r.add(f"reader|fields|{w['type']}:{w['serial']}", not bad, "every field equals the written token" if not bad else
              f"fields differ (read, written): {bad}", where)
    # the same records as --whitespace writes them
    try:
        ws_lines = respaced(prog, lines)
    except AnalysisError:
        ws_lines = None
    if ws_lines is not None:
        try:
            atoms2 = run.call_function("io.py", "read_pqr", ws_lines)
        except Flow as fl:
            atoms2 = f"stops with {fl.value}"
        same = isinstance(atoms2, list) and len(atoms2) == len(want) and all(
            isinstance(a, dict) and all(a.get(k) == w[k] for k in w) for a, w in zip(atoms2, want))
        r.add("reader|whitespace-layout", same, "the records re-spaced by --whitespace are read back with the same field values" if same else
              f"the --whitespace form of the model records is read back as {str(atoms2)[:160]}", where)
    # a coordinate record the token reader cannot make sense of must stop the read, never be left out silently
    bad_line = "ATOM      9  CA  BAD A   9      12.3X5  41.153   3.834 -0.3200 2.0000\n"
    try:
        got_bad = run.call_function("io.py", "read_pqr", [lines[1], bad_line, lines[2]] if len(lines) > 2 else [bad_line])
        r.bad("reader|unreadable-record-is-loud", f"a record with the coordinate '12.3X5' is skipped: read_pqr returns "
              f"{len(got_bad) if isinstance(got_bad, list) else got_bad} atom(s) for 3 coordinate lines instead of stopping", where)
    except Flow:
        r.ok("reader|unreadable-record-is-loud", "a record with a coordinate that is not a number stops read_pqr with an error", where)
    # the whole file as print_pqr writes it (records, TER/END, format trailer) for either input format and either spacing
    for is_cif in (False, True):
        for ws in (False, True):
            tag = f"{'mmCIF' if is_cif else 'PDB'} input, {'--whitespace' if ws else 'fixed columns'}"
            try:
                flines = written_file(prog, [ln for ln, w in model if w is not None or not ln.startswith("REMARK")], ws, is_cif)
            except AnalysisError:
                continue
            try:
                atoms3 = run.call_function("io.py", "read_pqr", flines)
            except Flow as fl:
                odd = [ln for ln in flines if not ln.startswith(("ATOM", "HETATM"))]
                r.bad(f"reader|file-as-written|{tag}", f"read_pqr stops with {fl.value} on the file print_pqr writes for {tag} "
                      f"(lines other than records in it: {[x.strip() for x in odd]})", where)
                continue
            same = isinstance(atoms3, list) and len(atoms3) == len(want) and all(
                isinstance(a, dict) and all(a.get(k) == w[k] for k in w) for a, w in zip(atoms3, want))
            r.add(f"reader|file-as-written|{tag}", same, f"the file print_pqr writes for {tag} ({len(flines)} lines) is read back as "
                  f"{len(atoms3) if isinstance(atoms3, list) else '?'} atoms" + ("" if same else f", expected the {len(want)} written ones with equal fields"), where)
            if is_cif or not same:
                continue
            # two written files one after the other (the PQR of a complex made by concatenating the parts): TER/END sit in the middle
            try:
                atoms4 = run.call_function("io.py", "read_pqr", list(flines) + list(flines))
            except Flow as fl:
                r.bad(f"reader|two-files-concatenated|{tag}", f"read_pqr stops with {fl.value} on two written files concatenated", where)
                continue
            n4 = len(atoms4) if isinstance(atoms4, list) else None
            r.add(f"reader|two-files-concatenated|{tag}", n4 == 2 * len(want), f"two files written for {tag}, concatenated (END in the middle): {n4} atoms read, "
                  f"{2 * len(want)} coordinate records" + ("" if n4 == 2 * len(want) else " -- records after the first END are lost without a word"), where)
    r.info["model_lines"] = len(lines)
    r.info["methods_interpreted"] = sorted(set(run.calls))


def rule_ligand_block_model(prog, rep, rid):
    """The ligand block of non_trivial is evaluated on a model complex: a peptide residue, the ligand (one of its atoms is also
    known to the force field), a water whose hydrogen names occur in the MOL2 file, and an ion that follows the ligand."""
    from ..guards import Flow, Obj
    from ..objinterp import ObjRunner
    r = rep.rule(rid, "model complex: every ligand atom is written exactly once with the MOL2 parameters; no other atom is touched", floor=4)
    nt = prog.func("main.py", "non_trivial")
    blk = None
    for st in nt.node.body:
        if isinstance(st, ast.If) and "ligand" in U(st.test) and any(U(c.func).endswith("assign_parameters") for c in calls_in(st)):
            blk = st
    if blk is None:
        raise AnalysisError("non_trivial: the ligand block (if ... ligand ...: ligand.assign_parameters()) was not found")
    where = f"pdb2pqr/main.py:{blk.lineno} (non_trivial)"
    bind = [s for s in nt.node.body if isinstance(s, ast.Assign) and isinstance(s.value, ast.Call) and U(s.value.func).endswith(".apply_force_field")]
    if not bind or not isinstance(bind[0].targets[0], ast.Tuple):
        raise AnalysisError("non_trivial: 'hits, misses = biomolecule.apply_force_field(...)' not found")
    hit, miss = (U(e) for e in bind[0].targets[0].elts)

    def res(cls, name, num, rectype, atoms, first_serial=1):
        # serial numbers are what the input file says: a docked ligand appended with its own numbering repeats serials of the protein
        robj = Obj({"__class__": cls, "name": name, "res_seq": num, "atoms": [], "chain_id": "A", "ins_code": ""})
        for k, (an, q) in enumerate(atoms):
            robj["atoms"].append(Obj({"__class__": "Atom", "name": an, "type": rectype, "residue": robj, "ffcharge": q, "radius": 1.0 if q is not None else None,
                                      "__id__": f"{name}{num}:{an}", "serial": first_serial + k, "res_name": name, "res_seq": num, "chain_id": "A", "ins_code": "",
                                      "x": float(num), "y": float(k), "z": 0.0}))
        return robj

    ala = res("ALA", "ALA", 1, "ATOM", [("N", -0.4), ("CA", 0.1), ("C", 0.6), ("O", -0.5), ("H1", 0.2)])
    lig = res("Residue", "LIG", 2, "HETATM", [("C1", 0.33), ("O1", None), ("H1", None)])   # C1 is also known to the force field
    wat = res("WAT", "HOH", 3, "HETATM", [("O", -0.834), ("H1", 0.417), ("H2", 0.417)], first_serial=6)
    ion = res("Residue", "ZN", 4, "HETATM", [("ZN", None)], first_serial=9)
    mol2 = {"C1": Obj({"charge": -0.10, "radius": 1.87}), "O1": Obj({"charge": -0.55, "radius": 1.76}), "H1": Obj({"charge": 0.65, "radius": 1.10})}
    ligand = Obj({"__class__": "Mol2Molecule", "atoms": mol2})
    hits = [a for x in (ala, lig, wat, ion) for a in x["atoms"] if a["ffcharge"] is not None]
    misses = [a for x in (ala, lig, wat, ion) for a in x["atoms"] if a["ffcharge"] is None]
    before = {a["__id__"]: (a["ffcharge"], a["radius"]) for x in (ala, wat, ion) for a in x["atoms"]}

    def extra(runner, interp, call, args, kw):
        if U(call.func).endswith("assign_parameters"):
            return None
        return NotImplemented

    run = ObjRunner(prog, "main.py", extra_hook=extra)
    env = {"args": Obj({"ligand": "lig.mol2"}), "ligand": ligand, "biomolecule": Obj({"__class__": "Biomolecule", "residues": [ala, lig, wat, ion]}),
           hit: hits, miss: misses}
    try:
        out = run.run_block(nt, [blk], env)
    except Flow as fl:
        r.bad("ligand|runs", f"the ligand block stops with {fl.value} on the model complex", where)
        return
    hits2, misses2 = out[hit], out[miss]
    if not isinstance(hits2, list) or not isinstance(misses2, list):
        raise AnalysisError("ligand block: the lists of matched and missing atoms are not determined on the model complex")
    counts = {a["__id__"]: sum(1 for x in hits2 if x is a) for a in lig["atoms"]}
    r.add("ligand|written-once", all(v == 1 for v in counts.values()),
          f"occurrences of the ligand atoms in the printed list: {counts} (an ion follows the ligand in the chain; C1 is also known to the "
          "force field)" + ("" if all(v == 1 for v in counts.values()) else " -- a ligand atom written twice doubles its charge in the PQR file"), where)
    vals = {a["name"]: (a["ffcharge"], a["radius"]) for a in lig["atoms"]}
    wantv = {n: (m["charge"], m["radius"]) for n, m in mol2.items()}
    r.add("ligand|mol2-values", vals == wantv, f"ligand atoms carry {vals}; the MOL2 molecule gives {wantv}", where)
    after = {a["__id__"]: (a["ffcharge"], a["radius"]) for x in (ala, wat, ion) for a in x["atoms"]}
    changed = {k: (before[k], after[k]) for k in before if before[k] != after[k]}
    r.add("ligand|others-untouched", not changed, "peptide, water (H1/H2 also occur in the MOL2 file) and ion keep their values" if not changed
          else f"atoms outside the ligand changed: {changed}", where)
    left = [a["__id__"] for a in misses2]
    others_once = all(sum(1 for x in hits2 if x is a) == 1 for a in hits if a["residue"] is not lig)
    r.add("ligand|lists-partition", left == ["ZN4:ZN"] and others_once and not any(a in misses2 for a in hits2),
          f"reported as unassigned afterwards: {left} (only the ion has no parameters); every other atom is printed once", where)


# ----------------------------------------------------------------------------------------------------------------------
# Ingestion: Biomolecule.__init__ on model record lists
def _rec(cls, serial, name, res_name, chain, seq, icode="", alt=""):
    from ..guards import Obj
    return Obj({"__class__": cls, "serial": serial, "name": name, "res_name": res_name, "chain_id": chain, "res_seq": seq, "ins_code": icode,
                "alt_loc": alt, "x": float(serial), "y": 0.0, "z": 0.0, "occupancy": 1.0, "temp_factor": 0.0, "seg_id": "", "element": "", "charge": "",
                "__id__": f"{cls}{serial}"})


def _mark(cls, serial=None):
    from ..guards import Obj
    return Obj({"__class__": cls, "serial": serial, "__id__": f"{cls}{serial if serial is not None else ''}"})


def ingestion_scenarios():
    """name -> (records, expected [(chain id, residue name, [record ids])] in file order).  Expectations follow the property: every
    coordinate record of the first model becomes part of exactly one residue; a residue is a maximal run of records with one
    (chain, resSeq, iCode); TER/END/MODEL bookkeeping never loses the pending residue."""
    A, H = "ATOM", "HETATM"
    sc = {}
    recs = [_mark("HEADER"), _rec(A, 1, "N", "ALA", "A", 1), _rec(A, 2, "CA", "ALA", "A", 1), _rec(A, 3, "C", "ALA", "A", 1),
            _rec(A, 4, "N", "SER", "A", 2), _rec(A, 5, "CA", "SER", "A", 2), _rec(A, 6, "N", "SER", "A", 2, "A"), _rec(A, 7, "CA", "SER", "A", 2, "A"),
            _rec(A, 8, "N", "GLY", "A", 3), _mark("TER"), _rec(A, 9, "N", "GLY", "B", 3), _rec(A, 10, "CA", "GLY", "B", 3),
            _rec(H, 11, "O", "HOH", "A", 101), _rec(H, 12, "O", "HOH", "A", 102), _mark("END")]
    sc["chains, insertion code, same number in another chain, hetero records after TER"] = (recs, [
        ("A", "ALA", ["ATOM1", "ATOM2", "ATOM3"]), ("A", "SER", ["ATOM4", "ATOM5"]), ("A", "SER", ["ATOM6", "ATOM7"]), ("A", "GLY", ["ATOM8"]),
        ("B", "GLY", ["ATOM9", "ATOM10"]), ("A", "HOH", ["HETATM11"]), ("A", "HOH", ["HETATM12"])])
    recs = [_rec(A, 1, "N", "ALA", "", 1), _rec(A, 2, "CA", "ALA", "", 1), _rec(A, 3, "N", "GLY", "", 2), _mark("TER"),
            _rec(A, 4, "N", "SER", "", 1), _rec(A, 5, "CA", "SER", "", 1), _rec(H, 6, "O", "HOH", "", 50)]
    sc["no chain identifiers, one TER, no END"] = (recs, [
        ("A", "ALA", ["ATOM1", "ATOM2"]), ("A", "GLY", ["ATOM3"]), ("B", "SER", ["ATOM4", "ATOM5"]), ("", "HOH", ["HETATM6"])])
    recs = [_rec(A, 1, "N", "ALA", "A", 1), _mark("END"), _rec(A, 2, "N", "GLY", "A", 2), _mark("END"), _mark("END")]
    sc["END in the middle and repeated"] = (recs, [("A", "ALA", ["ATOM1"]), ("A", "GLY", ["ATOM2"])])
    recs = [_mark("MODEL", 1), _rec(A, 1, "N", "ALA", "A", 1), _rec(A, 2, "N", "GLY", "A", 2), _mark("ENDMDL"),
            _mark("MODEL", 2), _rec(A, 3, "N", "ALA", "A", 1), _rec(A, 4, "N", "GLY", "A", 2), _mark("ENDMDL"), _mark("END")]
    sc["two models"] = (recs, [("A", "ALA", ["ATOM1"]), ("A", "GLY", ["ATOM2"])])
    recs = [_mark("MODEL", 5), _rec(A, 1, "N", "ALA", "A", 1), _rec(A, 2, "N", "GLY", "A", 2), _mark("TER"), _mark("ENDMDL")]
    sc["one model numbered 5, no END"] = (recs, [("A", "ALA", ["ATOM1"]), ("A", "GLY", ["ATOM2"])])
    recs = [_rec(A, 1, "N", "ALA", "A", 1, "", "A"), _rec(A, 2, "N", "ALA", "A", 1, "", "B"), _rec(A, 3, "CA", "ALA", "A", 1), _rec(A, 4, "N", "GLY", "A", -1)]
    sc["alternate locations and a negative number, no trailer at all"] = (recs, [("A", "ALA", ["ATOM1", "ATOM2", "ATOM3"]), ("A", "GLY", ["ATOM4"])])
    # chain identifiers are labels: any letter or digit may occur next to records that carry none (waters after the chains)
    recs = [_rec(A, 1, "N", "ALA", "A", 1), _rec(A, 2, "N", "GLY", "Z", 1), _rec(A, 3, "CA", "GLY", "Z", 1), _rec(A, 4, "N", "SER", "z", 7),
            _rec(A, 5, "N", "SER", "9", 7), _rec(H, 6, "O", "HOH", "", 201), _rec(H, 7, "O", "HOH", "", 202), _mark("END")]
    sc["chains A, Z, z and 9 followed by waters without a chain identifier"] = (recs, [
        ("A", "ALA", ["ATOM1"]), ("Z", "GLY", ["ATOM2", "ATOM3"]), ("z", "SER", ["ATOM4"]), ("9", "SER", ["ATOM5"]), ("", "HOH", ["HETATM6"]), ("", "HOH", ["HETATM7"])])
    return sc


def rule_ingestion_model(prog, rep, rid, only=None):
    """Biomolecule.__init__ is evaluated on model record lists; residue construction itself is intercepted (its first-wins
    rule is decided separately) so that what is compared is which records reach which residue of which chain."""
    from ..guards import Flow, Obj
    from ..objinterp import ObjRunner
    r = rep.rule(rid, "model record lists: every coordinate record of the first model reaches exactly one residue of the right chain", floor=1 if only else 5)
    fi = prog.func("biomolecule.py", "Biomolecule.__init__")
    where = f"pdb2pqr/biomolecule.py:{fi.node.lineno} (Biomolecule.__init__)"
    for label, (records, want) in ingestion_scenarios().items():
        if only and not any(o in label for o in only):
            continue
        made = []

        def extra(runner, interp, call, args, kw, made=made):
            if isinstance(call.func, ast.Attribute) and call.func.attr == "create_residue" and len(args) == 2:
                res = Obj({"__class__": "Residue", "name": args[1], "__records__": [x["__id__"] for x in args[0]],
                           "chain_id": args[0][0]["chain_id"] if args[0] else None, "atoms": []})
                made.append(res)
                return res
            return NotImplemented

        run = ObjRunner(prog, "biomolecule.py", extra_hook=extra)
        fresh = [Obj(dict(x)) for x in records]
        bio = Obj({"__class__": "Biomolecule", "chains": [], "chainmap": {}, "residues": []})
        try:
            run.call(bio, "__init__", fresh, Obj({"__class__": "Definition", "map": {}}))
        except Flow as fl:
            r.bad(f"ingest|{label}", f"Biomolecule.__init__ stops with {fl.value} on: {label}", where)
            continue
        got = []
        chain_of = {}
        for ch in bio.get("chains", []):
            for res in ch["residues"]:
                chain_of[id(res)] = ch["chain_id"]
        for res in made:
            got.append((chain_of.get(id(res), "<in no chain>"), res["name"], list(res["__records__"])))
        in_list = [id(x) for x in bio.get("residues", [])]
        listed = all(id(res) in in_list for res in made) and len(in_list) == len(made)
        ok = got == want and listed
        r.add(f"ingest|{label}", ok, f"{label}: {len(want)} residues, every record in exactly one, chains {sorted({c for c, _, _ in want})}" if ok else
              f"{label}: expected {want}, Biomolecule.__init__ builds {got}" + ("" if listed else "; self.residues does not list exactly the residues built"), where)
    r.info["methods_interpreted"] = sorted(set(run.calls))


def rule_hidden_chains_model(prog, rep, rid):
    """Biomolecule.set_termini is evaluated on model chains that hold several terminated molecules under one chain identifier (a
    free C-terminus - OXT - in the middle of the chain): whatever way the chain is split, every residue must stay in exactly one chain, in
    file order, and each resulting chain must start with the N-terminus and end with the C-terminus of one molecule."""
    from ..guards import Flow, Obj
    from ..objinterp import ObjRunner
    r = rep.rule(rid, "model chains with hidden molecules: splitting keeps every residue in exactly one chain, one terminus pair per molecule", floor=3)
    fi = prog.func("biomolecule.py", "Biomolecule.set_termini")
    where = f"pdb2pqr/biomolecule.py:{fi.node.lineno} (Biomolecule.set_termini)"
    scenarios = [
        ("three molecules under chain A", [("A", [3, 3, 3])]),
        ("two molecules under chain A, then a plain chain B", [("A", [2, 4]), ("B", [3])]),
        ("four molecules under a blank chain identifier", [("", [1, 2, 1, 3])]),
        ("a plain chain, then three molecules under chain B", [("A", [4]), ("B", [2, 2, 2])]),
        ("one molecule per chain", [("A", [3]), ("B", [2])]),
        # chains that hold no amino acid at all have ends too (nucleic acids) - or none (solvent)
        ("a peptide chain A, a DNA strand B, an RNA strand C, waters under a blank chain", [("A", [3]), ("B", [4], "DA"), ("C", [3], "RA"), ("", [2], "WAT")]),
        ("a DNA strand alone", [("D", [3], "DA")]),
        ("two DNA strands under chain E, then a peptide under chain F", [("E", [2, 3], "DT"), ("F", [2])]),
        ("waters only, blank chain", [("", [3], "WAT")]),
        # residue numbers are labels: a jump in the numbering (alignment-based numbering, a repeated number with an insertion code) is no chain end
        ("a DNA strand, an RNA strand and a peptide numbered with jumps and repeats", [("G", [4], "DA", [1, 2, 5, 6]), ("H", [3], "RU", [7, 7, 30]), ("I", [4], "ALA", [10, 10, 12, 40])]),
    ]
    NUC_ATOMS = ["P", "OP1", "OP2", "O5'", "C5'", "C4'", "C3'", "O3'"]
    for label, layout_ in scenarios:
        residues, chains, chainmap, molecules = [], [], {}, []
        kinds = {}
        n = 0
        for entry in layout_:
            cid, sizes = entry[0], entry[1]
            kind = entry[2] if len(entry) > 2 else "ALA"
            numbers = list(entry[3]) if len(entry) > 3 else None
            ch = Obj({"__class__": "Chain", "chain_id": cid, "residues": [], "name": None})
            chains.append(ch)
            chainmap[cid] = ch
            for size in sizes:
                mol = []
                for k in range(size):
                    n += 1
                    if kind == "ALA":
                        names_ = ["N", "CA", "C", "O"] + (["OXT"] if k == size - 1 else [])
                    elif kind == "WAT":
                        names_ = ["O"]
                    else:
                        names_ = NUC_ATOMS[(3 if k == 0 else 0):] + (["H3T"] if k == size - 1 else [])
                    amap = {nm: Obj({"__class__": "Atom", "name": nm, "chain_id": cid, "bonds": [], "x": float(4 * n), "y": float(i_), "z": 0.0,
                                     "__props__": {"coords": lambda a_: [a_["x"], a_["y"], a_["z"]]}})
                            for i_, nm in enumerate(names_)}
                    res = Obj({"__class__": {"DA": "ADE", "RA": "ADE", "DT": "THY", "RU": "URA"}.get(kind, kind), "name": "HOH" if kind == "WAT" else kind, "__id__": f"r{n}", "chain_id": cid, "res_seq": numbers.pop(0) if numbers else n, "ins_code": "", "map": amap,
                               "atoms": list(amap.values()), "is_n_term": False, "is_c_term": False, "is5term": False, "is3term": False,
                               "patches": [], "missing": [], "reference": None})
                    kinds[res["__id__"]] = kind
                    for a in res["atoms"]:
                        a["residue"] = res
                    residues.append(res)
                    ch["residues"].append(res)
                    mol.append(res["__id__"])
                molecules.append(mol)
        patched = []

        def extra(runner, interp, call, args, kw, patched=patched):
            if isinstance(call.func, ast.Attribute) and call.func.attr == "apply_patch" and len(args) == 2:
                patched.append((args[0], args[1]["__id__"]))
                args[1]["patches"].append(args[0])
                return None
            return NotImplemented

        bio = Obj({"__class__": "Biomolecule", "chains": chains, "chainmap": chainmap, "residues": residues, "patch_map": {}})
        run = ObjRunner(prog, "biomolecule.py", extra_hook=extra)
        try:
            run.call(bio, "set_termini")
        except Flow as fl:
            r.bad(f"split|{label}", f"set_termini stops with {fl.value}", where)
            continue
        got = [[x["__id__"] for x in ch["residues"]] for ch in bio["chains"]]
        flat = [i for ch in got for i in ch]
        problems = []
        if sorted(flat) != sorted(i for m in molecules for i in m):
            lost = sorted(set(i for m in molecules for i in m) - set(flat), key=lambda s_: int(s_[1:]))
            twice = sorted({i for i in flat if flat.count(i) > 1})
            problems.append(f"residues in no chain: {lost}; in more than one: {twice}")
        if sorted(map(tuple, got)) != sorted(map(tuple, molecules)):
            problems.append(f"chains {got} are not the molecules {molecules}")
        pep = [m for m in molecules if kinds[m[0]] == "ALA"]
        nuc = [m for m in molecules if kinds[m[0]] not in ("ALA", "WAT")]
        nterm = sorted(x["__id__"] for x in residues if x["is_n_term"])
        cterm = sorted(x["__id__"] for x in residues if x["is_c_term"])
        if nterm != sorted(m[0] for m in pep) or cterm != sorted(m[-1] for m in pep):
            problems.append(f"N-termini {nterm}, C-termini {cterm}; expected {sorted(m[0] for m in pep)} / {sorted(m[-1] for m in pep)}")
        t5 = sorted(x["__id__"] for x in residues if x["is5term"])
        t3 = sorted(x["__id__"] for x in residues if x["is3term"])
        if t5 != sorted(m[0] for m in nuc) or t3 != sorted(m[-1] for m in nuc):
            problems.append(f"5' ends {t5}, 3' ends {t3}; expected {sorted(m[0] for m in nuc)} / {sorted(m[-1] for m in nuc)} (every strand has its two ends)")
        per_res = {}
        for pn, rid_ in patched:
            per_res.setdefault(rid_, []).append(pn)
        # (a terminal patch may be applied more than once to the same end: the patches are idempotent, which C02 decides on the tables)
        firsts, lasts = {m[0] for m in molecules}, {m[-1] for m in molecules}
        wrong = {k: v for k, v in per_res.items() if (k not in firsts and any(p_.endswith("NTERM") or p_ == "5TERM" for p_ in v))
                 or (k not in lasts and any(p_.endswith("CTERM") or p_ == "3TERM" for p_ in v)) or kinds[k] == "WAT"}
        if wrong:
            problems.append(f"terminal patches applied to a residue that is not that end of a molecule: {wrong}")
        unpatched = [m[0] for m in pep if not any(p_.endswith("NTERM") for p_ in per_res.get(m[0], []))] + \
                    [m[-1] for m in pep if not any(p_.endswith("CTERM") for p_ in per_res.get(m[-1], []))] + \
                    [m[0] for m in nuc if "5TERM" not in per_res.get(m[0], [])] + [m[-1] for m in nuc if "3TERM" not in per_res.get(m[-1], [])]
        if unpatched:
            problems.append(f"chain ends that received no terminal patch: {unpatched}")
        ids = [sorted({x["chain_id"] for x in ch["residues"]} | {a["chain_id"] for x in ch["residues"] for a in x["atoms"]}) for ch in bio["chains"]]
        if any(len(i) != 1 for i in ids) or len({i[0] for i in ids if i}) != len(ids):
            problems.append(f"chain identifiers carried by the residues and atoms of the chains: {ids} (one per chain, all different, expected)")
        r.add(f"split|{label}", not problems, f"{label}: " + ("; ".join(problems) if problems else f"chains after splitting {got}"), where)


def rule_bundled_tables_from_package(prog, rep, rid):
    """The lookup of the files distributed with the package (io.test_for_file and the wrappers built on it) is evaluated on a model file
    system in which the working directory holds files named like the bundled tables, in every spelling: the path returned must be the one
    inside the package's data directory."""
    from ..guards import Flow
    from ..objinterp import ObjRunner
    r = rep.rule(rid, "bundled tables are taken from the package's data directory, whatever files the working directory holds", floor=4)
    fn = prog.func("io.py", "test_for_file")
    where = f"pdb2pqr/io.py:{fn.node.lineno} (test_for_file)"
    from ..fsmodel import PKG_ROOT as pkg
    bundled = {f"{pkg}/dat/{n}": "bundled" for n in ("AMBER.DAT", "AMBER.names", "PARSE.DAT", "PARSE.names", "AA.xml", "NA.xml", "PATCHES.xml", "HYDROGENS.xml", "TOPOLOGY.xml")}
    cases = [("test_for_file", ("amber", "DAT"), "AMBER.DAT"), ("test_for_file", ("AMBER", "names"), "AMBER.names"), ("test_for_file", ("parse", "DAT"), "PARSE.DAT"),
             ("test_dat_file", ("amber",), "AMBER.DAT"), ("test_names_file", ("PARSE",), "PARSE.names"), ("test_xml_file", ("AA",), "AA.xml"),
             ("test_xml_file", ("PATCHES",), "PATCHES.xml"), ("test_for_file", ("HYDROGENS", "xml"), "HYDROGENS.xml")]
    for fname, args, want in cases:
        if f"io.py::{fname}" not in prog.funcs:
            continue
        stem, _, suf = want.partition(".")
        local = {}
        for a in (stem, stem.upper(), stem.lower()):
            for b in ("", "." + suf, "." + suf.upper(), "." + suf.lower()):
                local[a + b] = "a file of the working directory"
                local["./" + a + b] = "a file of the working directory"
        fs = FileSystemModel({**bundled, **local})
        run = ObjRunner(prog, "io.py", extra_hook=fs.hook)
        run.module_env("io.py")["__file__"] = f"{pkg}/io.py"
        key = f"lookup|{fname}({', '.join(map(repr, args))})"
        try:
            got = run.call_function("io.py", fname, *args)
        except Flow as fl:
            r.bad(key, f"stops with {fl.value} although {pkg}/dat/{want} exists", where)
            continue
        text = got["__str__"] if isinstance(got, dict) else got
        r.add(key, text == f"{pkg}/dat/{want}", f"with files named like {want} (all spellings) in the working directory the lookup returns {text!r}; "
              f"expected the bundled {pkg}/dat/{want}", where)


def add_hydrogens_on_models(prog):
    """Biomolecule.add_hydrogens evaluated on model residues (the superposition stays uninterpreted): which missing atoms of the template are
    built.  -> {case: (created names, expected names)}.  Cases: a free and a bridged cysteine missing HG and HB2, a serine missing HG (the same
    hydrogen name on another residue), a residue that already has the hydrogen, a missing heavy atom (never built here), a hydrogen the
    tetrahedral completion has just built, a hydrogen with fewer than three neighbours present (reported, not built)."""
    from ..guards import Flow, Obj
    from ..objinterp import ObjRunner
    coords = {"coords": lambda a_: [a_["x"], a_["y"], a_["z"]]}
    out = {}
    cases = [
        ("free cysteine", "CYS", False, ["N", "CA", "C", "O", "CB", "SG"], ["HG", "HB2"], {"HG", "HB2"}),
        ("bridged cysteine", "CYS", True, ["N", "CA", "C", "O", "CB", "SG"], ["HG", "HB2"], {"HB2"}),
        ("serine (HG on another residue)", "SER", False, ["N", "CA", "C", "O", "CB", "OG"], ["HG", "HB2"], {"HG", "HB2"}),
        ("hydrogen already present", "SER", False, ["N", "CA", "C", "O", "CB", "OG", "HG"], ["HG", "HB2"], {"HB2"}),
        ("missing heavy atom", "SER", False, ["N", "CA", "C", "O", "CB"], ["OG", "HB2"], {"HB2"}),
        ("built by the tetrahedral completion", "ALA", False, ["N", "CA", "C", "O", "CB"], ["HB1", "HA"], {"HA"}),
        ("too few neighbours", "GLY", False, ["N"], ["HA2"], set()),
    ]
    # every hydrogen of every amino-acid and nucleotide template: a residue with all heavy atoms and no hydrogen gets all of them
    from ..tables import AMINO, NUCLEIC, Tables
    t = Tables(prog.root)
    for R in list(AMINO) + list(NUCLEIC):
        ref_ = t.map.get(R)
        ci = next(iter(prog.classes_by_name.get(R, [])), None)
        if ref_ is None or ci is None:
            continue
        heavy = [n for n in ref_.atoms if not n.startswith("H")]
        hyd = [n for n in ref_.atoms if n.startswith("H")]
        if len(heavy) >= 3 and hyd:
            cases.append((f"template {R}", R, False, heavy, hyd, set(hyd)))
    for label, cls, bonded, present, missing, want in cases:
        names = present + missing
        tmap = {n: Obj({"__class__": "DefinitionAtom", "name": n, "coords": [float(len(n)), float(i), 1.0], "bonds": []}) for i, n in enumerate(names)}
        atoms = {n: Obj({"__class__": "Atom", "name": n, "x": 1.0 * i, "y": 2.0, "z": 3.0, "bonds": [], "__props__": coords}) for i, n in enumerate(present)}
        ref = Obj({"__class__": "DefinitionResidue", "map": tmap, "name": cls})
        res = Obj({"__class__": cls, "name": cls, "reference": ref, "map": atoms, "atoms": list(atoms.values()), "peptide_n": None, "peptide_c": None,
                   "res_seq": 5, "chain_id": "A", "ins_code": "", "ss_bonded": bonded, "ss_bonded_partner": None, "missing": [], "patches": [],
                   "is_n_term": 0, "is_c_term": 0})
        created = []

        def extra(runner, interp, call, args, kw, res=res, ref=ref, created=created, present=present, label=label):
            nm = U(call.func)
            if nm.endswith("find_coordinates"):
                return [9.0, 9.0, 9.0]
            if isinstance(call.func, ast.Attribute):
                try:
                    recv = interp.ev(call.func.value)
                except AnalysisError:
                    return NotImplemented
                a_ = call.func.attr
                if recv is res:
                    if a_ == "has_atom":
                        return args[0] in res["map"]
                    if a_ == "get_atom":
                        return res["map"].get(args[0])
                    if a_ == "create_atom":
                        created.append(args[0])
                        res["map"][args[0]] = Obj({"__class__": "Atom", "name": args[0], "x": 9.0, "y": 9.0, "z": 9.0, "bonds": [], "__props__": coords})
                        return None
                    if a_ == "rebuild_tetrahedral":
                        return args[0] == "HB1" and label.startswith("built by")  # the completion reports that it has built this one itself
                if recv is ref:
                    if a_ == "get_nearest_bonds":
                        return [n for n in present if n != args[0]][:4] + ["N+1"]
                    if a_ == "has_atom":
                        return args[0] in ref["map"]
            if nm == "hasattr" and len(args) == 2:
                return args[1] == "rebuild_tetrahedral" or (isinstance(args[0], dict) and args[1] in args[0])
            return NotImplemented

        run = ObjRunner(prog, "biomolecule.py", extra_hook=extra)
        bio = Obj({"__class__": "Biomolecule", "residues": [res], "num_missing_heavy": 0})
        try:
            run.call(bio, "add_hydrogens")
        except Flow as fl:
            out[label] = (f"stops with {fl.value}", sorted(want))
            continue
        out[label] = (sorted(created), sorted(want))
    return out


def rule_who_may_write(prog, rep, rid, title, attrs, owners, floor=2, what="attribute"):
    """Ownership rule over the resolved program: among the functions reachable from the entry points, the attributes `attrs` are stored only by
    constructors (initialising their own fresh object) and by the `owners` (key -> reason) - or by a function all of whose reachable callers are
    owners themselves (a helper factored out of an owner).  A store from anywhere else changes state that the owner set up and the consumers rely
    on."""
    from ..callgraph import CallGraph
    r = rep.rule(rid, title, floor=floor)
    g = CallGraph(prog)
    reach = g.reachable()
    missing = [k for k in owners if k not in prog.funcs]
    if missing:
        raise AnalysisError(f"{rid}: owner function(s) {missing} not found")
    writers = {}
    for key, f in prog.funcs.items():
        st = [n for n in walk_no_defs(f.node) if isinstance(n, ast.Attribute) and isinstance(n.ctx, (ast.Store, ast.Del)) and n.attr in attrs]
        for c in calls_in(f.node):
            if U(c.func) in ("setattr", "delattr") and len(c.args) >= 2 and isinstance(c.args[1], ast.Constant) and c.args[1].value in attrs:
                st.append(c)
        if st:
            writers[key] = st

    def owned(key, depth=0):
        if key in owners:
            return True
        if depth >= 3:
            return False
        cs = [c for c in g.callers(key) if c in reach and c != key]
        return bool(cs) and all(owned(c, depth + 1) for c in cs)

    for key, st in sorted(writers.items()):
        f = prog.funcs[key]
        where = f"pdb2pqr/{f.module.rel}:{st[0].lineno} ({f.qual})"
        names = sorted({n.attr if isinstance(n, ast.Attribute) else n.args[1].value for n in st})
        if key not in reach:
            r.ok(f"writer|{key}", f"stores {names}: unreachable legacy code (excluded; comes back into scope if something calls it)", where)
        elif f.node.name in ("__init__", "__new__", "__post_init__") and all(isinstance(n, ast.Attribute) and U(n.value) == "self" for n in st):
            r.ok(f"writer|{key}", f"constructor initialising {names} of its own fresh object", where)
        elif key in owners:
            r.ok(f"writer|{key}", f"owner of {names}: {owners[key]}", where)
        elif owned(key):
            r.ok(f"writer|{key}", f"stores {names}; called only by the owner(s) of the {what}", where)
        else:
            callers = [c for c in g.callers(key) if c in reach][:4]
            r.bad(f"writer|{key}", f"stores {names} but is neither a constructor nor an owner of the {what}; reached from {callers}", where)
    if not any(k in writers for k in owners):
        raise AnalysisError(f"{rid}: no owner stores any of {sorted(attrs)} (anchor vanished)")
    return r


DECORATION_COLUMNS = {"occupancy", "temp_factor"}


def rule_decoration_columns_unused(prog, rep, rid, title, scope_calls=(), scope_roots=(), floor=1, what="this step"):
    """Non-interference rule: the occupancy and temperature-factor columns of a coordinate record describe the experiment, not the model.  The
    properties state their outcome in terms of names, connectivity and coordinates for every input, so no decision of the step may read those
    columns.  Scope: every function that directly calls one of `scope_calls` (by method name) or is one of `scope_roots`, and everything such a
    function calls.  Accepted reads: copying the column onto the same attribute of another object, and rendering it as text (f-string, format,
    str, %, or an argument of a logging call)."""
    from ..callgraph import CallGraph
    r = rep.rule(rid, title, floor=floor)
    g = CallGraph(prog)
    roots = {k for k in scope_roots if k in prog.funcs}
    if len(roots) != len(tuple(scope_roots)):
        raise AnalysisError(f"{rid}: scope function(s) {sorted(set(scope_roots) - roots)} not found")
    for key, f in prog.funcs.items():
        for c in calls_in(f.node):
            if isinstance(c.func, ast.Attribute) and c.func.attr in scope_calls:
                roots.add(key)
    if not roots:
        raise AnalysisError(f"{rid}: nothing calls any of {sorted(scope_calls)} (anchor vanished)")
    scope = set()
    for k in roots:
        scope |= g.closure(k)
        scope |= {o for o in prog.funcs if o.startswith(k + ".<locals>.")}

    def rendered(n):
        p = parent(n)
        while p is not None and not isinstance(p, ast.stmt):
            if isinstance(p, (ast.JoinedStr, ast.FormattedValue)):
                return True
            if isinstance(p, ast.Call):
                fn = U(p.func)
                if fn in ("str", "repr", "format") or fn.split(".")[-1] in ("format", "debug", "info", "warning", "error", "critical", "exception", "log"):
                    return True
            if isinstance(p, ast.BinOp) and isinstance(p.op, ast.Mod) and isinstance(p.left, (ast.Constant, ast.JoinedStr)):
                return True
            p = parent(p)
        return False

    def copied(n):
        p = parent(n)
        return isinstance(p, ast.Assign) and p.value is n and all(isinstance(t, ast.Attribute) and t.attr == n.attr for t in p.targets)

    n_reads = 0
    for key in sorted(scope):
        f = prog.funcs.get(key)
        if f is None:
            continue
        for n in walk_no_defs(f.node):
            hit = None
            if isinstance(n, ast.Attribute) and isinstance(n.ctx, ast.Load) and n.attr in DECORATION_COLUMNS:
                hit = n.attr
                if copied(n) or rendered(n):
                    n_reads += 1
                    continue
            elif isinstance(n, ast.Call) and U(n.func) == "getattr" and len(n.args) >= 2 and isinstance(n.args[1], ast.Constant) and n.args[1].value in DECORATION_COLUMNS:
                hit = n.args[1].value
            if hit:
                n_reads += 1
                r.bad(f"read|{key}:{hit}", f"{f.qual} reads the {hit} column in `{U(parent(n) if not isinstance(parent(n), ast.stmt) else n)[:80]}`: a decision of {what} depends on a column "
                      "that says nothing about the model", f"pdb2pqr/{f.module.rel}:{n.lineno} ({f.qual})")
    r.info["functions_in_scope"] = len(scope)
    r.info["scope_roots"] = sorted(roots)[:12]
    r.add("scope", True, f"{len(scope)} function(s) in scope ({len(roots)} root(s)); {n_reads} read(s) of occupancy / temperature factor examined")
    return r


_CARRY_MUTATORS = LIST_MUTATORS | {"add", "update", "setdefault", "discard", "popitem", "appendleft", "difference_update", "intersection_update"}


def loop_carried_state(fn, loop, allowed=()):
    """Places (local names, `self.attr`) through which one iteration of `loop` can influence a later one: written or mutated in the body,
    alive across iterations (bound outside the body, or an attribute of self) and read in the body before the iteration itself has assigned
    them - reads that are part of the update itself (`n += 1`, `seen.add(x)`) do not count.  -> {place: (write node, read node)}"""
    targets = {n.id for n in ast.walk(loop.target) if isinstance(n, ast.Name)}

    def place(n):
        if isinstance(n, ast.Name):
            return n.id
        if isinstance(n, ast.Attribute) and isinstance(n.value, ast.Name) and n.value.id == "self":
            return f"self.{n.attr}"
        return None

    def root(n):
        while isinstance(n, (ast.Subscript, ast.Attribute)):
            p = place(n)
            if p is not None:
                return p
            n = n.value
        return place(n)

    body = [n for st in loop.body for n in walk_no_defs(st)]
    writes = {}
    own_reads = set()
    for n in body:
        if isinstance(n, (ast.Name, ast.Attribute)) and isinstance(n.ctx, (ast.Store, ast.Del)) and place(n):
            writes.setdefault(place(n), n)
        elif isinstance(n, (ast.Subscript, ast.Attribute)) and isinstance(n.ctx, (ast.Store, ast.Del)):
            r_ = root(n.value)
            if r_:
                writes.setdefault(r_, n)
                own_reads |= {id(x) for x in ast.walk(n.value)}
        elif isinstance(n, ast.Call) and isinstance(n.func, ast.Attribute) and n.func.attr in _CARRY_MUTATORS:
            r_ = root(n.func.value)
            if r_:
                writes.setdefault(r_, n)
                own_reads |= {id(x) for x in ast.walk(n.func.value)}
        if isinstance(n, ast.AugAssign):
            own_reads |= {id(x) for x in ast.walk(n.target)}
    outside = {a.arg for a in fn.args.args + fn.args.kwonlyargs}
    inbody = {id(n) for n in body}
    for n in walk_no_defs(fn):
        if id(n) not in inbody and isinstance(n, ast.Name) and isinstance(n.ctx, ast.Store):
            outside.add(n.id)
    cands = {p for p in writes if (p.startswith("self.") or p in outside) and p not in targets and p not in allowed and p != "self"}
    found = {}

    def reads_in(node, assigned):
        for n in walk_no_defs(node):
            p = place(n) if isinstance(n, (ast.Name, ast.Attribute)) and isinstance(getattr(n, "ctx", None), ast.Load) else None
            if p in cands and p not in assigned and id(n) not in own_reads and p not in found:
                found[p] = (writes[p], n)

    def run(stmts, assigned):
        assigned = set(assigned)
        for st in stmts:
            if isinstance(st, ast.If):
                reads_in(st.test, assigned)
                a = run(st.body, assigned)
                b = run(st.orelse, assigned)
                assigned = a & b
            elif isinstance(st, (ast.For, ast.While, ast.Try, ast.With)):
                for sub in ast.iter_child_nodes(st):
                    if isinstance(sub, ast.stmt):
                        continue
                    reads_in(sub, assigned)
                for field in ("body", "orelse", "finalbody"):
                    run(getattr(st, field, []) or [], assigned)
                for h in getattr(st, "handlers", []) or []:
                    run(h.body, assigned)
            else:
                if isinstance(st, ast.Assign):
                    reads_in(st.value, assigned)
                    for t_ in st.targets:
                        if place(t_):
                            assigned.add(place(t_))
                        else:
                            reads_in(t_, assigned)
                else:
                    reads_in(st, assigned)
        return assigned

    run(loop.body, set())
    return found


def rule_iterations_independent(rep, rid, title, f, loop, allowed=(), floor=1, what="residue"):
    """One iteration of the loop decides for one `what`; the property states that decision as a function of that item alone, so nothing an
    earlier iteration wrote may be read by a later one (listed exceptions: the table an iteration consumes its own entry from)."""
    r = rep.rule(rid, title, floor=floor)
    where = f"pdb2pqr/{f.module.rel}:{loop.lineno} ({f.qual})"
    found = loop_carried_state(f.node, loop, allowed)
    for p, (w, rd) in sorted(found.items()):
        r.bad(f"carried|{p}", f"`{p}` is changed at line {w.lineno} (`{U(w)[:60]}`) and read at line {rd.lineno} by a later iteration: what is decided for one "
              f"{what} depends on the {what}s visited before it", where)
    r.add("loop", not found, f"the loop over {U(loop.iter)} carries no state from one {what} to the next" + (f" (other than {sorted(allowed)})" if allowed else ""), where)
    return r


def always_calls(prog, f, attr, depth=2, construct=None):
    """Structured must-pass: does every path through function `f` that ends normally (falls off the end or returns) execute a call `<x>.attr(...)`
    (directly, or through a method/function of the same module that itself always does)?  Paths that end in `raise` are not counted.  Loops
    may run zero times and count for nothing."""
    def helper(call):
        if depth <= 0:
            return False
        name = None
        if isinstance(call.func, ast.Attribute) and isinstance(call.func.value, ast.Name) and call.func.value.id == "self" and f.cls is not None:
            name = f"{f.module.rel}::{f.cls.name}.{call.func.attr}"
        elif isinstance(call.func, ast.Name):
            name = f"{f.module.rel}::{call.func.id}"
        g = prog.funcs.get(name) if name else None
        return g is not None and g is not f and always_calls(prog, g, attr, depth - 1)

    def expr_has(node):
        for c in [n for n in walk_no_defs(node) if isinstance(n, ast.Call)]:
            if isinstance(c.func, ast.Attribute) and c.func.attr == attr:
                return True
            if helper(c):
                return True
        return False

    def seq(stmts):
        """-> 'yes' (every normally-ending path so far has called), 'no' (some path left by return without calling), None (undecided, go on)"""
        for st in stmts:
            if isinstance(st, ast.Return):
                return "yes" if (st.value is not None and expr_has(st.value)) else "no"
            if isinstance(st, ast.Raise):
                return "yes"  # this path does not end normally
            if isinstance(st, ast.If):
                if expr_has(st.test):
                    return "yes"
                a, b = seq(st.body), seq(st.orelse)
                if a == "yes" and b == "yes":
                    return "yes"
                if a == "no" or b == "no":
                    return "no"
                continue
            if isinstance(st, (ast.For, ast.While)):
                if isinstance(st, ast.For) and expr_has(st.iter):
                    return "yes"
                inner = seq(st.body)
                if inner == "no":
                    return "no"
                continue
            if isinstance(st, ast.With):
                if any(expr_has(i.context_expr) for i in st.items):
                    return "yes"
                inner = seq(st.body)
                if inner:
                    return inner
                continue
            if isinstance(st, ast.Try):
                inner = seq(st.body + st.orelse)
                fin = seq(st.finalbody) if st.finalbody else None
                if fin == "yes" or (inner == "yes" and all(seq(h.body) == "yes" for h in st.handlers)):
                    return "yes"
                if inner == "no" or fin == "no" or any(seq(h.body) == "no" for h in st.handlers):
                    return "no"
                continue
            if isinstance(st, (ast.FunctionDef, ast.ClassDef)):
                continue
            if expr_has(st):
                return "yes"
        return None

    return seq(f.node.body) == "yes"


def rule_refill_is_unconditional(prog, rep, rid, title, attr="assign_cells", floor=2):
    """The neighbour map is a cache of the atom list.  A function that refills it (`attr`) does so on every path: a refill under a condition
    ("only if something changed") leaves a map that describes an earlier atom list whenever the condition misjudges."""
    r = rep.rule(rid, title, floor=floor)
    n = 0
    for key, f in sorted(prog.funcs.items()):
        direct = [c for c in calls_in(f.node) if isinstance(c.func, ast.Attribute) and c.func.attr == attr]
        if not direct or f.node.name == attr:
            continue
        n += 1
        ok = always_calls(prog, f, attr, depth=0)
        r.add(f"refill|{key}", ok, f"{f.qual} fills the cell map from the current atom list " + ("on every path" if ok else
              f"on some paths only (line {direct[0].lineno}): on the others the queries that follow read a map built for an earlier atom list"),
              f"pdb2pqr/{f.module.rel}:{direct[0].lineno} ({f.qual})")
    if n == 0:
        raise AnalysisError(f"{rid}: no function calls {attr} (anchor vanished)")
    return r


def rule_no_runtime_module_state(prog, rep, rid, title, modules, consequence, floor=1):
    """No function of `modules` changes a module-level container at run time (subscript store or delete, mutating method call, augmented
    assignment, rebinding through `global`): such a container outlives the call, so what one call left there answers for the next one -
    `consequence` says what that breaks for the property at hand."""
    from ..callgraph import CallGraph
    r = rep.rule(rid, title, floor=floor)
    g = CallGraph(prog)
    reach = g.reachable()
    n_containers = 0
    for rel in modules:
        mod = prog.modules.get(rel)
        if mod is None:
            raise AnalysisError(f"{rid}: module {rel} not found")
        shared_names = {}
        for st in mod.tree.body:
            tg = st.targets if isinstance(st, ast.Assign) else [st.target] if isinstance(st, ast.AnnAssign) and st.value is not None else []
            val = getattr(st, "value", None)
            mutable = isinstance(val, (ast.Dict, ast.List, ast.Set, ast.DictComp, ast.ListComp, ast.SetComp)) or (
                isinstance(val, ast.Call) and U(val.func).split(".")[-1] in ("dict", "list", "set", "OrderedDict", "defaultdict", "Counter", "deque", "WeakValueDictionary"))
            for t in tg:
                if isinstance(t, ast.Name) and mutable:
                    shared_names[t.id] = st
        n_containers += len(shared_names)
        for key, f in sorted(prog.funcs.items()):
            if f.module.rel != rel or key not in reach:
                continue
            local = {a.arg for a in f.node.args.args + f.node.args.kwonlyargs} | {n.id for n in walk_no_defs(f.node) if isinstance(n, ast.Name) and isinstance(n.ctx, ast.Store)}
            declared_global = {nm for n in walk_no_defs(f.node) if isinstance(n, ast.Global) for nm in n.names}
            for n in walk_no_defs(f.node):
                hit = None
                if isinstance(n, ast.Subscript) and isinstance(n.ctx, (ast.Store, ast.Del)) and isinstance(n.value, ast.Name):
                    hit = n.value.id
                elif isinstance(n, ast.Call) and isinstance(n.func, ast.Attribute) and isinstance(n.func.value, ast.Name) and n.func.attr in _CARRY_MUTATORS:
                    hit = n.func.value.id
                elif isinstance(n, ast.AugAssign) and isinstance(n.target, ast.Name):
                    hit = n.target.id
                elif isinstance(n, ast.Name) and isinstance(n.ctx, ast.Store) and n.id in declared_global:
                    hit = n.id
                if hit in shared_names and (hit not in local or hit in declared_global):
                    r.bad(f"state|{rel}:{hit}", f"{f.qual} changes the module-level container {hit} at run time (`{U(n)[:60]}`): {consequence}",
                          f"pdb2pqr/{rel}:{n.lineno} ({f.qual})")
    r.add("modules", True, f"{len(modules)} module(s), {n_containers} module-level container(s): none is changed by a function that runs after import")
    return r
