"""C13 -- disulfide bridges are detected symmetrically and exclusively."""
from __future__ import annotations

import ast

from ..cells import Model
from ..core import AnalysisError, U, calls_in, guards_of, iter_stmts, parent, try_fold, walk_no_defs
from ..tables import Tables


def check(prog, rep):
    rep.explanation = (
        "update_ss_bridges evaluated on a model structure (constant propagation on object models); guard tables of the consumers "
        "(add_hydrogens, CYS.set_state, debump exemptions); the CYX/CYM patch tables and bridged force-field cells; the pairing/alias "
        "analysis of the scan's code shape is kept as a fallback for shapes the interpreter cannot follow"
    )
    rep.not_decided += ["geometry of real structures", "the three-sulfur case (outside the property)"]
    n0 = len(rep.rules)
    rep.guarded(rule_model_bridges, prog, rep)
    model_ok = len(rep.rules) > n0 and not rep.deferred
    if not model_ok:
        rep.guarded(_structural_scan, prog, rep)  # the shape-based formulation of the same facts
    rep.guarded(_consumers, prog, rep)
    rep.guarded(rule_bridged_cells, prog, rep)
    from . import shared
    rep.guarded(shared.rule_decoration_columns_unused, prog, rep, "R10", "the bridge search reads names and coordinates only: occupancy and temperature factor never decide a bridge",
                (), ("biomolecule.py::Biomolecule.update_ss_bridges",), 1, "the disulfide search")


def rule_bridged_cells(prog, rep):
    """A bridged cysteine receives the force field's bridged-cysteine parameters at every chain position."""
    from ..cells import amino_cells, ff_status
    from ..tables import FFS
    r = rep.rule("R9", "bridged cysteines are fully parameterised, neutral, at every chain position in every force field that defines them", floor=12)
    t = Tables(prog.root)
    model = Model(prog, t)
    cells = [c for c in amino_cells(model, residues=["CYS"]) if c.state == "CYX" and c.pos != "N+C"]
    for ff in FFS:
        ffmap = t.ff(ff)
        mid = next((c for c in cells if c.pos == "mid"), None)
        if mid is None or ff_status(ffmap, mid)[0] != "full":
            continue  # the force field has no bridged cysteine at all (reported by C12.R5 / C01.R6)
        for c in cells:
            st, miss, q = ff_status(ffmap, c)
            # termini: compared with what the force field offers for a free cysteine at the same position
            ok = st == "full" and abs(q - c.expected) <= 5e-4
            if st != "full":
                free = next((x for x in amino_cells(model, residues=["CYS"]) if x.state == "default" and x.pos == c.pos), None)
                if free is not None and ff_status(ffmap, free)[0] != "full":
                    continue  # this force field does not parameterise cysteine at that position at all
            r.add(f"bridged|{ff}:{c.pos}", ok, f"{ff.upper()} {c.lookup}: {st}" + (f", missing {miss[:4]}" if miss else "") +
                  (f", charge {q:+.4f} (formal {c.expected:+d})" if q is not None else ""), f"pdb2pqr/dat/{ff.upper()}.DAT / .names")


def rule_model_bridges(prog, rep):
    """update_ss_bridges is evaluated on an object model of a small structure that contains every case of the property's
    quantifier: a bridge across chains, a bridge whose one partner the input already labels CYX, a free cysteine, a
    cysteine without SG, a labelled thiolate, and a pair just beyond the limit - in two residue orders."""
    import math
    from ..guards import Flow, Obj
    from ..objinterp import ObjRunner
    r = rep.rule("R8", "model structure: exactly the sulfur pairs within the limit are bridged, symmetrically, in any residue order", floor=3)
    fi = prog.func("biomolecule.py", "Biomolecule.update_ss_bridges")
    where = f"pdb2pqr/biomolecule.py:{fi.node.lineno} (Biomolecule.update_ss_bridges)"
    limit = prog.module_constants("config.py").get("BONDED_SS_LIMIT")
    if not isinstance(limit, (int, float)):
        raise AnalysisError("config.BONDED_SS_LIMIT does not fold to a number")
    spec = [  # (id, class, label, chain, number, SG position or None)
        ("c1", "CYS", "CYS", "A", 5, (0.0, 0.0, 0.0)), ("c2", "CYS", "CYS", "B", 30, (2.03, 0.0, 0.0)),
        ("c3", "CYS", "CYX", "A", 12, (10.0, 0.0, 0.0)), ("c4", "CYS", "CYS", "A", 40, (10.0, 2.0, 0.3)),
        ("c5", "CYS", "CYS", "A", 50, (20.0, 0.0, 0.0)), ("c6", "CYS", "CYS", "A", 51, None),
        ("a7", "ALA", "ALA", "A", 52, None), ("c8", "CYS", "CYM", "A", 60, (40.0, 0.0, 0.0)),
        ("c9", "CYS", "CYS", "C", 1, (60.0, 0.0, 0.0)), ("c10", "CYS", "CYS", "C", 2, (60.0, limit + 0.1, 0.0)),
        ("c11", "CYS", "CYS", "D", 7, (80.0, 0.0, 0.0)), ("c12", "CYS", "CYS", "D", 9, (80.0, 0.0, limit - 0.01)),
        ("c13", "CYS", "CYM", "E", 1, (120.0, 0.0, 0.0)), ("c14", "CYS", "CYS", "E", 5, (120.0, 2.04, 0.0)),  # one partner labelled as a thiolate
    ]
    want = {frozenset(("c1", "c2")), frozenset(("c3", "c4")), frozenset(("c11", "c12")), frozenset(("c13", "c14"))}
    # bridged pairs that straddle a whole cell of every grid spacing below the limit that the code could search neighbours with (the numeric
    # constants of config.py and a few round values), along each axis, at negative and positive coordinates: detection must not depend on
    # where the molecule sits in space
    spacings = sorted({1.0, 1.5, 2.0, 2.4} | {float(v) for v in prog.module_constants("config.py").values()
                                             if isinstance(v, (int, float)) and not isinstance(v, bool) and 0.5 <= v < limit - 0.03})
    n = 0
    for sp in spacings:
        d = round(min(limit - 0.01, max(sp + 0.03, 2.03)), 3)
        if d <= sp + 0.02:
            continue
        for axis in range(3):
            for k in (3, -4):
                n += 1
                shift = sp * round(200.0 * n / sp)  # pairs are kept 200 A apart along x, by a whole number of cells
                p1 = [shift + 0.5 * sp, 0.5 * sp, 0.5 * sp]
                p1[axis] = k * sp - 0.01 + (shift if axis == 0 else 0.0)  # just below a cell boundary; the partner lies beyond the next one
                p2 = list(p1)
                p2[axis] = p1[axis] + d
                spec.append((f"g{n}a", "CYS", "CYS", "G", 100 + 2 * n, tuple(p1)))
                spec.append((f"g{n}b", "CYS", "CYS", "G", 101 + 2 * n, tuple(p2)))
                want.add(frozenset((f"g{n}a", f"g{n}b")))

    def build(order):
        residues, atoms = [], []
        for rid, cls, label, chain, num, sg in order:
            res = Obj({"__class__": cls, "name": label, "__id__": rid, "chain_id": chain, "res_seq": num, "atoms": [], "map": {},
                       "ss_bonded": False, "ss_bonded_partner": None, "patches": [], "reference": None, "ffname": label, "is_n_term": 0, "is_c_term": 0,
                       "is5term": 0, "is3term": 0, "stateboolean": {}})
            names = ["N", "CA", "C", "O", "CB"] + (["SG"] if sg else [])
            for k, an in enumerate(names):
                pos = sg if an == "SG" else (sg[0] + 1.5 + k if sg else 100.0 + num + k, 5.0, 5.0)
                a = Obj({"__class__": "Atom", "name": an, "res_name": label, "chain_id": chain, "res_seq": num, "residue": res,
                         "x": pos[0], "y": pos[1], "z": pos[2], "__props__": {"coords": lambda a_: [a_["x"], a_["y"], a_["z"]]}})
                res["atoms"].append(a)
                res["map"][an] = a
                atoms.append(a)
            residues.append(res)
        return Obj({"__class__": "Biomolecule", "residues": residues, "atoms": atoms, "chains": []}), residues

    results = {}
    for oname, order in (("file order", spec), ("reversed", list(reversed(spec)))):
        bio, residues = build(order)
        patched = []

        def extra(runner, interp, call, args, kw, patched=patched):
            nm = U(call.func)
            if nm == "math.dist" and len(args) == 2:
                return math.sqrt(sum((a - b) ** 2 for a, b in zip(args[0], args[1])))
            if isinstance(call.func, ast.Attribute) and call.func.attr == "apply_patch" and len(args) == 2:
                patched.append((args[0], args[1]["__id__"]))
                args[1]["patches"].append(args[0])
                return None
            return NotImplemented

        run = ObjRunner(prog, "biomolecule.py", extra_hook=extra)
        try:
            run.call(bio, "update_ss_bridges")
        except Flow as fl:
            r.bad(f"model|{oname}|runs", f"update_ss_bridges stops with {fl.value} on the model structure", where)
            continue
        flagged = {x["__id__"] for x in residues if x["ss_bonded"]}
        pairs = set()
        asym = []
        for x in residues:
            p_ = x["ss_bonded_partner"]
            if p_ is not None:
                other = p_["residue"]
                pairs.add(frozenset((x["__id__"], other["__id__"])))
                back = other["ss_bonded_partner"]
                if back is None or back["residue"] is not x or p_["name"] != "SG":
                    asym.append(f"{x['__id__']} -> {other['__id__']} is not returned")
        cyx = {rid for pn, rid in patched if pn == "CYX"}
        exp_ids = {i for pr in want for i in pr}
        ok = pairs == want and flagged == exp_ids and cyx == exp_ids and not asym
        results[oname] = (sorted(map(sorted, pairs)), sorted(flagged))
        r.add(f"model|{oname}", ok, f"{oname}: bridged pairs {sorted(map(sorted, pairs))}, flagged {sorted(flagged)}, CYX patch on {sorted(cyx)}"
              + (f"; asymmetric: {asym}" if asym else "") + (f" -- expected exactly {sorted(map(sorted, want))} (sulfurs {limit} A apart or closer; "
                                                            "a partner the input labels CYX is still a cysteine; chain and numbering play no role)" if not ok else ""), where)
        # the name under which the parameters are looked up afterwards (CYS.set_state): bridged -> CYX on both sides, whatever the input label
        names = {}
        try:
            for x in residues:
                if x["__class__"] == "CYS":
                    run.call(x, "set_state")
                    names[x["__id__"]] = x["ffname"]
        except (Flow, AnalysisError):
            names = None
        if names is not None:
            wrong = {i: names[i] for i in sorted(exp_ids) if names.get(i) != "CYX"}
            free = names.get("c8")
            r.add(f"model|{oname}|state-names", not wrong and free == "CYM", f"{oname}: parameters of the bridged cysteines are looked up under "
                  f"{sorted(set(names[i] for i in exp_ids if i in names))}" + (f" - not CYX for {wrong}" if wrong else "") +
                  f"; the free cysteine labelled CYM under {free!r}", "pdb2pqr/aa.py (CYS.set_state)")
    if len(results) == 2:
        a, b = results.values()
        r.add("model|order-independent", a == b, f"the two residue orders give {'the same' if a == b else 'different'} bridges", where)
    r.info["methods_interpreted"] = sorted(set(run.calls))


def _structural_scan(prog, rep):
    fi = prog.func("biomolecule.py", "Biomolecule.update_ss_bridges")
    fn = fi.node
    where = f"pdb2pqr/biomolecule.py:{fn.lineno} (Biomolecule.update_ss_bridges)"
    consts = prog.module_constants("config.py")

    # the partner dictionary
    dname = None
    for st in fn.body:
        if isinstance(st, ast.Assign) and isinstance(st.value, ast.Dict) and not st.value.keys:
            dname = U(st.targets[0])
            break
    if dname is None:
        raise AnalysisError("update_ss_bridges: partner dictionary not found")

    # ------------------------------------------------------------------ R4 (collection)
    r4 = rep.rule("R4", "detection does not depend on residue order, chain membership or numbering", floor=3)
    coll = [s for s in fn.body if isinstance(s, ast.For) and U(s.iter) == "self.residues"]
    ok_coll = False
    if coll:
        stores = [s for s in iter_stmts(coll[0].body) if isinstance(s, ast.Assign) and U(s.targets[0]).startswith(f"{dname}[")]
        if stores:
            g = set()
            for t_, p_ in guards_of(stores[0], coll[0]):
                while isinstance(t_, ast.UnaryOp) and isinstance(t_.op, ast.Not):
                    t_, p_ = t_.operand, not p_
                if isinstance(t_, ast.Compare) and len(t_.ops) == 1 and isinstance(t_.ops[0], (ast.Is, ast.IsNot, ast.Eq, ast.NotEq)) \
                        and U(t_.comparators[0]) == "None" and isinstance(t_.ops[0], (ast.Is, ast.Eq)):
                    t_, p_ = ast.Compare(left=t_.left, ops=[ast.IsNot()], comparators=t_.comparators), not p_
                g.add((U(t_), p_))
            g = sorted(g)
            ok_coll = any("isinstance(residue, aa.CYS)" in t and p for t, p in g) and any("is not None" in t and p for t, p in g) \
                and len(g) == 2 and U(stores[0].value) == "[]"
            gd = g
    r4.add("all-cys-with-SG", ok_coll, f"every CYS with an SG atom enters the scan (guards {gd if coll and stores else '?'})", where)
    loads = sorted({n.attr for n in walk_no_defs(fn) if isinstance(n, ast.Attribute) and n.attr in
                    ("chain_id", "res_seq", "ins_code", "serial", "index")} |
                   {U(c.func) for c in calls_in(fn) if U(c.func) in ("enumerate", "sorted", "range")})
    r4.add("no-order-inputs", not loads, f"chain/number/index inputs read by the scan: {loads or 'none'}", where)

    # the scan: nested loops over the dictionary
    scan = None
    via_cells = None
    for s in fn.body:
        if isinstance(s, ast.For) and U(s.iter) == dname:
            inner = [x for x in s.body if isinstance(x, ast.For)]
            if inner and U(inner[0].iter) in (f"{dname}.items()", dname):
                scan = (s, inner[0])
            elif inner and isinstance(inner[0].iter, ast.Call) and isinstance(inner[0].iter.func, ast.Attribute) \
                    and inner[0].iter.func.attr == "get_near_cells":
                scan = (s, inner[0])
                via_cells = U(inner[0].iter.func.value)
    if scan is None:
        raise AnalysisError("update_ss_bridges: pairwise scan (nested loops over the partner dictionary) not found")
    outer, inner = scan
    a = U(outer.target)
    alias = {}
    if isinstance(inner.target, ast.Tuple):
        b = U(inner.target.elts[0])
        alias[U(inner.target.elts[1])] = f"{dname}[{b}]"
    else:
        b = U(inner.target)
    if via_cells is None:
        r4.add("full-pair-scan", True, f"pairs ({a}, {b}) range over all keys x all keys of {dname}", where)
    else:
        # candidates come from a neighbour query: it is complete only for pairs closer than the cell size (C14)
        size = None
        for st in iter_stmts(fn.body):
            if isinstance(st, ast.Assign) and U(st.targets[0]) == via_cells and isinstance(st.value, ast.Call) and U(st.value.func).endswith("Cells") and st.value.args:
                size = try_fold(st.value.args[0], consts)
        lim = consts.get("BONDED_SS_LIMIT")
        filled = any(isinstance(c.func, ast.Attribute) and c.func.attr in ("add_cell", "assign_cells") and U(c.func.value) == via_cells for c in calls_in(fn))
        r4.add("full-pair-scan", isinstance(size, (int, float)) and isinstance(lim, (int, float)) and size >= lim and filled,
               f"candidate partners come from {via_cells}.get_near_cells, a cell list of size {size}; the query returns every atom closer than the "
               f"cell size only, but the bonding limit is {lim}: " + ("covered" if isinstance(size, (int, float)) and isinstance(lim, (int, float)) and size >= lim else
               "two sulfurs within the limit can lie two cells apart and are never compared - detection depends on where the molecule sits in space"),
               f"pdb2pqr/biomolecule.py:{inner.lineno} (update_ss_bridges)")

    # ------------------------------------------------------------------ R3
    r3 = rep.rule("R3s", "bonding limit compared strictly on the SG-SG distance (shape)", floor=2)
    cmp_if = None
    for n in iter_stmts(inner.body):
        if isinstance(n, ast.If) and isinstance(n.test, ast.Compare) and any(isinstance(c, ast.Call) and U(c.func).endswith(".append")
                                                                               for c in ast.walk(n)):
            cmp_if = n
    if cmp_if is None:
        r3.bad("limit", "no distance comparison guards the partner update", where)
        return
    test = cmp_if.test
    lim = try_fold(test.comparators[0], consts)
    op = type(test.ops[0]).__name__
    r3.add("limit", lim == 2.5 and op in ("Lt", "LtE"), f"test {U(test)!r}: operator {op}, limit folds to {lim} "
           f"(BONDED_SS_LIMIT={consts.get('BONDED_SS_LIMIT')})", f"pdb2pqr/biomolecule.py:{cmp_if.lineno} (update_ss_bridges)")
    dvar = U(test.left)
    ddef = [U(s.value) for s in iter_stmts(inner.body) if isinstance(s, ast.Assign) and U(s.targets[0]) == dvar]
    okd = ddef in ([f"util.distance({a}.coords, {b}.coords)"], [f"util.distance({b}.coords, {a}.coords)"])
    r3.add("distance-of-the-pair", okd, f"{dvar} = {ddef}", where)

    # ------------------------------------------------------------------ R1
    r1 = rep.rule("R1", "partner relation is updated symmetrically in one block", floor=1)
    apps = []
    for s in cmp_if.body:
        if isinstance(s, ast.Expr) and isinstance(s.value, ast.Call) and U(s.value.func).endswith(".append"):
            cont = U(s.value.func.value)
            cont = alias.get(cont, cont)
            apps.append((cont, U(s.value.args[0])))
    swapped = {(c.replace(f"[{a}]", "[#]").replace(f"[{b}]", f"[{a}]").replace("[#]", f"[{b}]"),
                b if v == a else a if v == b else v) for c, v in apps}
    sym = set(apps) == swapped and len(apps) == 2 and {v for _, v in apps} == {a, b} \
        and all(c == f"{dname}[{b if v == a else a}]" for c, v in apps)
    r1.add("symmetric-append", sym, f"appends in the bonded branch: {apps}; swapping {a}<->{b} "
           f"{'maps the set onto itself' if sym else 'does NOT map the set onto itself'}",
           f"pdb2pqr/biomolecule.py:{cmp_if.lineno} (update_ss_bridges)")
    # skip conditions of the scan: only 'same atom' and 'already has a partner'
    skips = [s for s in inner.body if isinstance(s, ast.If) and any(isinstance(x, ast.Continue) for x in s.body)]
    sk = [U(s.test) for s in skips]
    allowed = {f"{a} == {b}", f"{b} == {a}", f"{a} is {b}", f"{dname}[{a}] != []", f"{a} == {b} or {dname}[{a}] != []"}
    if via_cells is not None and not any(f"{a} == {b}" in x or f"{b} == {a}" in x for x in [U(s_.test) for s_ in inner.body if isinstance(s_, ast.If)]):
        pass  # get_near_cells never returns the query atom itself (C14.R1 only-self-skipped)
    r1.add("scan-skips", all(x in allowed for x in sk), f"pairs skipped by the scan: {sk}", where)

    # ------------------------------------------------------------------ R2
    r2 = rep.rule("R2", "both partners are flagged, pointed at each other and patched by one uniform loop", floor=3)
    ploops = [s for s in fn.body if isinstance(s, ast.For) and U(s.iter) == dname and s is not outer]
    if not ploops:
        r2.bad("patch-loop", "no second loop over the partner dictionary applies the bridge state", where)
    else:
        pl = ploops[0]
        v = U(pl.target)
        binds = {U(s.targets[0]): U(s.value) for s in iter_stmts(pl.body) if isinstance(s, ast.Assign) and isinstance(s.targets[0], ast.Name)}
        patch = [c for c in calls_in(pl) if U(c.func) == "self.apply_patch" and try_fold(c.args[0]) == "CYX"]
        flag = [s for s in iter_stmts(pl.body) if isinstance(s, ast.Assign) and U(s.targets[0]).endswith(".ss_bonded")]
        ptr = [s for s in iter_stmts(pl.body) if isinstance(s, ast.Assign) and U(s.targets[0]).endswith(".ss_bonded_partner")]
        w2 = f"pdb2pqr/biomolecule.py:{pl.lineno} (update_ss_bridges)"
        if not (patch and flag and ptr):
            r2.bad("patch-loop", f"CYX patch sites {len(patch)}, flag stores {len(flag)}, partner stores {len(ptr)}", w2)
        else:
            same_block = parent(_stmt(patch[0])) is parent(flag[0]) is parent(ptr[0])
            g = [(U(t), p) for t, p in guards_of(flag[0], pl)]
            cntname = next((k for k, val in binds.items() if val == f"len({dname}[{v}])"), None)
            guard_ok = g == [(f"{cntname} == 1", True)]
            r2.add("single-guard", same_block and guard_ok and len(patch) == len(flag) == len(ptr) == 1,
                   f"flag, partner pointer and CYX patch share one block guarded by {g}", w2)
            res = U(flag[0].targets[0]).rsplit(".", 1)[0]
            okres = binds.get(res) == f"{v}.residue" and U(patch[0].args[1]) == res and U(ptr[0].targets[0]).startswith(res + ".") \
                and U(flag[0].value) in ("True", "1")
            r2.add("own-residue", okres, f"state is written on {res} = {binds.get(res)} (the loop atom's own residue); every "
                   "bonded atom is visited by the same loop", w2)
            pv = U(ptr[0].value)
            okp = binds.get(pv) == f"{dname}[{v}][0]"
            r2.add("partner-pointer", okp, f"partner pointer <- {pv} = {binds.get(pv)}", w2)



def _consumers(prog, rep):
    consts = prog.module_constants("config.py")
    r3 = rep.rule("R3", "the bonding limit is 2.5 A", floor=1)
    r3.add("limit-constant", consts.get("BONDED_SS_LIMIT") == 2.5, f"config.BONDED_SS_LIMIT folds to {consts.get('BONDED_SS_LIMIT')}; the model pairs at "
           "2.49 A (bridged) and 2.6 A (free) decide how it is compared", "pdb2pqr/config.py")
    # bridges are looked for once every sulfur is there: heavy-atom repair (which rebuilds a missing SG) comes before the search on every path
    nt_ = prog.func("main.py", "non_trivial").node
    order_ = {id(x): i for i, x in enumerate(iter_stmts(nt_.body))}

    def _st(n_):
        while n_ is not None and not isinstance(n_, ast.stmt):
            n_ = parent(n_)
        return n_

    seq = sorted((order_[id(_st(c))], U(c.func).split(".")[-1]) for c in calls_in(nt_) if U(c.func).split(".")[-1] in ("repair_heavy", "update_ss_bridges"))
    first_search = min((i for i, n_ in seq if n_ == "update_ss_bridges"), default=None)
    last_repair = max((i for i, n_ in seq if n_ == "repair_heavy"), default=None)
    r3.add("search-after-repair", first_search is not None and last_repair is not None and last_repair < first_search,
           f"statements of non_trivial in source order: repair_heavy at {[i for i, n_ in seq if n_ == 'repair_heavy']}, update_ss_bridges at "
           f"{[i for i, n_ in seq if n_ == 'update_ss_bridges']} (a sulfur rebuilt by the repair must be seen by the search)", f"pdb2pqr/main.py:{nt_.lineno} (non_trivial)")
    # ------------------------------------------------------------------ R5
    r5 = rep.rule("R5", "consumers honour the bridge state (HG suppression, CYX naming, clash exemption)", floor=4)
    ah = prog.func("biomolecule.py", "Biomolecule.add_hydrogens").node
    from ..core import expand_temps
    modelled = None
    try:
        from .shared import add_hydrogens_on_models
        modelled = add_hydrogens_on_models(prog)
    except AnalysisError:
        modelled = None
    if modelled is not None:
        wrong = {k: v for k, v in modelled.items() if k in ("free cysteine", "bridged cysteine", "serine (HG on another residue)") and v[0] != v[1]}
        r5.add("HG-suppressed-iff-bonded", not wrong, "add_hydrogens on model residues: the thiol hydrogen is left out for the bridged cysteine only (free cysteine and "
               "a serine get their HG; the other hydrogens are built in all three)" + (f" - NOT so (built, expected): {wrong}" if wrong else ""),
               f"pdb2pqr/biomolecule.py:{ah.lineno} (add_hydrogens)")
    hg = [s for s in iter_stmts(ah.body) if isinstance(s, ast.If) and "ss_bonded" in U(expand_temps(s.test, ah))]
    okhg = False
    if hg and modelled is None:
        t = U(expand_temps(hg[0].test, ah))  # (a test hoisted into a local reads as the test itself)
        okhg = "isinstance(residue, aa.CYS)" in t and "residue.ss_bonded" in t and "atomname == 'HG'" in t \
            and isinstance(hg[0].body[-1], ast.Continue) and " or " not in t
    if modelled is None:
        r5.add("HG-suppressed-iff-bonded", okhg, f"add_hydrogens skips a hydrogen under {U(hg[0].test) if hg else '<no test>'}",
               f"pdb2pqr/biomolecule.py:{hg[0].lineno if hg else ah.lineno} (add_hydrogens)")
    t = Tables(prog.root)
    model = Model(prog, t)
    for label, ss, patches, hgp in (("flag-only", True, [], False), ("patch-only", False, ["CYX"], False),
                                    ("free-with-HG", False, [], True), ("flag+patch", True, ["CYX"], False)):
        res = model.residue("CYS")
        model.peptide_patch(res)
        for p in patches:
            model.apply_patch(p, res)
        model.add_all_hydrogens(res)
        res["ss_bonded"] = ss
        if not hgp:
            res["map"].pop("HG", None)
        name = model.set_state(res)
        want = "CYS" if label == "free-with-HG" else "CYX"
        r5.add(f"CYS.set_state|{label}", name == want, f"ss_bonded={ss}, patches={patches}, HG present={hgp} -> {name!r} (expected {want!r})",
               "pdb2pqr/aa.py (CYS.set_state)")
    reads = []
    for key, f in prog.funcs.items():
        for n in walk_no_defs(f.node):
            if isinstance(n, ast.Attribute) and n.attr == "ss_bonded_partner" and isinstance(n.ctx, ast.Load):
                reads.append((f, n))
    for f, n in reads:
        cmpn = parent(n)
        ok = isinstance(cmpn, ast.Compare) and len(cmpn.ops) == 1 and isinstance(cmpn.ops[0], (ast.Eq, ast.Is)) and isinstance(cmpn.comparators[0], ast.Name)
        r5.add(f"exemption|{f.key}:{U(cmpn)[:40]}", ok, f"clash exemption compares {U(cmpn)}",
               f"pdb2pqr/{f.module.rel}:{n.lineno} ({f.qual})")

    # ------------------------------------------------------------------ R6
    _shared(prog, rep)
    r6 = rep.rule("R6", "CYX and CYM patches remove exactly the thiol hydrogen", floor=2)
    for p in ("CYX", "CYM"):
        P = t.patches.get(p)
        if P is None:
            r6.bad(f"patch|{p}", "patch not defined in PATCHES.xml")
            continue
        r6.add(f"patch|{p}", P.remove == ["HG"] and not P.atoms and P.applyto == "CYS",
               f"{p}: applyto={P.applyto}, remove={P.remove}, adds={list(P.atoms)}", "pdb2pqr/dat/PATCHES.xml")


def _shared(prog, rep):
    from . import shared
    shared.rule_patch_isolation(prog, rep, "R7")


def _stmt(node):
    while node is not None and not isinstance(node, ast.stmt):
        node = parent(node)
    return node
