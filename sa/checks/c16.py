"""C16 -- ligand charges conserve formal charge and stay on the ligand."""
from __future__ import annotations

import ast

from ..core import AnalysisError, U, calls_in, guards_of, iter_stmts, parent, try_fold, walk_no_defs
from ..guards import Interp, Sym


def check(prog, rep):
    rep.explanation = (
        "pairing analysis of mol2.parse_bonds (symmetric adjacency), structural conservation analysis of "
        "peoe.equilibrate (injection/scale pairing, read-then-write phases, antisymmetry of the transfer term under "
        "swapping the two atoms decided over the three orderings of their electronegativities), constant scan of the "
        "radius tables and lookup order, opaque-use analysis of atom names in the charge slice, guard analysis of the "
        "ligand transfer block"
    )
    rep.not_decided += ["the value of the charges", "permutation invariance beyond R1/R2/R4 (floating-point summation order)",
                        "supported-type coverage of arbitrary MOL2 files", "MOL2 files whose atom ids are not 1..N in file order"]
    # model molecules and radius tables first: where they can be evaluated, the shape-based obligations about the same code are skipped
    n_rules, n_def = len(rep.rules), len(rep.deferred)
    rep.guarded(rule_model_molecules, prog, rep)
    model_ok = len(rep.rules) > n_rules and len(rep.deferred) == n_def
    if len(rep.deferred) > n_def:
        rep.deferred.pop()
    rep.guarded(rule_polymer_atoms_are_ATOM, prog, rep)
    # ------------------------------------------------------------------ R1
    r1 = rep.rule("R1", "every bond is entered symmetrically on both atoms", floor=3)
    pb = prog.func("ligand/mol2.py", "Mol2Molecule.parse_bonds").node
    w = f"pdb2pqr/ligand/mol2.py:{pb.lineno} (Mol2Molecule.parse_bonds)"
    apps = []
    blocks = set()
    for c in calls_in(pb):
        if isinstance(c.func, ast.Attribute) and c.func.attr == "append" and isinstance(c.func.value, ast.Attribute) \
                and U(c.func.value.value) in ("atom1", "atom2"):
            apps.append((U(c.func.value.value), c.func.value.attr, U(c.args[0])))
            blocks.add(id(parent(_stmt(c))))
    swap = {"atom1": "atom2", "atom2": "atom1", "atom_name1": "atom_name2", "atom_name2": "atom_name1"}
    swapped = {(swap[a], attr, swap.get(v, v)) for a, attr, v in apps}
    r1.add("symmetric-appends", set(apps) == swapped and len(apps) >= 4 and len(blocks) == 1,
           f"appends: {sorted(apps)}; the swap atom1<->atom2 {'maps the set onto itself' if set(apps) == swapped else 'does NOT map the set onto itself'}; "
           f"all in one block: {len(blocks) == 1}", w)
    fields = {attr for _, attr, _ in apps}
    r1.add("adjacency-fields", {"bonds", "bonded_atoms"} <= fields, f"fields maintained per bond: {sorted(fields)}", w)
    names_prop = prog.func("ligand/mol2.py", "Mol2Atom.bonded_atom_names").node if prog.has_func("ligand/mol2.py", "Mol2Atom.bonded_atom_names") else None
    if names_prop is not None:
        r1.ok("names-derived", "bonded_atom_names is derived from bonded_atoms", w)
    skips = [s for s in iter_stmts(pb.body) if isinstance(s, ast.Continue)]
    okskip = all(any("not line" in U(tst) for tst, p in guards_of(s) if p) for s in skips)
    r1.add("no-bond-skipped", okskip, f"bond lines skipped only when blank ({len(skips)} continue statement(s))", w)

    # ------------------------------------------------------------------ R2 (shape argument; the fallback for when the model molecules of R8 cannot
    # be evaluated: there the charge sums before and after equilibration are compared directly)
    def peoe_shape_argument():
        r2 = rep.rule("R2", "equilibration only redistributes charge: injection/scale pairing, read-then-write, antisymmetric transfer", floor=5)
        eq = prog.func("ligand/peoe.py", "equilibrate").node
        we = f"pdb2pqr/ligand/peoe.py:{eq.lineno} (equilibrate)"
        src = U(eq)
        init = [s for s in iter_stmts(eq.body) if isinstance(s, ast.Assign) and U(s.targets[0]).endswith(".equil_formal_charge") and "charge" in U(s.value)]
        final = [s for s in eq.body if isinstance(s, ast.For) and any(isinstance(x, ast.Assign) and U(x.targets[0]).endswith(".charge") and "*" in U(x.value) for x in s.body)]
        ok_scale = False
        if init and final:
            iv = U(init[0].value)
            fv = U([x for x in final[0].body if isinstance(x, ast.Assign)][0].value)
            scale_param = next((a.arg for a in eq.args.args if a.arg in iv and a.arg in fv and a.arg != "atoms"), None)
            ok_scale = scale_param is not None and (f"(1.0 / {scale_param})" in iv or f"/ {scale_param}" in iv) and \
                fv.replace(" ", "") in (f"{scale_param}*atom.charge", f"atom.charge*{scale_param}")
            r2.add("scale-pairing", ok_scale, f"injection {iv!r} and final scaling {fv!r} use the same factor {scale_param!r}", we)
        else:
            r2.bad("scale-pairing", "initial division / final multiplication by the scaling factor not found", we)
        cyc = [s for s in eq.body if isinstance(s, ast.For) and isinstance(s.iter, ast.Call) and U(s.iter.func) == "range"]
        if not cyc:
            r2.bad("cycle-share", "cycle loop not found", we)
            return
        cyc = cyc[0]
        ncy = U(cyc.iter.args[0]) if len(cyc.iter.args) == 1 else None
        share = [n for n in ast.walk(cyc) if isinstance(n, ast.BinOp) and "equil_formal_charge" in U(n) and isinstance(n.op, ast.Mult)]
        ok_share = bool(share) and ncy is not None and any(U(s_).replace(" ", "") in (f"(1.0/{ncy})*atom.equil_formal_charge", f"1.0/{ncy}*atom.equil_formal_charge",
                                                                                        f"atom.equil_formal_charge/{ncy}", f"(1/{ncy})*atom.equil_formal_charge") for s_ in share)
        r2.add("cycle-share", ok_share, f"the loop runs range({ncy}) and each cycle injects {[U(s_) for s_ in share][:1]}: the shares add up to the "
               "whole scaled formal charge", we)
        # read phase / write phase
        inner = [s for s in cyc.body if isinstance(s, ast.For)]
        ok_phase = False
        if len(inner) >= 2:
            first_stores = {U(x.targets[0] if isinstance(x, ast.Assign) else x.target) for x in iter_stmts(inner[0].body) if isinstance(x, (ast.Assign, ast.AugAssign))
                            and isinstance(x.targets[0] if isinstance(x, ast.Assign) else x.target, ast.Attribute)}
            second_stores = {U(x.targets[0] if isinstance(x, ast.Assign) else x.target) for x in iter_stmts(inner[1].body) if isinstance(x, (ast.Assign, ast.AugAssign))}
            ok_phase = not any(s_.endswith(".charge") for s_ in first_stores) and any(s_.endswith(".charge") for s_ in second_stores) \
                and all(U(lp.iter) == "atoms" for lp in inner[:2])
            r2.add("read-then-write", ok_phase, f"first pass over all atoms stores {sorted(first_stores)} (no charge), second pass stores {sorted(second_stores)}", we)
        else:
            r2.bad("read-then-write", "the cycle does not consist of a read pass followed by a write pass", we)
        # antisymmetry of the transfer term
        pair = [n for n in ast.walk(inner[0]) if isinstance(n, ast.For) and "bonded_atoms" in U(n.iter)] if inner else []
        if not pair:
            r2.bad("antisymmetric-transfer", "loop over bonded atoms not found", we)
        else:
            pl = pair[0]
            a1 = U(pl.iter).split(".")[0]
            a2 = U(pl.target)
            diff = [s for s in pl.body if isinstance(s, ast.Assign) and U(s.targets[0]) == "chi_diff"]
            sel = [s for s in pl.body if isinstance(s, ast.If) and any("chi_norm" in U(x) for x in s.body)]
            ok = bool(diff) and bool(sel) and U(diff[0].value) in ("chi2 - chi1",)
            table = {}
            if ok:
                for order in ("lt", "gt"):
                    def hook(interp, call):
                        if U(call.func) == "electronegativity":
                            return ("norm-of", U(call.args[1]).split(".")[0])
                        raise AnalysisError(f"unsupported call {U(call.func)}")
                    it = Interp({"chi1": Sym("chi1"), "chi2": Sym("chi2"), "__order__chi1_chi2": order}, call_hook=hook)
                    it.run([sel[0]])
                    table[order] = it.env.get("chi_norm")
                # under the swap, ordering lt <-> gt and atom roles a1 <-> a2: the physical atom chosen must be the same
                phys = {}
                for order in ("lt", "gt"):
                    phys[order] = table[order][1]
                swapped_ok = {a1: a2, a2: a1}.get(phys["gt"]) == phys["lt"]
                ok = swapped_ok
            acc = [s for s in pl.body if isinstance(s, ast.AugAssign) and U(s.target).endswith(".delta_charge")]
            from ..core import expand_temps
            ok = ok and bool(acc) and any(t_ in x_ for t_ in ("chi_diff / chi_norm", "(chi2 - chi1) / chi_norm")
                                          for x_ in (U(acc[0].value), U(expand_temps(acc[0].value, eq))))
            per_atom = [n.id for n in ast.walk(acc[0].value) if isinstance(n, ast.Name) and n.id in (a1, a2)] if acc else ["?"]
            ok = ok and not per_atom
            r2.add("antisymmetric-transfer", ok,
                   f"transfer = {U(acc[0].value) if acc else '?'} with chi_diff = {U(diff[0].value) if diff else '?'}; normalisation chosen: {table}; "
                   "swapping the two atoms negates chi_diff and selects the same physical atom's normaliser, and the damping factor is "
                   "atom independent" if ok else f"the transfer term is not antisymmetric under swapping the atoms: {table}", we)
        # within the cycle the running charge changes only by '+= delta (+ share)': anything else (clamping, rescaling) loses charge
        cyc_stores = [x for x in iter_stmts(cyc.body) if isinstance(x, (ast.Assign, ast.AugAssign))
                      and U(x.targets[0] if isinstance(x, ast.Assign) else x.target).endswith(".charge")]
        bad_st = []
        for x in cyc_stores:
            if isinstance(x, ast.AugAssign) and isinstance(x.op, ast.Add):
                v = U(x.value).replace(" ", "")
                terms = {"atom.delta_charge", f"atom.delta_charge+1.0/{ncy}*atom.equil_formal_charge", f"atom.delta_charge+(1.0/{ncy})*atom.equil_formal_charge"}
                if v in terms:
                    continue
            bad_st.append(U(x)[:60])
        r2.add("cycle-updates", bool(cyc_stores) and not bad_st,
               f"stores to the running charge inside the cycle: {[U(x)[:40] for x in cyc_stores]}" + (f"; not a pure transfer/injection: {bad_st}" if bad_st else
               " - pure additions of the antisymmetric transfer and the per-cycle share"), we)
        # ... and after the cycles only the uniform scaling touches it
        post = [x for st_ in eq.body[eq.body.index(cyc) + 1:] for x in iter_stmts([st_]) if isinstance(x, (ast.Assign, ast.AugAssign))
                and U(x.targets[0] if isinstance(x, ast.Assign) else x.target).endswith(".charge")]
        r2.add("post-cycle-updates", len(post) == 1, f"stores to the charge after the cycles: {[U(x)[:40] for x in post]} (only the uniform scaling)", we)
        r2.add("initial-reset", any(isinstance(s, ast.Assign) and U(s.targets[0]) == "atom.charge" and U(s.value) in ("0", "0.0") for s in iter_stmts(eq.body)),
               "running charges start from zero after the formal charge has been saved", we)
        ac = prog.func("ligand/mol2.py", "Mol2Molecule.assign_charges").node
        okac = "atom.charge = atom.formal_charge" in U(ac) and "peoe.equilibrate(self.atoms.values())" in U(ac)
        r2.add("all-atoms-equilibrated", okac, "assign_charges seeds every atom with its formal charge and equilibrates the whole molecule",
               f"pdb2pqr/ligand/mol2.py:{ac.lineno} (assign_charges)")


    try:
        sums = peoe_conservation_on_models(prog)
    except AnalysisError:
        sums = None
    if sums is None:
        peoe_shape_argument()
    else:
        r2 = rep.rule("R2", "equilibration only redistributes charge: on model molecules the charges afterwards add up to the formal charges", floor=5)
        for label, before, after in sums:
            ok = isinstance(after, float) and abs(after - before) < 1e-9
            r2.add(f"conserved|{label}", ok, f"sum of formal charges {before:g}, sum after equilibration {after if not isinstance(after, float) else round(after, 12)}"
                   + ("" if ok else " - charge is created or lost"), "pdb2pqr/ligand/peoe.py (equilibrate)")
    # ------------------------------------------------------------------ R3
    r3 = rep.rule("R3", "every ligand radius is a positive table value; lookup by Sybyl type then element, primary then secondary", floor=3)
    consts = prog.module_constants("ligand/__init__.py")
    radii = consts.get("RADII")
    if not isinstance(radii, dict):
        raise AnalysisError("ligand.RADII does not fold to a constant dictionary")
    for tname, tab in radii.items():
        bad = {k: v for k, v in tab.items() if not (isinstance(v, (int, float)) and v > 0)}
        r3.add(f"positive|{tname}", not bad, f"RADII[{tname!r}]: {len(tab)} entries, non-positive: {bad or 'none'}", "pdb2pqr/ligand/__init__.py")
    ar = prog.func("ligand/mol2.py", "Mol2Atom.assign_radius").node
    wr = f"pdb2pqr/ligand/mol2.py:{ar.lineno} (Mol2Atom.assign_radius)"
    loops = [n for n in ast.walk(ar) if isinstance(n, ast.For)]
    order_ok = len(loops) == 2 and U(loops[0].iter) == "[primary_dict, secondary_dict]" and U(loops[1].iter) == "[self.type, self.element]"
    if not model_ok:
        r3.add("lookup-order", order_ok, f"lookup loops: {[U(lp.iter) for lp in loops]}", wr)
    raises = [s for s in iter_stmts(ar.body) if isinstance(s, ast.Raise)]
    store = [s for s in iter_stmts(ar.body) if isinstance(s, ast.Assign) and U(s.targets[0]) == "self.radius"]
    okr = bool(raises) and len(store) == 1 and U(store[0].value) == "radius" and any("radius is not None" in U(tst) and p for tst, p in guards_of(store[0]))
    if not model_ok:
        r3.add("miss-raises", okr, "a radius is stored only when found; otherwise the lookup raises", wr)
    ap = prog.func("ligand/mol2.py", "Mol2Molecule.assign_parameters").node
    defaults = [U(d) for d in ap.args.defaults]
    r3.add("documented-tables", defaults == ["RADII['zap9']", "RADII['bondi']"], f"default tables: {defaults}", f"pdb2pqr/ligand/mol2.py:{ap.lineno} (assign_parameters)")
    arr = prog.func("ligand/mol2.py", "Mol2Molecule.assign_radii").node
    r3.add("all-atoms-get-radius", "for atom in self.atoms.values()" in U(arr) and not any(isinstance(s, (ast.If, ast.Continue)) for s in iter_stmts(arr.body)),
           "assign_radii visits every atom unconditionally", f"pdb2pqr/ligand/mol2.py:{arr.lineno} (assign_radii)")

    # ------------------------------------------------------------------ R4
    r4 = rep.rule("R4", "atom names are opaque keys in the charge computation", floor=1)
    slice_funcs = [f for k, f in prog.funcs.items() if f.module.rel == "ligand/peoe.py"]
    for q in ("Mol2Atom.formal_charge", "Mol2Atom.bond_order", "Mol2Molecule.assign_charges", "Mol2Atom.bonded_atom_names",
              "Mol2Atom.num_bonded_heavy", "Mol2Atom.num_bonded_hydrogen", "Mol2Atom.element"):
        if prog.has_func("ligand/mol2.py", q):
            slice_funcs.append(prog.func("ligand/mol2.py", q))
    n_uses = 0
    for f in slice_funcs:
        for n in walk_no_defs(f.node):
            if isinstance(n, ast.Attribute) and n.attr in ("name", "bonded_atom_names") and isinstance(n.ctx, ast.Load):
                n_uses += 1
                p = parent(n)
                ok = False
                how = type(p).__name__
                if isinstance(p, ast.Compare) and all(isinstance(o, (ast.Eq, ast.NotEq, ast.In, ast.NotIn)) for o in p.ops):
                    ok, how = True, "equality/membership test"
                elif isinstance(p, ast.FormattedValue):
                    ok, how = True, "message text"
                elif isinstance(p, ast.Subscript) and p.slice is n:
                    ok, how = True, "dictionary key"
                elif isinstance(p, ast.Call) and isinstance(p.func, ast.Attribute) and p.func.attr in ("append", "index", "count") and n in p.args:
                    ok, how = True, f"list.{p.func.attr} (identity by equality)"
                elif isinstance(p, (ast.ListComp, ast.comprehension)) or isinstance(p, ast.Return):
                    ok, how = True, "collected unchanged"
                r4.add(f"name-use|{f.key}:{U(_stmt(n))[:40]}", ok, f"atom name used as {how}", f"pdb2pqr/{f.module.rel}:{n.lineno} ({f.qual})")
        for c in calls_in(f.node):
            if U(c.func) in ("sorted", "min", "max") or (isinstance(c.func, ast.Attribute) and c.func.attr == "sort"):
                if any("name" in U(a) for a in c.args) or any("name" in U(k.value) for k in c.keywords):
                    r4.bad(f"name-order|{f.key}:{U(c)[:40]}", "atoms are ordered by name: the result depends on naming", f"pdb2pqr/{f.module.rel}:{c.lineno} ({f.qual})")
    if n_uses == 0:
        r4.ok("no-name-use", "the charge slice never reads an atom name")

    # 'first of the equivalent atoms' rules may only choose among atoms equivalent to the one being corrected
    fcn = prog.func("ligand/mol2.py", "Mol2Atom.formal_charge").node
    idx_calls = [c for c in calls_in(fcn) if isinstance(c.func, ast.Attribute) and c.func.attr == "index" and U(c.args[0]) == "self.name"]
    for c in ([] if model_ok else idx_calls):  # decided on the phosphate models (three bond listings) when they can be evaluated
        lst = U(c.func.value)
        branch = next((tst for tst, p in guards_of(c) if p and "self.type" in U(tst)), None)
        fill = [x for x in iter_stmts(fcn.body) if isinstance(x, ast.Expr) and isinstance(x.value, ast.Call) and U(x.value.func) == f"{lst}.append"]
        from ..core import canon_guards
        conds = [tst for x in fill for tst, p in canon_guards(x) if p and "atom." in tst]
        # the branch fixes element and bond order of self; the candidate filter must fix the same two
        want_bo = None
        if branch is not None:
            import re as _re
            m = _re.search(r"bond_order == (\d+)", U(branch))
            want_bo = m.group(1) if m else None
        ok = bool(fill) and want_bo is not None and any(f"atom.bond_order == {want_bo}" in x for x in conds) and any("atom.type[0] == 'O'" in x or "atom.type == self.type" in x for x in conds)
        r4.add(f"first-of-equivalents|{lst}", ok,
               f"the atom corrected here has bond order {want_bo}; candidates among which 'the first' is chosen are filtered by {conds}: "
               + ("they are the symmetry-equivalent oxygens, so atom order can only exchange values among them" if ok else
                  "NOT restricted to atoms equivalent to the corrected one - which atom is first, and hence the formal charge, depends on the listing order"),
               f"pdb2pqr/ligand/mol2.py:{c.lineno} (Mol2Atom.formal_charge)")
    # ------------------------------------------------------------------ R5
    from .shared import rule_ligand_block_model
    n_rules, n_def = len(rep.rules), len(rep.deferred)
    rep.guarded(rule_ligand_block_model, prog, rep, "R6")
    block_modelled = len(rep.rules) > n_rules and len(rep.deferred) == n_def
    r5 = rep.rule("R5", "ligand parameters are transferred to the ligand's atoms only, once", floor=2)
    nt = prog.func("main.py", "non_trivial").node
    stores = [s for s in iter_stmts(nt.body) if isinstance(s, ast.Assign) and isinstance(s.targets[0], ast.Attribute) and s.targets[0].attr in ("ffcharge", "radius")
              and any("args.ligand" in U(tst) for tst, _p in guards_of(s))]
    if not stores:
        raise AnalysisError("non_trivial: ligand transfer stores not found")
    wn = f"pdb2pqr/main.py:{stores[0].lineno} (non_trivial)"
    from ..core import eval_formula, formula_atoms, reach_formula
    res_loop = [n for n in ast.walk(nt) if isinstance(n, ast.For) and U(n.iter) == "biomolecule.residues" and stores[0] in list(ast.walk(n))]
    f = reach_formula(stores[0], res_loop[0]) if res_loop else True
    atoms = formula_atoms(f)
    water_excl = [a for a in atoms if "aa.WAT" in a]
    if not block_modelled:  # (decided by R6 on the model complex: peptide and water atoms with ligand-like names keep their values)
        r5.add("transfer|recognised-residues-excluded", bool(water_excl) and any("pdb_atom.type == 'ATOM'" in a for a in atoms),
               f"tests on the way to the stores: {sorted(atoms)}; polymer atoms (type ATOM) and waters must be excluded", wn)
    ident = [a for a in atoms if ("residue.name" in a or "res_name" in a or "res_seq" in a or "all(" in a) and "aa.WAT" not in a]
    r5.add("transfer|hetero-by-name", bool(ident),
           "the transfer is keyed by atom name alone for every non-water hetero residue: another hetero group whose atom names "
           "occur in the MOL2 file receives ligand parameters" if not ident else f"transfer restricted by {ident}", wn)
    if not block_modelled:  # (decided by R6: the ligand atoms carry exactly the MOL2 values of the atom of their name)
        src_vals = sorted(U(s.value) for s in stores)
        r5.add("transfer|values", src_vals == ["mol2_atom.charge", "mol2_atom.radius"], f"stored values: {src_vals}", wn)
        lk = [s for s in iter_stmts(nt.body) if isinstance(s, ast.Assign) and U(s.targets[0]) == "mol2_atom"]
        r5.add("transfer|lookup", bool(lk) and U(lk[0].value) == "ligand.atoms[pdb_atom.name]", f"MOL2 atom looked up as {U(lk[0].value) if lk else '?'}", wn)
    gates = [(U(tst), p) for tst, p in guards_of(stores[0]) if "args.ligand" in U(tst)]
    r5.add("transfer|gated", gates == [("args.ligand is not None", True)], f"block runs under {gates}", wn)
    from .c03 import _removed_hydrogens_are_rebuilt
    r7 = rep.rule("R7", "the ligand's own atoms reach the transfer: hydrogens are stripped only from residues that get them rebuilt", floor=1)
    rep.guarded(_removed_hydrogens_are_rebuilt, prog, r7)


def _stmt(n):
    while n is not None and not isinstance(n, ast.stmt):
        n = parent(n)
    return n


def rule_model_molecules(prog, rep):
    """Mol2Molecule.assign_charges (formal charges + PEOE) and Mol2Atom.assign_radius are evaluated on model molecules built
    as object models: neutral, carboxylate and phosphate groups, bonds listed in two different orders."""
    import itertools
    from ..guards import Flow, Obj
    from ..objinterp import ObjRunner
    r = rep.rule("R8", "model molecules: equilibrated charges sum to the formal charge; the phosphate rule does not depend on the listing order", floor=5)
    where = "pdb2pqr/ligand/mol2.py (Mol2Atom.formal_charge, Mol2Molecule.assign_charges) / pdb2pqr/ligand/peoe.py (equilibrate)"

    def molecule(atoms, bonds, order=None):
        """atoms: [(name, type)], bonds: [(a, b, type)] -> Mol2Molecule model; `order` permutes the bond listing."""
        A = {}
        for n, t in atoms:
            A[n] = Obj({"__class__": "Mol2Atom", "name": n, "type": t, "bonds": [], "bonded_atoms": [], "charge": None, "radius": None, "poly_terms": None,
                        "chi": None, "delta_charge": None, "equil_formal_charge": None, "serial": len(A) + 1, "res_name": "LIG", "x": 0.0, "y": 0.0, "z": 0.0})
        blist = list(bonds) if order is None else [bonds[i] for i in order]
        for k, (a, b, t) in enumerate(blist):
            bond = Obj({"__class__": "Mol2Bond", "atoms": [A[a], A[b]], "type": t, "bond_id": k + 1})
            for x, y in ((a, b), (b, a)):
                A[x]["bonds"].append(bond)
                A[x]["bonded_atoms"].append(A[y])
        return Obj({"__class__": "Mol2Molecule", "atoms": dict(A), "bonds": [], "rings": [], "torsions": [], "serial": 1, "name": "model"}), A

    ethanol = ([("C1", "C.3"), ("C2", "C.3"), ("O1", "O.3"), ("H1", "H"), ("H2", "H"), ("H3", "H"), ("H4", "H"), ("H5", "H"), ("H6", "H")],
               [("C1", "C2", "single"), ("C2", "O1", "single"), ("C1", "H1", "single"), ("C1", "H2", "single"), ("C1", "H3", "single"),
                ("C2", "H4", "single"), ("C2", "H5", "single"), ("O1", "H6", "single")], 0.0)
    acetate = ([("C1", "C.3"), ("C2", "C.2"), ("O1", "O.co2"), ("O2", "O.co2"), ("H1", "H"), ("H2", "H"), ("H3", "H")],
               [("C1", "C2", "single"), ("C2", "O1", "aromatic"), ("C2", "O2", "aromatic"), ("C1", "H1", "single"), ("C1", "H2", "single"), ("C1", "H3", "single")], -1.0)
    phosphate = ([("C1", "C.3"), ("O1", "O.3"), ("P1", "P.3"), ("O2", "O.2"), ("O3", "O.3"), ("O4", "O.3"), ("H1", "H"), ("H2", "H"), ("H3", "H")],
                 [("C1", "O1", "single"), ("O1", "P1", "single"), ("P1", "O2", "double"), ("P1", "O3", "single"), ("P1", "O4", "single"),
                  ("C1", "H1", "single"), ("C1", "H2", "single"), ("C1", "H3", "single")], -1.0)
    def hydrogens(heavy, bonds, on):
        hs = [(f"H{k + 1}", "H") for k in range(len(on))]
        return heavy + hs, bonds + [(c, f"H{k + 1}", "single") for k, c in enumerate(on)]
    # aromatic nitrogen in a ring and at a ring fusion (three aromatic bonds), fused aromatic carbons, sulfonyl sulfur, nitrile, ammonium, amide
    pyridine = hydrogens([("N1", "N.ar")] + [(f"C{k}", "C.ar") for k in range(2, 7)],
                         [("N1", "C2", "aromatic"), ("C2", "C3", "aromatic"), ("C3", "C4", "aromatic"), ("C4", "C5", "aromatic"), ("C5", "C6", "aromatic"), ("C6", "N1", "aromatic")],
                         ["C2", "C3", "C4", "C5", "C6"]) + (0.0,)
    indolizine = hydrogens([("C1", "C.ar"), ("C2", "C.ar"), ("C3", "C.ar"), ("N4", "N.ar"), ("C5", "C.ar"), ("C6", "C.ar"), ("C7", "C.ar"), ("C8", "C.ar"), ("C9", "C.ar")],
                           [("C1", "C2", "aromatic"), ("C2", "C3", "aromatic"), ("C3", "N4", "aromatic"), ("N4", "C9", "aromatic"), ("C9", "C1", "aromatic"),
                            ("N4", "C5", "aromatic"), ("C5", "C6", "aromatic"), ("C6", "C7", "aromatic"), ("C7", "C8", "aromatic"), ("C8", "C9", "aromatic")],
                           ["C1", "C2", "C3", "C5", "C6", "C7", "C8"]) + (0.0,)
    sulfone = hydrogens([("C1", "C.3"), ("S1", "S.o2"), ("O1", "O.2"), ("O2", "O.2"), ("C2", "C.3")],
                        [("C1", "S1", "single"), ("S1", "O1", "double"), ("S1", "O2", "double"), ("S1", "C2", "single")], ["C1", "C1", "C1", "C2", "C2", "C2"]) + (0.0,)
    nitrile = hydrogens([("C1", "C.3"), ("C2", "C.1"), ("N1", "N.1")], [("C1", "C2", "single"), ("C2", "N1", "triple")], ["C1", "C1", "C1"]) + (0.0,)
    ammonium = hydrogens([("C1", "C.3"), ("N1", "N.4")], [("C1", "N1", "single")], ["C1", "C1", "C1", "N1", "N1", "N1"]) + (1.0,)
    amide = hydrogens([("C1", "C.3"), ("C2", "C.2"), ("O1", "O.2"), ("N1", "N.am")], [("C1", "C2", "single"), ("C2", "O1", "double"), ("C2", "N1", "amide" if False else "single")],
                      ["C1", "C1", "C1", "N1", "N1"]) + (0.0,)
    thioether = hydrogens([("C1", "C.3"), ("S1", "S.3"), ("C2", "C.3")], [("C1", "S1", "single"), ("S1", "C2", "single")], ["C1", "C1", "C1", "C2", "C2", "C2"]) + (0.0,)
    halides = hydrogens([("C1", "C.3"), ("F1", "F"), ("Cl1", "Cl"), ("Br1", "Br")], [("C1", "F1", "single"), ("C1", "Cl1", "single"), ("C1", "Br1", "single")], ["C1"]) + (0.0,)
    cases = [("ethanol", ethanol, None), ("acetate", acetate, None), ("methyl phosphate", phosphate, None),
             ("pyridine", pyridine, None), ("indolizine (aromatic nitrogen at a ring fusion)", indolizine, None), ("dimethyl sulfone", sulfone, None),
             ("acetonitrile", nitrile, None), ("methylammonium", ammonium, None), ("acetamide", amide, None), ("dimethyl sulfide", thioether, None),
             ("bromochlorofluoromethane", halides, None),
             ("methyl phosphate, P=O listed first", phosphate, [2, 0, 1, 3, 4, 5, 6, 7]), ("methyl phosphate, bonds reversed", phosphate, [7, 6, 5, 4, 3, 2, 1, 0])]
    run = None
    for label, (atoms, bonds, total), order in cases:
        mol, A = molecule(atoms, bonds, order)
        run = ObjRunner(prog, "ligand/mol2.py")
        try:
            formal = {n: run.attrs(None, a, "formal_charge", None) for n, a in A.items()}
            run.call(mol, "assign_charges")
        except Flow as fl:
            r.bad(f"molecule|{label}", f"assign_charges stops with {fl.value} on {label}", where)
            continue
        fsum = sum(formal.values())
        qsum = sum(a["charge"] for a in A.values())
        neg = sorted(n for n, q in formal.items() if q == -1)
        okf = abs(fsum - total) < 1e-9 and (label.startswith("methyl phosphate") is False or (len(neg) == 1 and neg[0] in ("O3", "O4")))
        okq = abs(qsum - fsum) < 1e-6
        r.add(f"molecule|{label}", okf and okq,
              f"{label}: formal charges sum to {fsum:+.3f} (expected {total:+.1f}" + (f", the charged oxygen is {neg}" if label.startswith("methyl phosphate") else "") +
              f"); after equilibration the charges sum to {qsum:+.6f}" + ("" if okf and okq else " -- charge is created or destroyed"), where)
    # radius lookup order and failure
    rr = rep.rule("R9", "model tables: a radius is taken by Sybyl type, then element, from the primary, then the secondary table; a miss raises", floor=4)
    wr = "pdb2pqr/ligand/mol2.py (Mol2Atom.assign_radius)"
    probes = [("type in primary", {"C.3": 1.1, "C": 1.2}, {"C.3": 2.1, "C": 2.2}, 1.1), ("element in primary", {"C": 1.2}, {"C.3": 2.1, "C": 2.2}, 1.2),
              ("type in secondary", {"O": 9.0}, {"C.3": 2.1, "C": 2.2}, 2.1), ("element in secondary", {"O": 9.0}, {"C": 2.2}, 2.2), ("nowhere", {"O": 9.0}, {"N": 9.0}, KeyError)]
    for label, prim, sec, want in probes:
        atom = Obj({"__class__": "Mol2Atom", "name": "C1", "type": "C.3", "radius": None})
        run = ObjRunner(prog, "ligand/mol2.py")
        try:
            run.call(atom, "assign_radius", prim, sec)
            got = atom["radius"]
        except Flow as fl:
            got = KeyError if str(fl.value).startswith("KeyError") else f"raises {fl.value}"
        rr.add(f"radius|{label}", got == want, f"{label}: radius {got} (expected {want})", wr)
    if run is not None:
        r.info["methods_interpreted"] = sorted(set(run.calls))


def rule_polymer_atoms_are_ATOM(prog, rep):
    """The ligand block tells polymer residues from hetero groups by the record type of their atoms.  The residue constructors and
    create_atom are evaluated on model records: whatever record type the input used, atoms of amino acids and nucleotides must come out
    as ATOM (and so never receive ligand parameters); atoms of the generic ligand residue as HETATM."""
    from ..guards import Flow, Obj
    from ..objinterp import ObjRunner
    r = rep.rule("R10", "residue constructors: polymer atoms are typed ATOM whatever the input record type (the ligand block relies on it); each atom name is held once", floor=8)
    nt = prog.func("main.py", "non_trivial").node
    relies = any(isinstance(n, ast.Compare) and ".type" in U(n.left) and U(n.comparators[0]) in ("'ATOM'", "'HETATM'") for n in ast.walk(nt))
    r.info["ligand_block_tests_record_type"] = relies
    if not relies:
        return  # the block separates polymer from hetero groups some other way: R5/R6 decide it on the model complex

    def record(cls, name, resname, k):
        return Obj({"__class__": cls, "serial": k, "name": name, "alt_loc": "", "res_name": resname, "chain_id": "A", "res_seq": 15, "ins_code": "",
                    "x": 1.0 * k, "y": 2.0, "z": 3.0, "occupancy": 1.0, "temp_factor": 0.0, "seg_id": "", "element": name[0], "charge": "", "mol2charge": None})

    cases = [("ALA", "aa.py", "ALA", ["N", "CA", "C", "O", "CB"], "ATOM"), ("GLY", "aa.py", "GLY", ["N", "CA", "C", "O"], "ATOM"),
             ("ADE", "na.py", "A", ["P", "O5'", "C5'", "N9"], "ATOM"), ("LIG", "aa.py", "LIG", ["C1", "O1"], "HETATM"),
             ("Residue", "residue.py", "ACT", ["C", "O", "OXT", "CH3"], None)]
    for cls, rel, resname, names, want in cases:
        if prog.classes_by_name.get(cls) is None:
            continue
        for rectype in ("ATOM", "HETATM"):
            recs = [record(rectype, n_, resname, k) for k, n_ in enumerate(names, start=1)]
            # a second alternate location of the first two atoms, better occupied than the first (the first listed one is kept: C07)
            for k, n_ in enumerate(names[:2]):
                alt = record(rectype, n_, resname, 50 + k)
                alt["alt_loc"], alt["occupancy"], alt["x"] = "B", 1.0, 77.0
                recs[k]["alt_loc"], recs[k]["occupancy"] = "A", 0.4
                recs.append(alt)
            ref = Obj({"__class__": "DefinitionResidue", "name": resname, "altnames": {}, "map": {n_: Obj({"__class__": "DefinitionAtom", "name": n_, "bonds": []}) for n_ in names}})

            def extra(runner, interp, call, args, kw):
                if isinstance(call.func, ast.Attribute) and call.func.attr == "record_type" and not args:
                    recv = interp.ev(call.func.value)
                    if isinstance(recv, dict) and recv.get("__class__") in ("ATOM", "HETATM"):
                        return recv["__class__"]
                return NotImplemented

            run = ObjRunner(prog, rel, extra_hook=extra)
            where = f"pdb2pqr/{rel} ({cls}.__init__ / create_atom)"
            try:
                if cls == "Residue":
                    res = run.new(cls, recs)
                else:
                    res = run.new(cls, recs, ref)
                    run.call(res, "create_atom", "HX", [0.0, 0.0, 0.0])
            except Flow as fl:
                r.bad(f"type|{cls}|input {rectype}", f"{cls}(...) stops with {fl.value} on model {rectype} records", where)
                continue
            types = sorted({a.get("type") for a in res["atoms"]})
            want_ = [want or rectype]
            r.add(f"type|{cls}|input {rectype}", types == want_, f"{cls} built from {rectype} records (+ one created atom): atom types {types}, expected {want_}",
                  where)
            got_names = [a.get("name") for a in res["atoms"] if a.get("name") != "HX"]
            first_kept = all(a.get("x") != 77.0 for a in res["atoms"])
            r.add(f"once|{cls}|input {rectype}", sorted(got_names) == sorted(names) and first_kept,
                  f"{cls} built from records with two alternate locations of {names[:2]}: atoms {got_names}" +
                  ("" if sorted(got_names) == sorted(names) else " - an atom is held twice, so it is parameterised and written twice") +
                  ("" if first_kept else " - a later alternate location replaced the first"), where)


def peoe_conservation_on_models(prog):
    """peoe.equilibrate evaluated (numerically, by the interpreter) on model molecules chosen so that every arm of the transfer runs: a pair, a
    chain, a branched and a cyclic skeleton, with electronegativity orderings both ways, neutral and charged, including a formal charge of three
    units on one atom (running charges then leave the range in which the electronegativity polynomial is trusted).  Equilibration may only
    move charge: the sum afterwards must equal the sum of the formal charges.  -> [(label, sum before, sum after)]"""
    from ..guards import Flow, Obj
    from ..objinterp import ObjRunner
    skeletons = {
        "pair": (["C.3", "O.3"], [(0, 1)]),
        "pair reversed": (["O.3", "C.3"], [(0, 1)]),
        "chain": (["N.4", "C.3", "O.co2"], [(0, 1), (1, 2)]),
        "branched": (["C.2", "O.co2", "O.co2", "C.3", "H"], [(0, 1), (0, 2), (0, 3), (3, 4)]),
        "ring": (["C.ar", "N.ar", "C.ar", "S.3"], [(0, 1), (1, 2), (2, 3), (3, 0)]),
        # atoms nothing is bonded to (the counter-ion of a salt listed in the same file, a lone ion): their charge has nowhere to go and must stay
        "pair and a free ion": (["C.3", "N.4", "Cl"], [(0, 1)]),
        "free ions only": (["Cl", "F"], []),
    }
    charges = {"pair": [(0.0, 0.0), (1.0, 0.0), (0.0, -1.0), (3.0, 0.0)], "pair reversed": [(0.0, 0.0), (-1.0, 0.0), (0.0, -3.0)],
               "chain": [(1.0, 0.0, -1.0), (1.0, 0.0, 0.0), (0.0, 0.0, -0.5)], "branched": [(0.0, -0.5, -0.5, 0.0, 0.0), (0.0, 0.0, 0.0, 0.0, 0.0)],
               "ring": [(0.0, 1.0, 0.0, 0.0), (0.0, 0.0, 0.0, -2.0)],
               "pair and a free ion": [(0.0, 1.0, -1.0), (0.0, 0.0, -1.0), (0.0, 1.0, 0.0)], "free ions only": [(-1.0, -1.0), (1.0, 0.0)]}
    out = []
    for name, (types, bonds) in skeletons.items():
        for formal in charges[name]:
            atoms = [Obj({"__class__": "Mol2Atom", "name": f"{t_.split('.')[0]}{k}", "type": t_, "charge": q, "formal_charge": q, "bonded_atoms": [], "poly_terms": None,
                          "delta_charge": 0.0, "equil_formal_charge": 0.0, "element": t_.split(".")[0]}) for k, (t_, q) in enumerate(zip(types, formal))]
            for i, j in bonds:
                atoms[i]["bonded_atoms"].append(atoms[j])
                atoms[j]["bonded_atoms"].append(atoms[i])
            run = ObjRunner(prog, "ligand/peoe.py")
            label = f"{name} {types} formal {list(formal)}"
            try:
                res = run.call_function("ligand/peoe.py", "equilibrate", atoms)
            except Flow as fl:
                out.append((label, sum(formal), f"stops with {fl.value}"))
                continue
            final = [a["charge"] for a in (res if isinstance(res, list) else atoms)]
            if not all(isinstance(x, (int, float)) for x in final):
                raise AnalysisError("equilibrate: charges are not numbers on the model molecule")
            out.append((label, sum(formal), sum(final)))
    return out
