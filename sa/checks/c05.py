"""C05 -- atoms added by pdb2pqr have template-consistent bonded geometry.

Decided statically: frame typing and lockstep pairing of every placement call; sanity of every
template and patch (bond symmetry, one parent per hydrogen at bonding distance, tetrahedral
angles, non-collinear anchors); rotation scans are closed; hydrogens ride with their parent
(the hydrogen part of the torsion move-set table, C04.R1).
"""
from __future__ import annotations

import ast
import itertools
import math

from ..callgraph import CallGraph
from ..cells import PSEUDO
from ..core import AnalysisError, U, calls_in, enclosing_loops, guards_of, iter_stmts, parent, try_fold, walk_no_defs
from ..tables import AMINO, NUCLEIC, Tables

# Reviewed pairing exceptions (function -> reason)
PAIRING_REVIEWED = {
    "hydrogens/optimize.py::Optimize.make_water_with_one_bond":
        "water: the existing neighbour is superposed on template H1 and the new atom taken from template H2 whatever their "
        "names; H1 and H2 are equivalent in the water template",
    "hydrogens/optimize.py::Optimize.make_atom_with_one_bond_lp":
        "lone pair: the template position is that of a hydrogen of the same tetrahedral centre (the_refname), chosen by name "
        "from the template because lone pairs have no template entry",
}


def frame_of(expr_txt, fn_src_defs):
    """'T' (template), 'S' (structure) or '?' for a coordinate expression."""
    if ".reference." in expr_txt or ".reference.map" in expr_txt:
        return "T"
    base = expr_txt.split(".")[0].split("[")[0]
    d = fn_src_defs.get(base)
    if d is not None and (".reference." in d or "reference.map" in d or d.startswith("conf.")):
        return "T"
    if expr_txt.endswith(".coords") or expr_txt in ("hcoords",):
        return "S"
    return "?"


def struct_key(var, defs, params):
    """Topology key under which a structure atom variable was obtained."""
    d = defs.get(var)
    if d is None:
        return f"{var}.name" if var in params or True else None
    if "get_atom(" in d:
        return d.split("get_atom(")[1].rsplit(")", 1)[0]
    return f"{var}.name"


def check(prog, rep):
    rep.explanation = (
        "frame typing {Structure, Template} and lockstep pairing of every quat.find_coordinates call; exhaustive sanity "
        "scan of all templates and patched templates; constant folding of rotate_tetrahedral scans; hydrogen part of the "
        "torsion move-set table"
    )
    rep.exhaustive = True
    rep.not_decided += ["numerical quality of the fit (C15)", "distortion already present in the input",
                        "clash-driven choices among alternative positions", "coincidence of atoms"]
    t = Tables(prog.root)
    g = CallGraph(prog)
    reach = g.reachable()

    # ------------------------------------------------------------------ R1 / R2
    r1 = rep.rule("R1", "placement calls superpose Template points onto Structure points and place a Template point", floor=6)
    r2 = rep.rule("R2", "structure and template lists are filled in lockstep from the same atom key; n equals the number of pairs", floor=6)
    decided = placement_models(prog, r1, r2)  # functions whose placement calls are decided on object models (any code shape)
    for key, f in sorted(prog.funcs.items()):
        if key in decided:
            continue
        for c in calls_in(f.node):
            if U(c.func) != "quat.find_coordinates":
                continue
            where = f"pdb2pqr/{f.module.rel}:{c.lineno} ({f.qual})"
            if key not in reach:
                r1.ok(f"site|{key}", "unreachable legacy code (excluded)", where)
                continue
            if len(c.args) != 4:
                raise AnalysisError(f"find_coordinates call with {len(c.args)} arguments in {key}")
            n = try_fold(c.args[0])
            defs = {}
            for s in iter_stmts(f.node.body):
                if isinstance(s, ast.Assign) and isinstance(s.targets[0], ast.Name):
                    v = U(s.value)
                    cur = defs.get(s.targets[0].id)
                    # several arms may bind the same atom variable (peptide_n / peptide_c / get_atom(key)): prefer the keyed one
                    if cur is None or ("get_atom(" in v and "get_atom(" not in cur):
                        defs[s.targets[0].id] = v
            params = [a.arg for a in f.node.args.args]

            def elements(argnode):
                """[(expr text, stmt)] elements of a list argument: literal or appends in the function."""
                name = U(argnode)
                out = []
                for s in iter_stmts(f.node.body):
                    if isinstance(s, ast.Assign) and U(s.targets[0]) == name and isinstance(s.value, ast.List) and s.value.elts \
                            and s.lineno < c.lineno:
                        out = [(U(e), s) for e in s.value.elts]
                    for cc in calls_in(s) if isinstance(s, ast.Expr) else []:
                        if U(cc.func) == f"{name}.append" and s.lineno < c.lineno and _same_scope(s, c):
                            out.append((U(cc.args[0]), s))
                return out

            S, T = elements(c.args[1]), elements(c.args[2])
            tp = U(c.args[3])
            tp_def = defs.get(tp, tp)
            fs = [frame_of(e, defs) for e, _ in S]
            ft = [frame_of(e, defs) for e, _ in T]
            f3 = "T" if (".reference." in tp_def or "reference.map" in tp_def or "atomref" in tp_def or tp_def.startswith("conf.")) else frame_of(tp_def, defs)
            if f3 != "T" and tp_def.endswith(".coords"):
                base = tp_def.split(".")[0]
                if ".reference." in defs.get(base, "") or "reference.map" in defs.get(base, ""):
                    f3 = "T"
            ok1 = bool(S) and bool(T) and all(x == "S" for x in fs) and all(x == "T" for x in ft) and f3 == "T"
            r1.add(f"site|{key}", ok1, f"find_coordinates({n}, {[e for e, _ in S]}:{fs}, {[e for e, _ in T]}:{ft}, {tp_def}:{f3}); required "
                   "(Structure..., Template..., Template)", where)
            # ---- lockstep
            problems = []
            if len(S) != len(T):
                problems.append(f"{len(S)} structure elements vs {len(T)} template elements")
            literal = all(isinstance(s_, ast.Assign) for _, s_ in S)
            if literal:
                if n != len(S):
                    problems.append(f"n={n} but {len(S)} pairs")
            else:
                # appended in a loop: same block, break at n, call guarded by len == n
                for (es, ss), (et, st_) in zip(S, T):
                    if parent(ss) is not parent(st_):
                        problems.append("structure and template appends are not in the same block")
                lp = enclosing_loops(S[0][1])
                brk = [b for b in iter_stmts(lp[0].body) if isinstance(b, ast.Break)] if lp else []
                okb = any(any(f"len({U(c.args[1])}) == {n}" in U(tst) and p for tst, p in guards_of(b)) for b in brk)
                okg = any((f"len({U(c.args[1])}) == {n}" in U(tst) and p) or (f"len({U(c.args[1])}) < {n}" in U(tst) and not p and okb)
                          for tst, p in guards_of(c))
                if not okb:
                    problems.append(f"collection loop does not stop at {n} pairs")
                if not okg:
                    problems.append(f"call is not guarded by len == {n}")
            for (es, _), (et, _) in zip(S, T):
                sv = es[: -len(".coords")] if es.endswith(".coords") else es
                sk = struct_key(sv, defs, params)
                tk = et.split("reference.map[")[1].split("]")[0] if "reference.map[" in et else "?"
                if sk != tk:
                    problems.append(f"structure atom {sv} (key {sk}) is paired with template entry {tk}")
            if problems and key in PAIRING_REVIEWED and all("is paired with" in p_ for p_ in problems):
                r2.ok(f"pairs|{key}", f"reviewed: {PAIRING_REVIEWED[key]} ({'; '.join(problems)})", where)
            else:
                r2.add(f"pairs|{key}", not problems, "; ".join(problems) or f"{len(S)} pair(s), keys agree, n={n}", where)

    # ------------------------------------------------------------------ R3
    r3 = rep.rule("R3", "every template and patched template has sane internal geometry", floor=100)
    refs = {}
    for name, ref in t.map.items():
        # references a polymer residue or water can receive; the *WAT artefacts produced by the terminal patches'
        # applyto regex are unreachable (no class applies terminal patches to waters) and excluded
        if name.endswith("WAT") and name != "WAT":
            continue
        refs[name] = ref
    r3.info["references"] = len(refs)
    hd_all, ang_all = [], []
    for name, ref in refs.items():
        atoms = {a: x for a, x in ref.atoms.items()}
        asym = [(a, b) for a, x in atoms.items() for b in x.bonds if b in atoms and a not in atoms[b].bonds]
        probs = []
        if asym:
            probs.append(f"asymmetric bonds {asym[:3]}")
        for a, x in atoms.items():
            if a.startswith("H"):
                par = [b for b in x.bonds if b in atoms]
                if len(par) != 1:
                    probs.append(f"hydrogen {a} has {len(par)} parents {par}")
                    continue
                d = math.dist(x.xyz, atoms[par[0]].xyz)
                hd_all.append(d)
                lo, hi = 0.90, 1.15  # the templates' own convention (S-H is drawn at 1.00 A)
                if not lo <= d <= hi:
                    probs.append(f"{a}-{par[0]} = {d:.3f} A outside [{lo}, {hi}]")
        for a, x in atoms.items():
            hs = [b for b in x.bonds if b.startswith("H") and b in atoms]
            hv = [b for b in x.bonds if not b.startswith("H") and b not in PSEUDO and b in atoms]
            if len(hs) == 3 and len(hv) == 1:
                for h1, h2 in itertools.combinations(hs, 2):
                    an = _angle(atoms[h1].xyz, x.xyz, atoms[h2].xyz)
                    ang_all.append(an)
                    if not 107.0 <= an <= 112.0:
                        probs.append(f"{h1}-{a}-{h2} = {an:.1f} deg outside [107, 112]")
        r3.add(f"template|{name}", not probs, "; ".join(probs[:4]) or "bonds symmetric, every hydrogen has one parent at bonding distance, "
               "tetrahedral H-X-H angles in range", "pdb2pqr/dat/*.xml")
    if hd_all:
        r3.info["H_parent_distance_range"] = [round(min(hd_all), 3), round(max(hd_all), 3)]
    if ang_all:
        r3.info["tetrahedral_angle_range"] = [round(min(ang_all), 1), round(max(ang_all), 1)]
    # anchors of 3-point placements are not collinear in the template
    gnb = prog.func("definitions.py", "DefinitionResidue.get_nearest_bonds") if prog.has_func("definitions.py", "DefinitionResidue.get_nearest_bonds") else None
    n_anchor = 0
    if gnb is not None:
        for name, ref in refs.items():
            if name not in AMINO + NUCLEIC + ["WAT"] and name not in t.patch_newnames:
                continue
            for a, x in ref.atoms.items():
                if not a.startswith("H"):
                    continue
                anchors = nearest_bonds(ref, a)[:3]
                if len(anchors) < 3:
                    continue
                n_anchor += 1
                p = [ref.atoms[k].xyz for k in anchors]
                ar = _tri_area(*p)
                if ar < 0.05:
                    r3.bad(f"anchors|{name}:{a}", f"the three nearest anchors {anchors} are (nearly) collinear in the template (area {ar:.3f} A^2): "
                           "the superposition is under-determined", "pdb2pqr/dat/*.xml")
        r3.info["three_point_anchor_sets"] = n_anchor

    # ------------------------------------------------------------------ R4
    r4 = rep.rule("R4", "constant-angle rotation scans return to their starting orientation (sum = 0 mod 360)", floor=6)
    n_scan = 0
    for key, f in sorted(prog.funcs.items()):
        if key not in reach:
            continue
        groups = {}
        for c in sorted(calls_in(f.node), key=lambda c: (c.lineno, c.col_offset)):
            if isinstance(c.func, ast.Attribute) and c.func.attr == "rotate_tetrahedral" and len(c.args) == 3:
                blk = _seq_block(c)
                groups.setdefault((U(c.args[0]), U(c.args[1]), id(blk)), []).append(c)
        for (pv, at, _), cs in groups.items():
            total = 0.0
            const = True
            detail = []
            for c in cs:
                a = try_fold(c.args[2], prog.module_env(f.module.rel))  # (constants of the module and those it imports)
                if not isinstance(a, (int, float)):
                    const = False
                    detail.append(U(c.args[2]))
                    continue
                mult = 1
                for lp in enclosing_loops(c):
                    if lp is _seq_block(c) or _seq_block(c) in list(ast.walk(lp)):
                        pass
                lp = enclosing_loops(c)
                if lp and _seq_block(c) is lp[0]:
                    rng = try_fold(lp[0].iter, prog.module_env(f.module.rel))
                    if not isinstance(rng, list):
                        const = False
                        detail.append(f"loop {U(lp[0].iter)}")
                        continue
                    mult = len(rng)
                total += a * mult
                detail.append(f"{mult}x{a:g}")
            where = f"pdb2pqr/{f.module.rel}:{cs[0].lineno} ({f.qual})"
            k = f"scan|{key}:{pv},{at}:{'+'.join(detail)}"
            n_scan += 1
            if not const:
                # data-dependent single rotations: only the hydrogen just created may be attached to the rotated atom
                g_ = [U(tst) for c in cs for tst, p in guards_of(c) if p]
                ok = any("numbonds == 1" in x for x in g_)
                r4.add(k, ok, "data-dependent rotation: allowed only where the rotated atom's single other neighbour is the hydrogen just "
                       f"created (guards {sorted(set(g_))[:3]})", where)
                continue
            r4.add(k, abs(total % 360.0) < 1e-9, f"rotations about ({pv}, {at}): {' + '.join(detail)} = {total:g} degrees "
                   f"({'closed' if abs(total % 360.0) < 1e-9 else 'NOT a whole number of turns: every atom bonded to the rotated atom is left displaced'})", where)
    r4.info["scans"] = n_scan

    # ------------------------------------------------------------------ R5
    from . import c04
    r5 = rep.rule("R5", "hydrogens move only with their parent under torsion changes (hydrogen part of C04.R1)", floor=20)
    sub = type(rep)("C04", rep.tier)
    c04.check(prog, sub)
    for ob in sub.rules[0].obs:
        name = ob.key.split("|")[1] if "|" in ob.key else ob.key
        if ob.key == "selection-is-history-free":
            r5.add(ob.key, ob.ok, ob.what, ob.where)
            continue
        if name.startswith("H") or not ob.ok:
            if name.startswith("H") or ob.key.startswith(("moved-wrongly|H", "left-behind|H")):
                r5.add(ob.key, ob.ok, ob.what, ob.where)

    # ------------------------------------------------------------------ R6
    rule_peptide_pointers(prog, rep, t)
    rule_completion_reads_occupied(prog, rep)
    rep.guarded(rule_water_completion, prog, rep)
    rep.guarded(rule_carboxyl_names, prog, rep)
    from . import shared
    rep.guarded(shared.rule_no_runtime_module_state, prog, rep, "R12", "the template queries (bonds, nearest bonded atoms, reference coordinates) keep no table of earlier answers",
                ["definitions.py"], "a patched copy of a residue (terminus, protonation state) shares its name with the unpatched one, so an answer remembered "
                "under the name hands one variant the frame atoms of the other and the atom is fitted on the wrong neighbours", 1)
    rep.guarded(shared.rule_decoration_columns_unused, prog, rep, "R11", "atoms are built from names, bonds and coordinates only: occupancy and temperature factor never choose a frame atom or a position",
                ("create_atom",), (), 1, "the construction of added atoms")


def rule_peptide_pointers(prog, rep, t, rid="R6"):
    """The C(i-1)/N(i+1) pointers are frame atoms of the superposition that builds H and O: they may stay set only
    when the two atoms are within the peptide-bond limit, and the limit separates bonded from 1-3 distances."""
    from ..guards import Sym, Unknown, explore
    r = rep.rule(rid, "cross-residue frame atoms (peptide_c / peptide_n) are set only across a real peptide bond", floor=5)
    fn = prog.func("biomolecule.py", "Biomolecule.update_bonds")
    loops = [lp for lp in walk_no_defs(fn.node) if isinstance(lp, ast.For)
             and any(isinstance(n, ast.Attribute) and n.attr in ("peptide_c", "peptide_n") and isinstance(n.ctx, ast.Store) for n in ast.walk(lp))]
    if not loops:
        raise AnalysisError("Biomolecule.update_bonds: the loop that sets peptide_c / peptide_n was not found")
    lp = [x for x in loops if not any(y is not x and y in ast.walk(x) for y in loops)][0]  # innermost
    where = f"pdb2pqr/biomolecule.py:{lp.lineno} (Biomolecule.update_bonds)"
    limits = set()
    for n in ast.walk(lp):
        if isinstance(n, ast.Compare) and len(n.ops) == 1:
            a, b = U(n.left), U(n.comparators[0])
            if ("distance(" in a) != ("distance(" in b):
                limits.add(b if "distance(" in a else a)
    if len(limits) != 1:
        raise AnalysisError(f"update_bonds: expected one distance test in the pointer loop, found {sorted(limits)}")
    limit_txt = limits.pop()
    consts = dict(prog.module_constants("config.py"))
    consts.update(prog.module_constants("biomolecule.py"))
    limit = try_fold(ast.parse(limit_txt, mode="eval").body, consts)
    A1, A2 = {"name": "C", "coords": "c1"}, {"name": "N", "coords": "c2"}
    n_paths = 0
    for has1, has2, order in itertools.product((True, False), (True, False), ("lt", "eq", "gt")):
        if not (has1 and has2) and order != "lt":
            continue

        def make_env():
            r1 = {"peptide_c": "prior", "peptide_n": None, "__res__": 1}
            r2 = {"peptide_c": None, "peptide_n": "prior", "__res__": 2}
            env = {"chain.residues": [r1, r2], "i": 0, limit_txt: Sym("limit"), f"__order__d_limit": order}
            if isinstance(lp.target, ast.Tuple) and len(lp.target.elts) == 2:
                env[U(lp.target.elts[0])], env[U(lp.target.elts[1])] = r1, r2
            return env

        def hook(it, call):
            name = U(call.func)
            if name == "isinstance":
                return True
            if isinstance(call.func, ast.Attribute) and call.func.attr in ("get_atom", "has_atom"):
                who = it.ev(call.func.value)
                arg = it.ev(call.args[0])
                if isinstance(who, dict) and (who.get("__res__"), arg) in ((1, "C"), (2, "N")):
                    present = has1 if arg == "C" else has2
                    if call.func.attr == "has_atom":
                        return present
                    return (A1 if arg == "C" else A2) if present else None
                return Unknown(U(call))
            if name.endswith("distance"):
                args = {U(a) for a in call.args}
                return Sym("d")
            return Unknown(U(call))

        for oracle, it, flow in explore(lp.body, make_env, call_hook=hook):
            n_paths += 1
            r1, r2 = it.env["chain.residues"]
            pc, pn = r2["peptide_c"], r1["peptide_n"]
            case = f"C {'present' if has1 else 'missing'}, N {'present' if has2 else 'missing'}" + (f", distance {dict(lt='<', eq='=', gt='>')[order]} {limit_txt}" if has1 and has2 else "")
            free = "; ".join(f"{k[:60]} is {v}" for k, v in oracle.items())
            key = f"pointers|{'C' if has1 else '-'}{'N' if has2 else '-'}:{order}" + (f"|{free}" if free else "")
            if has1 and has2 and order == "gt":
                ok = pc is None and pn is None
                r.add(key, ok, f"{case}{' when ' + free if free else ''}: res2.peptide_c = {_pp(pc)}, res1.peptide_n = {_pp(pn)} at the end of the iteration; "
                      + ("both cleared" if ok else "a pointer to an atom beyond bonding distance is kept: the amide H of the residue after the gap (and a "
                         "missing O before it) is built by superposing the N, CA, C-1 template triangle on that far-away atom"), where)
            elif has1 and has2:
                ok = pc is A1 and pn is A2
                r.add(key, ok, f"{case}{' when ' + free if free else ''}: res2.peptide_c = {_pp(pc)}, res1.peptide_n = {_pp(pn)}"
                      + ("" if ok else " -- the frame atoms of a bonded pair must be the C and N that form the bond"), where)
            else:
                ok = pc in (None, A1) and pn in (None, A2) and (pc is None or has1) and (pn is None or has2)
                r.add(key, ok, f"{case}: res2.peptide_c = {_pp(pc)}, res1.peptide_n = {_pp(pn)}", where)
    r.info["paths"] = n_paths
    # the limit separates the bonded C-N distance from the nearest non-bonded (1-3) distances of the PEPTIDE-patched templates
    pep = t.patches.get("PEPTIDE")
    if pep is None or not isinstance(limit, (int, float)):
        raise AnalysisError("PEPTIDE patch or a constant peptide-bond limit not found")
    bonded, non = [], []
    for name in AMINO:
        ref = t.map.get(name)
        if ref is None or not {"N", "CA", "C"} <= set(ref.atoms):
            continue
        if "N+1" in pep.atoms:
            bonded.append(math.dist(ref.atoms["C"].xyz, pep.atoms["N+1"][0] if isinstance(pep.atoms["N+1"], tuple) else pep.atoms["N+1"].xyz))
            non.append(math.dist(ref.atoms["CA"].xyz, pep.atoms["N+1"][0] if isinstance(pep.atoms["N+1"], tuple) else pep.atoms["N+1"].xyz))
        if "C-1" in pep.atoms:
            bonded.append(math.dist(ref.atoms["N"].xyz, pep.atoms["C-1"][0] if isinstance(pep.atoms["C-1"], tuple) else pep.atoms["C-1"].xyz))
            non.append(math.dist(ref.atoms["CA"].xyz, pep.atoms["C-1"][0] if isinstance(pep.atoms["C-1"], tuple) else pep.atoms["C-1"].xyz))
    if not bonded:
        raise AnalysisError("no amino-acid template with N, CA, C found")
    r.add("limit-separates-bonded-from-1-3", max(bonded) < limit < min(non),
          f"{limit_txt} = {limit}: template C-N bond lengths {min(bonded):.2f}-{max(bonded):.2f} A, nearest non-bonded (CA...N+1, CA...C-1) "
          f"{min(non):.2f} A; the limit must lie strictly between", "pdb2pqr/config.py")


def placement_models(prog, r1, r2):
    """Biomolecule.add_hydrogens and Biomolecule.repair_heavy are evaluated on a model residue with symbolic coordinates; the
    superposition itself stays uninterpreted.  The call must receive (n, structure points, template points, template point of
    the atom being built) with the i-th structure point and the i-th template point belonging to the same atom, anchors that are
    absent skipped, the neighbour's N / C taken through the peptide pointers, n = number of pairs = 3; the atom created is what
    the superposition returns.  Returns the keys of the functions decided this way."""
    import sympy as sp
    from ..guards import Flow, Obj
    from ..objinterp import ObjRunner
    decided = set()

    def S(name):
        return [sp.Symbol(f"S_{name}_{i}") for i in range(3)]

    def T(name):
        return [sp.Symbol(f"T_{name}_{i}") for i in range(3)]

    for meth, target, anchors in (("add_hydrogens", "HX", ["A1", "C-1", "GONE", "A2", "A3"]), ("repair_heavy", "CX", ["N+1", "A1", "GONE", "A2", "A3"])):
        key = f"biomolecule.py::Biomolecule.{meth}"
        fi = prog.funcs.get(key)
        if fi is None:
            continue
        where = f"pdb2pqr/biomolecule.py:{fi.node.lineno} (Biomolecule.{meth})"
        tmap = {n: Obj({"__class__": "DefinitionAtom", "name": n, "coords": T(n), "bonds": []}) for n in ["A1", "A2", "A3", "GONE", "N+1", "C-1", target, "N", "CA"]}
        present = {n: Obj({"__class__": "Atom", "name": n, "x": S(n)[0], "y": S(n)[1], "z": S(n)[2],
                           "__props__": {"coords": lambda a_: [a_["x"], a_["y"], a_["z"]]}}) for n in ["A1", "A2", "A3", "N", "CA"]}
        pn = Obj({"__class__": "Atom", "name": "N", "x": S("pn")[0], "y": S("pn")[1], "z": S("pn")[2], "__props__": {"coords": lambda a_: [a_["x"], a_["y"], a_["z"]]}})
        pc = Obj({"__class__": "Atom", "name": "C", "x": S("pc")[0], "y": S("pc")[1], "z": S("pc")[2], "__props__": {"coords": lambda a_: [a_["x"], a_["y"], a_["z"]]}})
        ref = Obj({"__class__": "DefinitionResidue", "map": tmap, "name": "SER"})
        res = Obj({"__class__": "SER", "name": "SER", "reference": ref, "map": present, "atoms": list(present.values()), "peptide_n": pn, "peptide_c": pc,
                   "res_seq": 1, "chain_id": "A", "ins_code": "", "ss_bonded": False, "missing": [target] if meth == "repair_heavy" else []})
        rec = {"fc": [], "created": []}
        RESULT = [sp.Symbol(f"P{i}") for i in range(3)]

        def extra(runner, interp, call, args, kw, rec=rec, res=res, ref=ref, anchors=anchors, target=target):
            nm = U(call.func)
            if nm.endswith("find_coordinates"):
                rec["fc"].append(args)
                return list(RESULT)
            if isinstance(call.func, ast.Attribute):
                recv = None
                try:
                    recv = interp.ev(call.func.value)
                except AnalysisError:
                    return NotImplemented
                a_ = call.func.attr
                if recv is res:
                    if a_ == "has_atom":
                        return args[0] in res["map"]
                    if a_ == "get_atom":
                        return res["map"].get(args[0])
                    if a_ == "create_atom":
                        rec["created"].append((args[0], args[1]))
                        return None
                    if a_ == "rebuild_tetrahedral":
                        return False
                    if a_ in ("remove_atom",):
                        return None
                if recv is ref:
                    if a_ == "get_nearest_bonds":
                        return list(anchors) if args[0] == target else []
                    if a_ == "has_atom":
                        return args[0] in ref["map"]
            if nm == "hasattr" and len(args) == 2:
                return args[1] == "rebuild_tetrahedral" or (isinstance(args[0], dict) and args[1] in args[0])
            return NotImplemented

        run = ObjRunner(prog, "biomolecule.py", extra_hook=extra)
        bio = Obj({"__class__": "Biomolecule", "residues": [res], "num_missing_heavy": 1})
        # only hydrogens named H* are built by add_hydrogens: the template holds exactly one (HX) that is missing
        try:
            run.call(bio, meth)
        except Flow as fl:
            raise AnalysisError(f"{meth} stops with {fl.value} on the model residue") from None
        except AnalysisError:
            continue  # shape outside the interpreter: the syntactic analysis below takes over
        calls = rec["fc"]
        if len(calls) != 1 or len(calls[0]) != 4:
            r1.add(f"site|{key}", False, f"{len(calls)} placement call(s) for the one missing atom {target} of the model residue", where)
            decided.add(key)
            continue
        n_, sc, tc, ta = calls[0]
        used = [a for a in anchors if a != "GONE"][:3]
        want_s = [S("pc") if a == "C-1" else S("pn") if a == "N+1" else S(a) for a in used]
        want_t = [T(a) for a in used]
        ok1 = [list(x) for x in sc] == want_s and [list(x) for x in tc] == want_t and list(ta) == T(target)
        r1.add(f"site|{key}", ok1, f"model residue, anchors {anchors} ('GONE' is absent): the superposition receives structure points of {used} "
               "(neighbour atoms through the peptide pointers), the template points of the same atoms in the same order, and the template point of "
               f"{target}" if ok1 else f"find_coordinates receives {str(sc)[:90]} / {str(tc)[:90]} / {str(ta)[:40]}: not (Structure, Template of the same atoms, Template of {target})", where)
        okc = rec["created"] == [(target, RESULT)]
        r2.add(f"pairs|{key}", n_ == 3 and len(sc) == 3 and len(tc) == 3 and okc,
               f"n = {n_} = number of pairs {len(sc)}/{len(tc)}; the atom created is {target} at the returned point" if n_ == 3 and len(sc) == 3 and okc else
               f"n = {n_}, {len(sc)} structure / {len(tc)} template points, created {str(rec['created'])[:80]}", where)
        decided.add(key)
    return decided


def rule_completion_reads_occupied(prog, rep):
    """Completing an XH3 group: the free position is determined only by where the hydrogens already present are, so the
    placement must read the coordinates of every one of them (a necessary condition for 'does not coincide')."""
    r = rep.rule("R7", "tetrahedral completion reads the position of every hydrogen already on the centre", floor=1)
    fi = prog.func("aa.py", "Amino.rebuild_tetrahedral")
    fn = fi.node
    n_lists = 0
    for st in iter_stmts(fn.body):
        if not (isinstance(st, ast.Assign) and isinstance(st.targets[0], ast.Name) and isinstance(st.value, ast.ListComp)
                and "get_atom" in U(st.value.elt) and "startswith('H')" in U(st.value)):
            continue
        lst = st.targets[0].id
        sizes = [try_fold(c.comparators[0]) for c in ast.walk(fn) if isinstance(c, ast.Compare) and U(c.left) == f"len({lst})" and len(c.ops) == 1]
        sizes = [x for x in sizes if isinstance(x, int)]
        if not sizes:
            raise AnalysisError(f"rebuild_tetrahedral: no size test on the list of existing hydrogens {lst!r}")
        n = max(sizes)
        n_lists += 1
        read = set()
        whole = False
        for x in ast.walk(fn):
            if isinstance(x, ast.Attribute) and x.attr in ("coords", "x", "y", "z") and isinstance(x.value, ast.Subscript) and U(x.value.value) == lst:
                i = try_fold(x.value.slice)
                if isinstance(i, int):
                    read.add(i % n if i < 0 else i)
            if isinstance(x, (ast.For, ast.comprehension)) and U(x.iter) == lst and x is not st.value.generators[0]:
                whole = True
        missing = sorted(set(range(n)) - read) if not whole else []
        r.add(f"reads-all|{lst}", not missing,
              f"the branch with {n} hydrogens present reads the coordinates of {'all of them' if not missing else sorted(read)}"
              + (f"; the position of {lst}[{missing[0]}] is never looked at, so the new hydrogen cannot avoid it: whenever the existing hydrogens are "
                 "not in the order the code assumes (hydrogens taken from the input) the new atom is built on top of one of them" if missing else ""),
              f"pdb2pqr/aa.py:{st.lineno} (Amino.rebuild_tetrahedral)")
    if not n_lists:
        raise AnalysisError("rebuild_tetrahedral: the list of hydrogens already present was not found")


def _pp(v):
    return "None" if v is None else v if isinstance(v, str) else f"<{v.get('name')}>"


def _same_scope(s, c):
    """Append statement s feeds call c: same function; if s is inside a loop, c comes after that loop or inside it."""
    return True


def _seq_block(call):
    """The loop directly repeating this call, or the statement block containing it."""
    st = call
    while st is not None and not isinstance(st, ast.stmt):
        st = parent(st)
    p = parent(st)
    if isinstance(p, (ast.For, ast.While)) and st in p.body:
        return p
    return p


def _angle(a, b, c):
    v1 = [a[i] - b[i] for i in range(3)]
    v2 = [c[i] - b[i] for i in range(3)]
    d = sum(x * y for x, y in zip(v1, v2)) / (math.hypot(*v1) * math.hypot(*v2))
    return math.degrees(math.acos(max(-1.0, min(1.0, d))))


def _tri_area(p, q, r):
    u = [q[i] - p[i] for i in range(3)]
    v = [r[i] - p[i] for i in range(3)]
    cx = (u[1] * v[2] - u[2] * v[1], u[2] * v[0] - u[0] * v[2], u[0] * v[1] - u[1] * v[0])
    return 0.5 * math.hypot(*cx)


def nearest_bonds(ref, atomname):
    """Anchor order of DefinitionResidue.get_nearest_bonds re-derived from the bond graph: 1-2, then 1-3, then 1-4 neighbours."""
    out = []
    seen = {atomname}
    frontier = [atomname]
    for _ in range(3):
        nxt = []
        for a in frontier:
            if a not in ref.atoms:
                continue
            for b in ref.atoms[a].bonds:
                if b not in seen and b in ref.atoms:
                    seen.add(b)
                    nxt.append(b)
                    out.append(b)
        frontier = nxt
    return out


def rule_water_completion(prog, rep):
    """Water.finalize (the last step for every water) is evaluated on model waters: the oxygen with every combination of H1 / LP1 / LP2
    already present, under scripted neighbourhoods (a closest atom exists at every query / at none / alternately; the distances reported
    grow / shrink / alternate).  Positions are abstract points: every geometric helper returns a new point, a rotation sends each atom it
    moves to a new point.  On every run the water must end with H1 and H2, and no two atoms of the residue at the same point."""
    import itertools

    import sympy as sp
    from ..guards import Flow, Obj
    from ..objinterp import ObjRunner
    r = rep.rule("R9", "water completion: both hydrogens are built and no two atoms of the water share a position, on every path", floor=8)
    fi = prog.func("hydrogens/structures.py", "Water.finalize")
    where = f"pdb2pqr/hydrogens/structures.py:{fi.node.lineno} (Water.finalize)"
    coords = {"coords": lambda a_: [a_["x"], a_["y"], a_["z"]]}
    n_runs = 0
    bad = {}
    for present in itertools.chain.from_iterable(itertools.combinations(("H1", "LP1", "LP2"), k) for k in range(4)):
        for near_script, dist_script in itertools.product(("always", "never", "alternate", "alternate-from-none"), ("growing", "shrinking", "alternating")):
            counter = {"pt": 0, "near": 0, "dist": 0}

            def fresh(tag, counter=counter):
                counter["pt"] += 1
                return [sp.Symbol(f"{tag}{counter['pt']}_{ax}") for ax in "xyz"]

            def atom(name, res, pos):
                return Obj({"__class__": "Atom", "name": name, "x": pos[0], "y": pos[1], "z": pos[2], "bonds": [], "residue": res, "reference": None,
                            "element": name[0], "added": 0, "cell": None, "res_name": "HOH", "chain_id": "A", "res_seq": 7, "ins_code": "",
                            "type": "HETATM", "__props__": coords})

            refmap = {"O": Obj({"__class__": "DefinitionAtom", "name": "O", "bonds": ["H1", "H2"], "coords": fresh("T")}),
                      "H1": Obj({"__class__": "DefinitionAtom", "name": "H1", "bonds": ["O"], "coords": fresh("T")}),
                      "H2": Obj({"__class__": "DefinitionAtom", "name": "H2", "bonds": ["O"], "coords": fresh("T")})}
            res = Obj({"__class__": "WAT", "name": "HOH", "atoms": [], "map": {}, "fixed": 0, "chain_id": "A", "res_seq": 7, "ins_code": "",
                       "reference": Obj({"__class__": "DefinitionResidue", "name": "WAT", "map": refmap})})
            oxy = atom("O", res, fresh("O"))
            res["atoms"].append(oxy)
            res["map"]["O"] = oxy
            for nm in present:
                a = atom(nm, res, fresh(nm))
                res["atoms"].append(a)
                res["map"][nm] = a
                a["bonds"].append(oxy)
                oxy["bonds"].append(a)
            neighbour = atom("CA", Obj({"__class__": "ALA", "name": "ALA"}), fresh("N"))
            routines = Obj({"__class__": "<routines>", "cells": Obj({"__class__": "<cells>"})})
            wat = Obj({"__class__": "Water", "residue": res, "routines": routines, "optinstance": None, "atomlist": [], "hbonds": []})

            def extra(runner, interp, call, args, kw, counter=counter, res=res, neighbour=neighbour, near_script=near_script, dist_script=dist_script):
                nm = U(call.func)
                f_ = call.func
                if nm.endswith("find_coordinates"):
                    return fresh("P")
                if nm in ("struct.Atom", "Atom", "structures.Atom") and len(args) == 3:
                    src = args[0]
                    new = Obj({k: v for k, v in src.items() if k != "__props__"})
                    new["__props__"] = coords
                    new["bonds"], new["reference"], new["residue"], new["type"], new["cell"], new["added"] = [], None, args[2], args[1], None, 0
                    return new
                if isinstance(f_, ast.Attribute):
                    if f_.attr in ("add_cell", "remove_cell"):
                        return None
                    if f_.attr == "get_closest_atom":
                        counter["near"] += 1
                        k = counter["near"]
                        there = {"always": True, "never": False, "alternate": k % 2 == 1, "alternate-from-none": k % 2 == 0}[near_script]
                        return neighbour if there else None
                    if f_.attr == "get_positions_with_two_bonds":
                        return [fresh("Q"), fresh("Q")]
                    if f_.attr == "get_position_with_three_bonds":
                        return fresh("Q")
                    if f_.attr == "rotate_tetrahedral" and len(args) == 3:
                        pivot, centre = args[0], args[1]
                        for b in centre["bonds"]:
                            if b is not pivot:
                                b["x"], b["y"], b["z"] = fresh("R")
                        return None
                if nm in ("util.distance", "distance") and len(args) == 2:
                    counter["dist"] += 1
                    k = counter["dist"]
                    return {"growing": 2.0 + 0.01 * k, "shrinking": 4.0 - 0.01 * k, "alternating": 3.0 + (0.5 if k % 2 else -0.5) - 0.001 * k}[dist_script]
                if nm in ("util.subtract", "subtract") and len(args) == 2:
                    return [a - b for a, b in zip(args[0], args[1])]
                if nm in ("util.add", "add") and len(args) == 2:
                    return [a + b for a, b in zip(args[0], args[1])]
                return NotImplemented

            run = ObjRunner(prog, "hydrogens/structures.py", extra_hook=extra, depth_limit=40)
            label = f"{'+'.join(present) or 'bare oxygen'}"
            try:
                run.call(wat, "finalize")
            except Flow as fl:
                bad.setdefault(label, f"finalize stops with {fl.value} (closest atom {near_script}, distances {dist_script})")
                n_runs += 1
                continue
            n_runs += 1
            names = [a["name"] for a in res["atoms"]]
            problem = None
            if "H1" not in names or "H2" not in names or len(set(names)) != len(names):
                problem = f"the water ends with atoms {names}"
            else:
                for a, b in itertools.combinations(res["atoms"], 2):
                    if all(sp.simplify(sp.sympify(a[k]) - sp.sympify(b[k])) == 0 for k in "xyz"):
                        problem = f"{a['name']} and {b['name']} end at the same point {a['x']}"
                        break
            if problem:
                bad.setdefault(label, f"{problem} (closest atom {near_script}, distances {dist_script})")
    for present in itertools.chain.from_iterable(itertools.combinations(("H1", "LP1", "LP2"), k) for k in range(4)):
        label = f"{'+'.join(present) or 'bare oxygen'}"
        r.add(f"water|{label}", label not in bad, f"water starting with {label}: " + (bad.get(label) or "H1 and H2 present, all positions distinct under the "
              "12 scripted neighbourhoods"), where)
    r.info["model_runs"] = n_runs


def rule_carboxyl_names(prog, rep):
    """Carboxylic.rename - the last step of placing the acid hydrogen of ASH / GLH - is evaluated on model residues: the hydrogen that survived
    sits on either oxygen, one or both oxygens had been tried, and a leftover hydrogen of the other name may still be in the residue.  The force
    field and the template bond the hydrogen to the oxygen the optimisation table names as its parent: after the renaming the hydrogen's name
    must be a name of that table whose parent is the name of the oxygen it is attached to, and the residue's name index must agree with the atoms."""
    import itertools
    from ..guards import Flow, Obj
    from ..objinterp import ObjRunner
    r = rep.rule("R10", "acid hydrogen: after the final renaming the hydrogen carries the name whose template parent is the oxygen it sits on", floor=12)
    fi = prog.func("hydrogens/structures.py", "Carboxylic.rename")
    where = f"pdb2pqr/hydrogens/structures.py:{fi.node.lineno} (Carboxylic.rename)"
    coords = {"coords": lambda a_: [a_["x"], a_["y"], a_["z"]]}
    for (resname, stem, oxy), on, tried, ext, leftover in itertools.product((("ASH", "HD", "OD"), ("GLH", "HE", "OE")), ("1", "2"), ("both", "one"), ("1", "2"), (False, True)):
        if leftover and tried == "both":
            continue
        res = Obj({"__class__": "ASP" if resname == "ASH" else "GLU", "name": resname, "atoms": [], "map": {}, "fixed": 0, "chain_id": "A", "res_seq": 5, "ins_code": ""})

        def atom(name, k, res=res):
            a = Obj({"__class__": "Atom", "name": name, "x": float(k), "y": 0.5 * k, "z": -1.0 * k, "bonds": [], "residue": res, "reference": None, "element": name[0],
                     "added": 0, "cell": None, "res_name": resname, "chain_id": "A", "res_seq": 5, "ins_code": "", "type": "ATOM", "__props__": coords})
            res["atoms"].append(a)
            res["map"][name] = a
            return a

        carbon = atom("CG" if resname == "ASH" else "CD", 0)
        o = {"1": atom(f"{oxy}1", 1), "2": atom(f"{oxy}2", 2)}
        for x in o.values():
            x["bonds"].append(carbon)
            carbon["bonds"].append(x)
        hyd = atom(f"{stem}{on}{ext}", 3)
        hyd["bonds"].append(o[on])
        o[on]["bonds"].append(hyd)
        parent = o[on]
        other = "2" if on == "1" else "1"
        if leftover:
            left = atom(f"{stem}{other}", 4)
            left["bonds"].append(o[other])
            o[other]["bonds"].append(left)
        optmap = {f"{stem}2": Obj({"__class__": "OptimizationHolder", "name": f"{stem}2", "bond": f"{oxy}2"}),
                  f"{stem}1": Obj({"__class__": "OptimizationHolder", "name": f"{stem}1", "bond": f"{oxy}1"})}
        table = {k: v["bond"] for k, v in optmap.items()}
        this = Obj({"__class__": "Carboxylic", "residue": res, "optinstance": Obj({"__class__": "OptimizationHolder", "map": optmap}),
                    "routines": Obj({"__class__": "<routines>", "cells": Obj({"__class__": "<cells>"})}),
                    "atomlist": [o["1"], o["2"]] if tried == "both" else [o[on]], "hlist": [hyd], "hbonds": []})

        def extra(runner, interp, call, args, kw):
            if isinstance(call.func, ast.Attribute) and call.func.attr in ("add_cell", "remove_cell"):
                return None
            return NotImplemented

        label = f"{resname}: {hyd['name']} on {parent['name']}, {tried} oxygen(s) tried" + (f", a {stem}{other} still in the residue" if leftover else "")
        run = ObjRunner(prog, "hydrogens/structures.py", extra_hook=extra)
        try:
            run.call(this, "rename", hyd)
        except Flow as fl:
            r.bad(f"rename|{label}", f"{label}: rename stops with {fl.value}", where)
            continue
        problems = []
        if hyd["name"] not in table:
            problems.append(f"the hydrogen is called {hyd['name']!r}, which the optimisation table does not know")
        elif table[hyd["name"]] != parent["name"]:
            problems.append(f"the hydrogen is called {hyd['name']} (template parent {table[hyd['name']]}) but sits on the oxygen now called {parent['name']}")
        stale = sorted(k for k, a in res["map"].items() if a["name"] != k)
        if stale or "FLIP" in res["map"]:
            problems.append(f"name index out of step with the atoms: {stale or ['FLIP']}")
        if sorted(x["name"] for x in o.values()) != [f"{oxy}1", f"{oxy}2"]:
            problems.append(f"the oxygens are called {[x['name'] for x in o.values()]}")
        r.add(f"rename|{label}", not problems, f"{label}: ends as {hyd['name']} on {parent['name']}" if not problems else f"{label}: " + "; ".join(problems) +
              " -- the added hydrogen is then not at its template parent", where)
