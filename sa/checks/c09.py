"""C09 -- formatting and naming options never change the computed model."""
from __future__ import annotations

import ast

from ..callgraph import CallGraph
from ..cells import Model, amino_cells, ff_status
from ..core import AnalysisError, U, calls_in, guards_of, iter_stmts, parent, walk_no_defs
from ..tables import AMINO, NUCLEIC, Tables

FORMAT_OPTS = ["whitespace", "keep_chain", "include_header", "pdb_output", "apbs_input", "ffout"]
MODEL_ATTRS = {"x", "y", "z", "ffcharge", "radius", "atoms", "map", "residues", "chains", "bonds", "reference", "patches",
               "ffname", "is_n_term", "is_c_term", "is5term", "is3term", "ss_bonded", "ss_bonded_partner", "hdonor",
               "hacceptor", "fixed", "chainmap", "missing", "dihedrals", "peptide_n", "peptide_c"}
MODEL_MUTATORS = {"add_atom", "remove_atom", "create_atom", "rename_atom", "apply_patch", "set_dihedral_angle",
                  "rotate_tetrahedral", "add_residue", "rename_residue", "set_state", "set_states", "apply_force_field",
                  "repair_heavy", "add_hydrogens", "remove_hydrogens", "debump_biomolecule", "optimize_hydrogens"}
PRE_STAGE = {"main.py::check_files", "main.py::check_options", "main.py::transform_arguments", "main.py::build_main_parser"}
OUTPUT_ROOTS = ["main.py::print_pqr", "main.py::print_pdb", "io.py::print_biomolecule_atoms", "io.py::print_pqr_header",
                "io.py::print_pqr_header_cif", "io.py::dump_apbs", "biomolecule.py::Biomolecule.apply_name_scheme"]
OUTPUT_CALLS = {"print_pqr", "print_pdb", "dump_apbs", "print_biomolecule_atoms", "apply_name_scheme", "print_pqr_header",
                "print_pqr_header_cif"}


def stmt_of(n):
    while n is not None and not isinstance(n, ast.stmt):
        n = parent(n)
    return n


_STR_METHODS = {"ljust", "rjust", "center", "format", "join", "strip", "lstrip", "rstrip", "upper", "lower", "replace", "zfill", "title",
                "capitalize", "expandtabs", "format_map", "getvalue"}


def _stringy(v):
    """Expression that builds a string (or a plain flag/number constant): the only values a formatting flag may select."""
    if isinstance(v, ast.Constant):
        return isinstance(v.value, (str, bool, int, float, type(None)))
    if isinstance(v, (ast.JoinedStr, ast.Name, ast.Attribute)):
        return True
    if isinstance(v, ast.BinOp) and isinstance(v.op, (ast.Add, ast.Mod, ast.Mult)):
        return _stringy(v.left) and _stringy(v.right)
    if isinstance(v, ast.Subscript):
        return _stringy(v.value)
    if isinstance(v, ast.IfExp):
        return _stringy(v.body) and _stringy(v.orelse)
    if isinstance(v, ast.Call):
        if isinstance(v.func, ast.Name) and v.func.id in ("str", "repr", "format", "len", "bool", "int"):
            return True
        if isinstance(v.func, ast.Attribute) and v.func.attr in _STR_METHODS:
            return True
        if isinstance(v.func, ast.Attribute) and v.func.attr.startswith(("get_", "str")):
            return True  # a formatter of the object (get_pqr_string, get_common_string_rep): classified through its own parameters
    return False


def _returns_string(prog, g, f, v, depth=0):
    """v is a call that resolves to repository functions all of whose return values are strings being built."""
    if not isinstance(v, ast.Call) or depth > 3:
        return False
    targets, _ = g.resolve(f, v)
    if not targets:
        return False
    for t in targets:
        rets = [r for r in walk_no_defs(t.node) if isinstance(r, ast.Return) and r.value is not None]
        if not rets:
            return False
        for r in rets:
            val = r.value
            if isinstance(val, ast.Name):
                defs = [s for s in iter_stmts(t.node.body) if isinstance(s, (ast.Assign, ast.AugAssign))
                        and any(isinstance(x, ast.Name) and x.id == val.id for x in (s.targets if isinstance(s, ast.Assign) else [s.target]))]
                if not defs or not all((_stringy(d.value) and not isinstance(d.value, (ast.Name, ast.Attribute)))
                                       or isinstance(d, ast.AugAssign) and _stringy(d.value)
                                       or _returns_string(prog, g, t, d.value, depth + 1) for d in defs):
                    return False
            elif not (_stringy(val) and not isinstance(val, (ast.Name, ast.Attribute))) and not _returns_string(prog, g, t, val, depth + 1):
                return False
    return True


def resolve_held_function(prog, f, call):
    """Targets of a call through a local name that is only ever bound to functions of the repository, directly or through functools.partial:
    -> [(function info, number of positional arguments already bound)] or []."""
    if not isinstance(call.func, ast.Name):
        return []
    name = call.func.id
    binds = [s_.value for s_ in iter_stmts(f.node.body) if isinstance(s_, ast.Assign) and any(isinstance(t_, ast.Name) and t_.id == name for t_ in s_.targets)]
    out = []
    for v in binds:
        alts = [v.body, v.orelse] if isinstance(v, ast.IfExp) else [v]
        for a in alts:
            pre = 0
            if isinstance(a, ast.Call) and U(a.func).split(".")[-1] == "partial" and a.args:
                pre, a = len(a.args) - 1, a.args[0]
            if not isinstance(a, (ast.Name, ast.Attribute)):
                return []
            short = U(a).split(".")[-1]
            cands = [fi for k_, fi in prog.funcs.items() if k_.split("::")[1] == short]
            if len(cands) != 1:
                return []
            out.append((cands[0], pre))
    return out


def format_only_param(prog, g, fkey, pname, depth=0, seen=None):
    """Does parameter `pname` of function fkey influence only string building?  -> (bool, reason)"""
    seen = seen or set()
    if (fkey, pname) in seen or depth > 6:
        return True, "recursive"
    seen.add((fkey, pname))
    f = prog.funcs[fkey]
    fn = f.node
    for n in walk_no_defs(fn):
        if not (isinstance(n, ast.Name) and n.id == pname and isinstance(n.ctx, ast.Load)):
            continue
        p = parent(n)
        # forwarded as an argument
        if isinstance(p, ast.keyword) or (isinstance(p, ast.Call) and n in p.args):
            call = parent(p) if isinstance(p, ast.keyword) else p
            targets, kind = g.resolve(f, call)
            if not targets:
                nm = U(call.func)
                if nm.startswith("_LOGGER.") or nm in ("str", "bool", "len", "print"):
                    continue
                if nm.split(".")[-1] == "methodcaller" and isinstance(p, ast.keyword) and call.args and isinstance(call.args[0], ast.Constant):
                    # operator.methodcaller("name", kw=flag): the flag reaches parameter kw of every method of that name
                    meths = [k_ for k_ in prog.funcs if k_.split("::")[1].split(".")[-1] == call.args[0].value and "." in k_.split("::")[1]]
                    bad_ = [why_ for k_ in meths for ok_, why_ in [format_only_param(prog, g, k_, p.arg, depth + 1, seen)]
                            if p.arg in [a.arg for a in prog.funcs[k_].node.args.args + prog.funcs[k_].node.args.kwonlyargs] and not ok_]
                    if meths and not bad_:
                        continue
                    return False, (bad_[0] if bad_ else f"{pname} handed to methodcaller of an unknown method in {f.qual}")
                return False, f"{pname} handed to unresolved call {nm} in {f.qual}"
            for t in targets:
                params = [a.arg for a in t.node.args.args + t.node.args.kwonlyargs]
                if isinstance(p, ast.keyword):
                    q = p.arg
                else:
                    idx = call.args.index(n) + (1 if t.cls is not None and params and params[0] in ("self", "cls") else 0)
                    q = params[idx] if idx < len(params) else None
                if q is None or q not in params:
                    return False, f"cannot bind {pname} to a parameter of {t.key}"
                ok, why = format_only_param(prog, g, t.key, q, depth + 1, seen)
                if not ok:
                    return False, why
            continue
        # used as (part of) a test
        st = stmt_of(n)
        test_owner = p
        while test_owner is not None and not isinstance(test_owner, (ast.If, ast.IfExp, ast.stmt)):
            test_owner = parent(test_owner)
        if isinstance(test_owner, ast.IfExp):
            # both arms must be plain strings/attribute reads
            continue
        if isinstance(test_owner, ast.If):
            for s in iter_stmts(test_owner.body + test_owner.orelse):
                if isinstance(s, (ast.Assign, ast.AugAssign)):
                    tg = s.targets[0] if isinstance(s, ast.Assign) else s.target
                    if not isinstance(tg, ast.Name):
                        return False, f"{pname} controls a store to {U(tg)} in {f.qual}"
                    if not _stringy(s.value) and not _returns_string(prog, g, f, s.value):
                        return False, (f"{pname} controls the value of {tg.id} = {U(s.value)[:50]} in {f.qual}: not a string being built "
                                       "(the data handed on - its order or content - depends on a formatting flag)")
                elif isinstance(s, ast.Expr) and isinstance(s.value, ast.Call):
                    nm = U(s.value.func)
                    if not (nm.startswith("_LOGGER.") or nm.endswith((".append", ".write", ".extend"))):
                        return False, f"{pname} controls the call {nm} in {f.qual}"
                elif isinstance(s, (ast.If, ast.Pass, ast.For)):
                    continue
                else:
                    return False, f"{pname} controls a {type(s).__name__} in {f.qual}"
            continue
        if isinstance(st, ast.Assign) and isinstance(st.targets[0], ast.Name):
            continue  # copied into a local string/flag; conservative: locals inside formatters
        if isinstance(st, ast.AugAssign) and isinstance(st.target, ast.Name):
            continue  # appended to a local string
        return False, f"{pname} used in {U(st)[:50]} in {f.qual}"
    return True, "string building only"


def _reference_functions():
    from ..alpha import reference
    return {f"{rel}::{q}" for rel, m in reference().items() for q in m.get("__all_functions__", [])}


REFERENCE_FUNCTIONS = _reference_functions()


def check(prog, rep):
    rep.explanation = (
        "information-flow classification of every read of the formatting options, effect bound of the output-stage "
        "call closure (attribute stores and model-mutating calls), statement order in non_trivial, reach of the "
        "neutral-termini options, and the PARSE charge table for neutralised termini"
    )
    rep.assumptions += ["propka does not read pdb2pqr's formatting attributes from the shared namespace object"]
    rep.not_decided += ["byte identity of floats is implied by 'no influence', not re-measured"]
    g = CallGraph(prog)
    rep.analysed["callgraph"] = g.summary()

    # ------------------------------------------------------------------ R1
    r1 = rep.rule("R1", "every read of a formatting option is confined to validation, output or string building", floor=12)
    n_reads = 0
    for key, f in sorted(prog.funcs.items()):
        if f.module.rel in ("run.py",):
            continue
        queue = []
        for n in walk_no_defs(f.node):
            if not (isinstance(n, ast.Attribute) and isinstance(n.value, ast.Name) and n.value.id == "args"
                    and n.attr in FORMAT_OPTS and isinstance(n.ctx, ast.Load)):
                continue
            n_reads += 1
            queue.append((n, n.attr))
        while queue:
            n, optname = queue.pop(0)
            st = stmt_of(n)
            where = f"pdb2pqr/{f.module.rel}:{n.lineno} ({f.qual})"
            k = f"read|{key}:args.{optname}:{U(st).splitlines()[0][:48]}"
            if isinstance(st, ast.Assign) and st.value is n and len(st.targets) == 1 and isinstance(st.targets[0], ast.Name) \
                    and key not in PRE_STAGE:
                # the option is read into a local first: every later use of the local is classified instead
                alias = st.targets[0].id
                rebound = [s for s in iter_stmts(f.node.body) if isinstance(s, (ast.Assign, ast.AugAssign)) and s is not st
                           and any(isinstance(t, ast.Name) and t.id == alias for t in (s.targets if isinstance(s, ast.Assign) else [s.target]))]
                if rebound:
                    r1.bad(k, f"local {alias} holding the option is re-bound", where)
                    continue
                uses = [x for x in walk_no_defs(f.node) if isinstance(x, ast.Name) and x.id == alias and isinstance(x.ctx, ast.Load)]
                r1.ok(k, f"copied into local {alias!r} ({len(uses)} use(s), each classified separately)", where)
                queue.extend((u, optname) for u in uses)
                continue
            pt = parent(n)
            if isinstance(pt, (ast.Tuple, ast.List)) and isinstance(parent(pt), ast.Assign) and parent(pt).value is pt and len(parent(pt).targets) == 1 \
                    and isinstance(parent(pt).targets[0], ast.Name) and key not in PRE_STAGE:
                # the option is packed into a local argument tuple: every use of the tuple must be `*tuple` in a call whose parameter at that
                # position only builds strings
                local, pos = parent(pt).targets[0].id, pt.elts.index(n)
                uses = [x for x in walk_no_defs(f.node) if isinstance(x, ast.Name) and x.id == local and isinstance(x.ctx, ast.Load)]
                verdict, why = bool(uses), "the argument tuple is never used"
                for u in uses:
                    star = parent(u)
                    call = parent(star) if isinstance(star, ast.Starred) else None
                    if not isinstance(call, ast.Call) or star not in call.args or any(isinstance(a, ast.Starred) for a in call.args[:call.args.index(star)]):
                        verdict, why = False, f"the tuple {local} holding the option is used other than as *{local} in a call"
                        break
                    targets, _ = g.resolve(f, call)
                    held = [(t_, 0) for t_ in targets] or resolve_held_function(prog, f, call)
                    if not held:
                        verdict, why = False, f"*{local} handed to unresolved call {U(call.func)}"
                        break
                    for t_, pre in held:
                        params = [a.arg for a in t_.node.args.args]
                        idx = pre + call.args.index(star) + pos + (1 if t_.cls is not None and params and params[0] in ("self", "cls") else 0)
                        if idx >= len(params):
                            verdict, why = False, f"cannot bind element {pos} of *{local} to a parameter of {t_.key}"
                            break
                        ok_, why = format_only_param(prog, g, t_.key, params[idx])
                        if not ok_:
                            verdict = False
                            break
                    if not verdict:
                        break
                r1.add(k, verdict, f"packed into the argument tuple {local!r} (element {pos}), passed on as *{local}: {why}", where)
                continue
            if key in PRE_STAGE:
                # validation / normalisation only: may store back to args.<same option>
                stores = [s for s in iter_stmts(f.node.body) if isinstance(s, ast.Assign) and isinstance(s.targets[0], ast.Attribute)
                          and U(s.targets[0].value) == "args"]
                r1.ok(k, f"validation stage ({f.qual})", where)
                continue
            if key in ("main.py::print_pqr", "main.py::print_pdb"):
                r1.ok(k, "output stage", where)
                continue
            callers_ = [c_ for c_ in g.callers(key) if c_ != key]
            if callers_ and all(c_ in ("main.py::print_pqr", "main.py::print_pdb") for c_ in callers_) and key not in REFERENCE_FUNCTIONS:
                r1.ok(k, f"output stage (a helper called only by {sorted(set(callers_))})", where)
                continue
            p = parent(n)
            if isinstance(p, ast.keyword) or (isinstance(p, ast.Call) and n in p.args):
                call = parent(p) if isinstance(p, ast.keyword) else p
                callee = U(call.func).split(".")[-1]
                targets, _ = g.resolve(f, call)
                if callee == "Forcefield" and optname == "ffout":
                    asg = stmt_of(call)
                    var = U(asg.targets[0]) if isinstance(asg, ast.Assign) else None
                    uses = [U(stmt_of(x)) for x in walk_no_defs(f.node) if isinstance(x, ast.Name) and x.id == var and isinstance(x.ctx, ast.Load)]
                    ok = var is not None and all("apply_name_scheme" in u for u in uses)
                    r1.add(k, ok, f"builds the naming-scheme force field {var}, used only by apply_name_scheme ({len(uses)} use(s))", where)
                    continue
                if callee == "dump_apbs":
                    r1.ok(k, "output stage call (APBS input file)", where)
                    continue
                if callee in ("open",):
                    r1.ok(k, "output path", where)
                    continue
                held_pre = {}
                if not targets:
                    held = resolve_held_function(prog, f, call)
                    targets = [t_ for t_, _ in held]
                    held_pre = {t_.key: pre for t_, pre in held}
                if not targets:
                    if U(call.func).startswith("_LOGGER."):
                        r1.ok(k, "logging", where)
                    else:
                        r1.bad(k, f"option handed to unresolved call {U(call.func)}", where)
                    continue
                verdict, why = True, ""
                for t in targets:
                    params = [a.arg for a in t.node.args.args + t.node.args.kwonlyargs]
                    if isinstance(p, ast.keyword):
                        q = p.arg
                    else:
                        idx = call.args.index(n) + held_pre.get(t.key, 0) + (1 if t.cls is not None and params and params[0] in ("self", "cls") else 0)
                        q = params[idx] if idx < len(params) else None
                    if q not in params:
                        verdict, why = False, f"cannot bind to a parameter of {t.key}"
                        break
                    ok, why = format_only_param(prog, g, t.key, q)
                    if not ok:
                        verdict = False
                        break
                r1.add(k, verdict, f"bound to parameter(s) of {callee}: {why}", where)
                continue
            # test of an if: the controlled statements must be output-stage only
            owner = p
            while owner is not None and not isinstance(owner, (ast.If, ast.stmt)):
                owner = parent(owner)
            if isinstance(owner, ast.If) and n in list(ast.walk(owner.test)):
                bad = []
                for c in calls_in(ast.Module(body=owner.body + owner.orelse, type_ignores=[])):
                    nm = U(c.func)
                    short = nm.split(".")[-1]
                    if nm.startswith("_LOGGER.") or short in OUTPUT_CALLS or short in ("Forcefield", "lower", "write"):
                        continue
                    if U(c.func).startswith("line["):
                        continue
                    bad.append(nm)
                r1.add(k, not bad, "controls only output-stage calls" if not bad else f"controls model-stage call(s) {bad[:3]}", where)
                continue
            if isinstance(st, ast.Expr) and U(st.value.func).startswith("_LOGGER."):
                r1.ok(k, "logging", where)
                continue
            if isinstance(parent(n), ast.Compare) and isinstance(stmt_of(n), ast.If):
                r1.ok(k, "comparison inside an output-stage guard", where)
                continue
            if isinstance(parent(n), ast.FormattedValue):
                r1.ok(k, "message text", where)
                continue
            r1.bad(k, f"unclassified use: {U(st)[:70]}", where)
    rep.analysed["format_option_reads"] = n_reads
    # stores to the options outside validation
    for key, f in prog.funcs.items():
        for s in iter_stmts(f.node.body):
            if isinstance(s, ast.Assign) and isinstance(s.targets[0], ast.Attribute) and U(s.targets[0].value) == "args":
                attr = s.targets[0].attr
                if key not in PRE_STAGE:
                    r1.bad(f"store|{key}:args.{attr}", "option namespace modified outside the validation stage",
                           f"pdb2pqr/{f.module.rel}:{s.lineno} ({f.qual})")

    # ------------------------------------------------------------------ R2
    r2 = rep.rule("R2", "output-stage functions cannot write the model", floor=5)
    for root in OUTPUT_ROOTS:
        if root not in prog.funcs:
            r2.bad(f"root|{root}", "output-stage function not found")
            continue
        clo = g.closure(root)
        stores = {}
        mut = {}
        for k2 in clo:
            f2 = prog.funcs[k2]
            if f2.node.name == "__init__" or k2.startswith(("psize.py::", "inputgen.py::")):
                continue  # constructors initialise their own fresh object; psize/inputgen own their objects
            for n in walk_no_defs(f2.node):
                if isinstance(n, ast.Attribute) and isinstance(n.ctx, ast.Store) and n.attr in MODEL_ATTRS:
                    stores.setdefault(n.attr, []).append(f"{k2}:{n.lineno}")
            for c in calls_in(f2.node):
                if isinstance(c.func, ast.Attribute) and c.func.attr in MODEL_MUTATORS:
                    mut.setdefault(c.func.attr, []).append(f"{k2}:{c.lineno}")
        allowed_stores = {}
        ok = not mut and not stores
        r2.add(f"effects|{root}", ok,
               f"call closure of {root.split('::')[1]} ({len(clo)} functions): model attribute stores {stores or 'none'}; "
               f"model-mutating calls {mut or 'none'}", f"pdb2pqr/{root.split('::')[0]}")
    ans = prog.func("biomolecule.py", "Biomolecule.apply_name_scheme").node
    st_attrs = sorted({n.attr for n in walk_no_defs(ans) if isinstance(n, ast.Attribute) and isinstance(n.ctx, ast.Store)})
    r2.add("name-scheme-stores", set(st_attrs) <= {"res_name", "name"}, f"apply_name_scheme stores only {st_attrs}",
           f"pdb2pqr/biomolecule.py:{ans.lineno} (Biomolecule.apply_name_scheme)")
    pba = prog.func("io.py", "print_biomolecule_atoms").node
    st_attrs = sorted({n.attr for n in walk_no_defs(pba) if isinstance(n, ast.Attribute) and isinstance(n.ctx, ast.Store)})
    r2.add("printer-stores", set(st_attrs) <= {"serial"}, f"print_biomolecule_atoms stores only {st_attrs}",
           f"pdb2pqr/io.py:{pba.lineno} (print_biomolecule_atoms)")

    # ------------------------------------------------------------------ R3
    r3 = rep.rule("R3", "naming scheme, headers and lines are produced after parameters and charges are final", floor=2)
    nt = prog.func("main.py", "non_trivial").node
    idx = {}
    for i, st in enumerate(nt.body):
        txt = U(st)
        if isinstance(st, ast.If) and any(isinstance(s, ast.Raise) for s in st.body) and ("charge_err" in U(st.test) or "noninteger_charge(" in U(st.test)):
            idx["charge-guard"] = i
        if isinstance(st, ast.If) and "args.ffout" in U(st.test) and "apply_name_scheme" in txt:
            idx["name-scheme"] = i
        if "apply_force_field" in txt and "apply_force_field" not in idx:
            idx["apply_force_field"] = i
        if isinstance(st, ast.Assign) and U(st.targets[0]) == "lines":
            idx["lines"] = i
        if "print_pqr_header" in txt and "header" not in idx:
            idx["header"] = i
    need = ["apply_force_field", "charge-guard", "name-scheme", "header", "lines"]
    have = [idx.get(k, -1) for k in need]
    r3.add("order", all(h >= 0 for h in have) and have == sorted(have), f"top-level order in non_trivial: {dict(zip(need, have))}",
           f"pdb2pqr/main.py:{nt.lineno} (non_trivial)")
    ans_calls = []
    for key, f in prog.funcs.items():
        for c in calls_in(f.node):
            if U(c.func).endswith(".apply_name_scheme"):
                ans_calls.append((f, c))
    okc = len(ans_calls) == 1 and ans_calls[0][0].key == "main.py::non_trivial" and \
        [U(t) for t, p in guards_of(ans_calls[0][1])] == ["args.ffout is not None"]
    r3.add("name-scheme-gated", okc, f"apply_name_scheme call sites: {[(f.key, [U(t) for t, _ in guards_of(c)]) for f, c in ans_calls]}",
           "pdb2pqr/main.py (non_trivial)")

    # ------------------------------------------------------------------ R4
    r4 = rep.rule("R4", "--drop-water filters the record list before the model is built", floor=1)
    md = prog.func("main.py", "main_driver").node
    pos = {}
    for i, st in enumerate(md.body):
        t = U(st)
        if "drop_water(" in t:
            pos["drop_water"] = i
        if "setup_molecule(" in t:
            pos["setup_molecule"] = i
        if "get_molecule(" in t:
            pos["get_molecule"] = i
    r4.add("before-setup", pos.get("get_molecule", 99) < pos.get("drop_water", -1) < pos.get("setup_molecule", -1),
           f"statement positions in main_driver: {pos}", f"pdb2pqr/main.py:{md.lineno} (main_driver)")

    # water filter semantics (shared with C07.R9): a record is dropped iff it is a coordinate record of a water residue
    from . import c07
    c07.rule_water(prog, rep)
    rep.rules[-1].rid = "R4b"
    for ob in rep.rules[-1].obs:
        ob.rule = "R4b"

    # ------------------------------------------------------------------ R6
    r6 = rep.rule("R6", "formatting flags do not move the numeric fields: column-based consumers read the same characters", floor=5)
    from . import c08
    from ..layout import offsets as _offsets
    eng, finals = c08.writer_layouts(prog)
    pos = {}
    for f in finals:
        for seg, a, b, c_, d in _offsets(f.result):
            if seg.kind == "fld" and seg.src in ("self.x", "self.y", "self.z", "self.ffcharge", "self.radius"):
                flag = f.refine.get("chainflag")
                pos.setdefault(seg.src, set()).add(((a, b, c_, d), None if flag is None else flag.value))
    _, cuts, _ = c08.insertion_points(prog)
    for src, vals in sorted(pos.items()):
        spans = {v[0] for v in vals}
        fixed = len(spans) == 1 and all(a == b and c_ == d for (a, b, c_, d) in spans)
        r6.add(f"position|{c08.FIELD_OF[src]}", fixed,
               f"{c08.FIELD_OF[src]} occupies columns {sorted(spans)} on all {len(finals)} formatter paths (chain flag on/off, chain/iCode present or not): "
               + ("one fixed position, so the fixed cuts of --whitespace and psize's column slice read whole fields" if fixed else
                  "the position depends on the path - --whitespace then cuts numbers in two and the written coordinates differ between option sets"),
               "pdb2pqr/structures.py (Atom.get_common_string_rep / get_pqr_string)")

    # ------------------------------------------------------------------ R5
    r5 = rep.rule("R5", "--neutraln/--neutralc reach only chain-terminal residues and shift the charge by exactly -1/+1", floor=20)
    for opt in ("neutraln", "neutralc"):
        readers = sorted({k for k, f in prog.funcs.items() for n in walk_no_defs(f.node)
                          if isinstance(n, ast.Attribute) and n.attr == opt and U(n.value) == "args" and isinstance(n.ctx, ast.Load)})
        r5.add(f"readers|{opt}", set(readers) <= {"main.py::check_options", "main.py::main_driver"}, f"args.{opt} read in {readers}",
               "pdb2pqr/main.py")
        # inside assign_termini the flag only chooses the patch variant of its own chain end: the function is evaluated on every chain
        # shape with the flag off and on (the other flag both ways) and the patches of all residues are compared
        from ..cells import Model
        from .c02 import TERMINI_SHAPES, build_chain
        at = prog.func("biomolecule.py", "Biomolecule.assign_termini").node
        model_ = Model(prog, Tables(prog.root))
        bad = []
        n_cmp = 0
        for sname, names in TERMINI_SHAPES.items():
            for other in (False, True):
                res = {}
                for val in (False, True):
                    chain = build_chain(prog, model_, names)
                    kw = {"neutraln": val, "neutralc": other} if opt == "neutraln" else {"neutraln": other, "neutralc": val}
                    model_.assign_termini(chain, dist=3.8, **kw)
                    res[val] = [list(r["patches"]) for r in chain]
                n_cmp += 1
                polymer = [k for k, n in enumerate(names) if n not in ("WAT", "LIG", "NME?")]
                own = (polymer[0] if opt == "neutraln" else polymer[-1]) if polymer else None
                for k, (p0, p1) in enumerate(zip(res[False], res[True])):
                    if k == own:
                        fam = ("NTERM", "NEUTRAL-NTERM") if opt == "neutraln" else ("CTERM", "NEUTRAL-CTERM")
                        rest0 = [p for p in p0 if p not in fam]
                        rest1 = [p for p in p1 if p not in fam]
                        if rest0 != rest1:
                            bad.append(f"{sname}: residue {k} ({names[k]}) also changes {rest0} -> {rest1}")
                        if fam[0] in p0 and fam[1] not in p1 and names[k] not in NUCLEIC:
                            bad.append(f"{sname}: --{opt} leaves residue {k} ({names[k]}) with {p1} (still charged)")
                    elif p0 != p1:
                        bad.append(f"{sname}: --{opt} changes residue {k} ({names[k]}): {p0} -> {p1}")
        r5.add(f"assign_termini|{opt}", n_cmp > 0 and not bad,
               f"{n_cmp} chain shapes x other flag: the flag only switches the {'N' if opt == 'neutraln' else 'C'}-terminal patch of the chain's own "
               f"{'first' if opt == 'neutraln' else 'last'} polymer residue to its neutral variant" if not bad else f"{bad[:4]}",
               f"pdb2pqr/biomolecule.py:{at.lineno} (Biomolecule.assign_termini)")
        st = prog.func("biomolecule.py", "Biomolecule.set_termini").node
        fw = [U(k.value) for c in calls_in(st) if U(c.func) == "self.assign_termini" for k in c.keywords if k.arg == opt]
        other = [U(stmt_of(n))[:40] for n in walk_no_defs(st) if isinstance(n, ast.Name) and n.id == opt and isinstance(n.ctx, ast.Load)
                 and not isinstance(parent(n), ast.keyword)]
        r5.add(f"set_termini|{opt}", bool(fw) and all(x == opt for x in fw) and not other,
               f"set_termini only forwards {opt} to assign_termini ({len(fw)} call(s))", f"pdb2pqr/biomolecule.py:{st.lineno} (set_termini)")
    # charge shifts in PARSE (the only force field check_options admits for these options)
    t = Tables(prog.root)
    model = Model(prog, t)
    ffmap = t.ff("parse")
    cells = {(c.res, c.state, c.pos): c for c in amino_cells(model)}
    for R in AMINO:
        state = "default" if R != "HIS" else "HIS(default)"
        for a, b, shift, label in (("N", "nN", -1, "neutraln"), ("C", "nC", +1, "neutralc")):
            ca, cb = cells[(R, state, a)], cells[(R, state, b)]
            sa, _, qa = ff_status(ffmap, ca)
            sb, _, qb = ff_status(ffmap, cb)
            if R == "PRO" and label == "neutraln":
                # an N-terminal proline is already looked up through the neutral atom set (C01.R5); the option is a no-op
                r5.add(f"shift|{label}:{R}", ca.lookup == cb.lookup, f"{label} on N-terminal PRO: lookup {ca.lookup} -> {cb.lookup} (no change)",
                       "pdb2pqr/dat/PARSE.DAT")
                continue
            ok = sa == "full" and sb == "full" and abs((qb - qa) - shift) <= 5e-4
            r5.add(f"shift|{label}:{R}", ok,
                   f"PARSE {ca.lookup} ({qa if qa is None else round(qa, 4)}) -> {cb.lookup} ({qb if qb is None else round(qb, 4)}): "
                   f"shift {None if qa is None or qb is None else round(qb - qa, 4)}, required {shift:+d}", "pdb2pqr/dat/PARSE.DAT")
    co = prog.func("main.py", "check_options").node
    wco = f"pdb2pqr/main.py:{co.lineno} (check_options)"
    try:
        verdicts = parse_only_on_models(prog)
    except AnalysisError:
        verdicts = None
    for opt in ("neutraln", "neutralc"):
        if verdicts is not None:
            bad = [v for v in verdicts if v[0] == opt]
            r5.add(f"parse-only|{opt}", not bad, f"check_options on {MODEL_NAMESPACES} model namespaces rejects --{opt} exactly when the force field is not "
                   f"PARSE (any letter case)" + (f"; wrong for {bad[0][1]}" if bad else ""), wco)
            continue
        tests = [s for s in co.body if isinstance(s, ast.If) and f"args.{opt}" in U(s.test)]
        ok = bool(tests) and "parse" in U(tests[0].test) and any(isinstance(x, ast.Raise) for x in tests[0].body)
        r5.add(f"parse-only|{opt}", ok, f"check_options rejects --{opt} unless the force field is PARSE", wco)
    rep.guarded(rule_whitespace_keeps_every_record, prog, rep, "R8")


MODEL_NAMESPACES = 3 * 5 * 3


def parse_only_on_models(prog):
    """check_options evaluated on model namespaces: one neutral-terminus option set at a time (and none), every force-field spelling class,
    three pH values.  -> [(option, description of the namespace)] where acceptance is wrong."""
    from ..guards import Flow, Obj
    from ..objinterp import ObjRunner
    wrong = []
    for nn, nc in ((True, False), (False, True), (False, False)):
        for ff in (None, "parse", "PARSE", "amber", "CHARMM"):
            for ph in (0.0, 7.0, 14.0):
                run = ObjRunner(prog, "main.py")
                args = Obj({"__class__": "<namespace>", "ph": ph, "neutraln": nn, "neutralc": nc, "ff": ff})
                try:
                    run.call_function("main.py", "check_options", args)
                    raised = False
                except Flow as fl:
                    if fl.kind != "raise":
                        raise AnalysisError("check_options: stray control flow") from fl
                    raised = True
                want = (nn or nc) and (ff is None or ff.lower() != "parse")
                if raised != want:
                    what = f"neutraln={nn} neutralc={nc} ff={ff!r} ph={ph}: {'rejected' if raised else 'accepted'}"
                    wrong.append(("neutraln" if nn else "neutralc" if nc else "neutraln", what))
                    if not (nn or nc):
                        wrong.append(("neutralc", what))
    return wrong


def rule_whitespace_keeps_every_record(prog, rep, rid="R8"):
    """print_pqr is evaluated on the model output lines (records with short and five-digit serial numbers, ATOM and HETATM, with and without a
    chain identifier, a residue called TER, an atom called END) with and without --whitespace, for PDB and mmCIF input: the option may only
    insert blanks - the same records, in the same order, with the same non-blank characters."""
    from .shared import pqr_model, written_file
    r = rep.rule(rid, "--whitespace only inserts blanks: the same records, in the same order, with the same characters", floor=2)
    fn = prog.func("main.py", "print_pqr")
    where = f"pdb2pqr/main.py:{fn.node.lineno} (print_pqr)"
    extra = (("HETATM", 10432, "O", "HOH", "B", 2001, None, 1.0, 2.0, 3.0, -0.834, 1.6612), ("HETATM", 99999, "H1", "HOH", None, 2001, None, -1.0, -2.0, -3.0, 0.417, 0.0),
             ("ATOM", 10433, "HT1", "TER", "A", 1, None, 4.0, 5.0, 6.0, 0.33, 0.2245), ("ATOM", 100000, "END", "UNK", None, 12, None, 7.0, 8.0, 9.0, 0.0, 1.0))
    model, _ = pqr_model(prog, extra)
    lines = [ln if ln.endswith("\n") else ln + "\n" for ln, w in model if w is not None]
    squeeze = lambda s_: "".join(s_.split())  # noqa: E731
    for is_cif in (False, True):
        tag = "mmCIF input" if is_cif else "PDB input"
        plain = [x for x in written_file(prog, lines, False, is_cif) if x.strip() and not x.startswith(("REMARK", "TER", "END", "#"))]
        spaced = [x for x in written_file(prog, lines, True, is_cif) if x.strip() and not x.startswith(("REMARK", "TER", "END", "#"))]
        lost = [p.rstrip() for p in plain if squeeze(p) not in {squeeze(s_) for s_ in spaced}]
        order_ok = [squeeze(p) for p in plain] == [squeeze(s_) for s_ in spaced]
        r.add(f"records|{tag}", not lost and order_ok and len(plain) >= len(lines),
              f"{tag}: {len(lines)} model records; written without the option {len(plain)}, with it {len(spaced)}" +
              (f"; records that disappear or change under --whitespace: {lost[:3]}" if lost else "" if order_ok else "; the order or the characters of the records differ"), where)
