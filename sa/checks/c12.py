"""C12 -- runs succeed on well-formed input, otherwise fail loudly leaving no output.

Failure side: write ordering, non-interception of explicit errors, checks first, failure
signals reach the top, empty-structure guard.  Success side: only the table-level necessary
condition (default-state cells full and integral wherever the force field defines the
residue class); the rest of the success side is not decided.
"""
from __future__ import annotations

import ast

from ..callgraph import CallGraph
from ..cells import Model, amino_cells, ff_status, nucleic_cells
from ..core import AnalysisError, U, calls_in, guards_of, iter_stmts, parent, walk_no_defs
from ..raises import RaiseSets, always_reraises, catches, handler_classes
from ..tables import AMINO, FFS, NUCLEIC, Tables

WRITE_MODES = ("w", "a", "x", "+")
# Reviewed handlers that intercept an explicit pipeline error without re-raising on every path.
ALLOW_R2 = {
    ("pdb.py::read_pdb", "KeyError,ValueError"):
        "tolerant arm for non-coordinate records only; for ATOM/HETATM it re-raises (decided by C07.R2)",
    ("cif.py::atom_site", "ValueError"):
        "a MODEL record that fails to parse is logged and reported in the error list; coordinate records are built outside it",
}


PURE_BUILTINS = {"len", "zip", "range", "enumerate", "str", "repr", "format", "sorted", "tuple", "list", "min", "max", "int", "float", "bool",
                 "reversed", "isinstance", "iter", "next", "sum", "any", "all", "map", "filter"}
STR_METHODS = {"join", "strip", "rstrip", "lstrip", "ljust", "rjust", "center", "format", "replace", "split", "startswith", "endswith",
               "upper", "lower", "splitlines", "expandtabs", "zfill", "partition", "rpartition"}


def deferred_raise(h, trynode, fn):
    """Handler idiom 'remember the failure, raise later': the handler only assigns a falsy constant to a local name and a
    raise after the try statement is guarded by that name being falsy.  Returns (name, line of the raise) or None."""
    names = []
    for st in h.body:
        if isinstance(st, ast.Assign) and len(st.targets) == 1 and isinstance(st.targets[0], ast.Name) \
                and isinstance(st.value, ast.Constant) and not st.value.value:
            names.append(st.targets[0].id)
        elif isinstance(st, ast.Expr) and isinstance(st.value, ast.Call) and U(st.value.func).startswith("_LOGGER."):
            continue
        else:
            return None
    # order of statements by their place in the function (not by line numbers: inlined helpers carry synthetic positions)
    order = {id(x): i for i, x in enumerate(iter_stmts(fn.body))}
    end = max(order[id(x)] for x in iter_stmts([trynode]) if id(x) in order)
    for st in iter_stmts(fn.body):
        if not isinstance(st, ast.Raise) or order[id(st)] <= end:
            continue
        for test, pol in guards_of(st, fn):
            txt = U(test)
            for v in names:
                if (txt == v and not pol) or (txt in (f"not {v}", f"{v} is None") and pol):
                    # the name must not be re-bound between the handler and the raise
                    rebinds = [a for a in iter_stmts(fn.body) if isinstance(a, ast.Assign) and end < order[id(a)] < order[id(st)]
                               and any(isinstance(t_, ast.Name) and t_.id == v for t_ in a.targets)]
                    if not rebinds:
                        return v, st.lineno
    return None


def check(prog, rep):
    rep.explanation = (
        "call graph + effect analysis of file opens (mode, path aliasing, position relative to the pipeline), "
        "inter-procedural raise-set analysis of every handler in reachable code, dominance-by-position of the "
        "argument/file checks and of the empty-structure guard, and the table-level necessary condition for success"
    )
    rep.not_decided += [
        "the rest of the success side ('every complete standard structure is processed successfully'): repair, "
        "debumping and optimisation control flow depend on geometry; R5 is only a necessary condition",
        "atomicity against an OS-level write failure", "a log file whose name collides with the output path",
    ]
    g = CallGraph(prog)
    reach = g.reachable(["main.py::main_driver"])
    rs = RaiseSets(prog, g)
    rep.analysed["callgraph"] = g.summary()
    rep.analysed["reachable_from_main_driver"] = len(reach)
    md = prog.func("main.py", "main_driver").node
    wmd = f"pdb2pqr/main.py:{md.lineno} (main_driver)"

    # ------------------------------------------------------------------ R1
    r1 = rep.rule("R1", "the output path is opened for writing only after the pipeline has returned", floor=4)
    opens = []
    for key, f in prog.funcs.items():
        for c in calls_in(f.node):
            nm = U(c.func)
            mode = None
            if nm == "open" or nm.endswith(".open"):
                m = c.args[1] if len(c.args) > 1 else next((k.value for k in c.keywords if k.arg == "mode"), None)
                mode = m.value if isinstance(m, ast.Constant) else ("?" if m is not None else "r")
            elif nm.endswith((".write_text", ".write_bytes", ".touch", ".unlink", ".rename")) or nm in ("shutil.copy", "os.remove", "os.rename"):
                mode = "w"
            elif nm.endswith("FileHandler"):
                mode = "a"
            if mode and any(ch in mode for ch in WRITE_MODES):
                opens.append((key, f, c, mode))
    r1.info["write_opens_in_package"] = [f"{k}:{c.lineno}" for k, _, c, _ in opens]
    for key, f, c, mode in opens:
        if key not in reach:
            continue
        path = U(c.args[0]) if c.args else "?"
        if c.args and isinstance(c.args[0], ast.Name):
            # resolve a local alias bound exactly once
            defs = [s for s in iter_stmts(f.node.body) if isinstance(s, ast.Assign) and any(isinstance(t, ast.Name) and t.id == path for t in s.targets)]
            if len(defs) == 1:
                path = U(defs[0].value)
        where = f"pdb2pqr/{f.module.rel}:{c.lineno} ({f.qual})"
        if key == "main.py::print_pqr":
            r1.add(f"open|{key}:{path}", path == "args.output_pqr", f"print_pqr opens {path} with mode {mode!r}", where)
        elif "output_pqr" in path:
            r1.bad(f"open|{key}:{path}", "the output PQR path is opened for writing outside print_pqr", where)
        else:
            r1.ok(f"open|{key}:{path}", f"writes {path} (mode {mode!r}); not the output PQR path", where)
    # position of the print_pqr call in main_driver
    top = md.body
    pidx = [i for i, st in enumerate(top) if any(U(c.func) == "print_pqr" for c in calls_in(st))]
    if len(pidx) != 1 or not isinstance(top[pidx[0]], ast.Expr):
        r1.bad("print_pqr|single-top-level-call", f"print_pqr is called {len(pidx)} time(s) at top level of main_driver", wmd)
    else:
        pi = pidx[0]
        r1.ok("print_pqr|single-top-level-call", "one unconditional top-level call", f"pdb2pqr/main.py:{top[pi].lineno} (main_driver)")
        # results assigned on all arms before it
        before = top[:pi]
        arms_ok = False
        for st in before:
            if isinstance(st, ast.If) and st.orelse:
                def assigns(stmts):
                    return any(isinstance(s, ast.Assign) and U(s.targets[0]) == "results" for s in iter_stmts(stmts))
                if assigns(st.body) and assigns(st.orelse):
                    arms_ok = True
        uses = {U(k.value) for c in calls_in(top[pi]) for k in c.keywords}
        r1.add("print_pqr|after-results", arms_ok and any(u.startswith("results[") for u in uses),
               "every arm preceding the call assigns 'results', and the call prints results[...]", wmd)
        pipeline_calls = {"non_trivial", "setup_molecule", "get_molecule", "get_definitions", "set_termini", "update_bonds"}
        early = [U(c.func) for st in top[pi + 1:] for c in calls_in(st) if U(c.func).split(".")[-1] in pipeline_calls]
        r1.add("print_pqr|nothing-after", not early, f"pipeline-stage calls after print_pqr: {early or 'none'}", wmd)
        # no other call to print_pqr anywhere reachable
        others = [k for k in reach for c in calls_in(prog.funcs[k].node) if U(c.func).split(".")[-1] == "print_pqr" and k != "main.py::main_driver"]
        r1.add("print_pqr|only-caller", not others, f"other callers of print_pqr: {others or 'none'}", wmd)
    # inside the with-block: only string operations, writes and logging
    pp = prog.func("main.py", "print_pqr").node
    withs = [s for s in pp.body if isinstance(s, ast.With)]
    bad = []
    if withs:
        in_block = {id(c) for c in calls_in(ast.Module(body=withs[0].body, type_ignores=[]))}
        resolved = {id(call): callees for call, callees in g.sites["main.py::print_pqr"]}
        for c in calls_in(ast.Module(body=withs[0].body, type_ignores=[])):
            nm = U(c.func)
            last = nm.split(".")[-1]
            if nm.startswith("_LOGGER.") or last == "write":
                continue
            callees = resolved.get(id(c)) or []
            if callees:
                esc = sorted({cls for ck in callees for cls, _ in rs.escaping.get(ck, ())})
                if esc:
                    bad.append(f"{nm} (can raise {esc[:3]})")
                continue
            if (isinstance(c.func, ast.Name) and last in PURE_BUILTINS) or (isinstance(c.func, ast.Attribute) and last in STR_METHODS):
                continue
            bad.append(nm)
        raises = [s for s in iter_stmts(withs[0].body) if isinstance(s, ast.Raise)]
        r1.add("print_pqr|write-block", not bad and not raises, f"calls inside the open block that can raise or cannot be resolved: {bad or 'none'}; "
               f"explicit raises: {len(raises)}", f"pdb2pqr/main.py:{withs[0].lineno} (print_pqr)")
    else:
        r1.bad("print_pqr|write-block", "print_pqr does not write inside a with-open block", f"pdb2pqr/main.py:{pp.lineno} (print_pqr)")

    # ------------------------------------------------------------------ R2
    r2 = rep.rule("R2", "explicit pipeline errors are never intercepted without re-raising", floor=20)
    n_handlers = 0
    for key in sorted(reach):
        f = prog.funcs[key]
        for t in walk_no_defs(f.node):
            if not isinstance(t, ast.Try):
                continue
            br = rs.body_raises(key, t)
            for h in t.handlers:
                n_handlers += 1
                caught = sorted({f"{c} from {o.split('::')[1]}" for c, o in br if catches(h, c)})
                hk = ",".join(handler_classes(h))
                k = f"handler|{key}:{hk}"
                where = f"pdb2pqr/{f.module.rel}:{h.lineno} ({f.qual})"
                if not caught:
                    r2.ok(k, "no explicit pipeline error can arrive here (plain lookups/conversions)", where)
                elif always_reraises(h):
                    r2.ok(k, f"catches {caught[:3]} and re-raises on every path", where)
                elif deferred_raise(h, t, f.node):
                    r2.ok(k, f"catches {caught[:2]}, records the failure in {deferred_raise(h, t, f.node)[0]!r} and raises at line "
                          f"{deferred_raise(h, t, f.node)[1]} when no alternative was given (deferred re-raise)", where)
                elif (key, hk) in ALLOW_R2:
                    r2.ok(k, f"reviewed: {ALLOW_R2[(key, hk)]} (catches {caught[:2]})", where)
                else:
                    r2.bad(k, f"catches {caught[:4]} and can fall through without raising: the failure is swallowed and the "
                           "run goes on to write output", where)
    r2.info["handlers_classified"] = n_handlers

    # ------------------------------------------------------------------ R3
    r3 = rep.rule("R3", "argument and file checks precede all work", floor=3)
    order = {}
    for i, st in enumerate(top):
        for c in calls_in(st):
            nm = U(c.func).split(".")[-1]
            if nm in ("transform_arguments", "check_files", "check_options", "get_definitions", "get_molecule", "setup_molecule",
                      "non_trivial", "print_pqr") and nm not in order:
                order[nm] = (i, isinstance(st, (ast.Expr, ast.Assign)))
    checks = ["transform_arguments", "check_files", "check_options"]
    work = ["get_definitions", "get_molecule", "setup_molecule"]
    for c in checks:
        ok = c in order and order[c][1] and all(w in order and order[c][0] < order[w][0] for w in work)
        r3.add(f"first|{c}", ok, f"{c} is an unconditional top-level statement before {work}: positions {({k: v[0] for k, v in order.items()})}", wmd)
    early_ret = [s.lineno for s in iter_stmts(top[: order.get('print_pqr', (len(top),))[0]]) if isinstance(s, ast.Return)]
    r3.add("no-early-return", not early_ret, f"returns before the output stage: {early_ret or 'none'}", wmd)

    # check_options on model option sets: the value tested is the one the pipeline uses (the destination of --with-ph; PROPKA's parser adds an
    # option of its own that differs from it only in case)
    from ..guards import Flow, Obj
    from ..objinterp import ObjRunner
    dests = [kw_.value.value for c in ast.walk(prog.module("main.py").tree) if isinstance(c, ast.Call) and U(c.func).endswith("add_argument") and c.args
             and isinstance(c.args[0], ast.Constant) and c.args[0].value == "--with-ph" for kw_ in c.keywords if kw_.arg == "dest" and isinstance(kw_.value, ast.Constant)]
    if len(dests) != 1:
        raise AnalysisError(f"main.py: destination of --with-ph not found ({dests})")
    ph_dest = dests[0]
    wco = f"pdb2pqr/main.py:{prog.func('main.py', 'check_options').node.lineno} (check_options)"
    base = {"ff": "AMBER", "neutraln": False, "neutralc": False, "pH": 7.0, "ph": 7.0, "thermophiles": None, "chains": None, "alignment": None, "mutations": None,
            "mutator": None, "mutator_options": None, "reuse_ligand_mol2_file": False, "keep_protons": False, "titrate_only": None, "display_coupled_residues": False,
            "protonate_all": False}
    cases = [("pH 7", {ph_dest: 7.0}, False), ("pH 0", {ph_dest: 0.0}, False), ("pH 14", {ph_dest: 14.0}, False), ("pH 15", {ph_dest: 15.0}, True),
             ("pH -2", {ph_dest: -2.0}, True), ("pH 14.5", {ph_dest: 14.5}, True), ("--neutraln with AMBER", {"neutraln": True}, True),
             ("--neutralc without a force field", {"neutralc": True, "ff": None}, True), ("--neutraln --neutralc with parse", {"neutraln": True, "neutralc": True, "ff": "parse"}, False),
             ("--neutralc with PARSE", {"neutralc": True, "ff": "PARSE"}, False)]
    for label, over, refused in cases:
        ns = Obj({"__class__": "Namespace", **base, **over})
        run = ObjRunner(prog, "main.py")
        try:
            run.call_function("main.py", "check_options", ns)
            outcome = "accepted"
        except Flow as fl:
            outcome = f"refused with {fl.value}"
        r3.add(f"options|{label}", outcome.startswith("refused") == refused, f"option set {label} ({over}): {outcome}" +
               ("" if outcome.startswith("refused") == refused else " -- expected " + ("a refusal before any work" if refused else "acceptance")), wco)

    # ------------------------------------------------------------------ R4
    r4 = rep.rule("R4", "failure signals exist, are reachable and arrive at the top as errors", floor=6)
    esc_md = rs.escaping["main.py::main_driver"]
    esc_nt = rs.escaping["main.py::non_trivial"]
    signals = [
        ("biomolecule.py::Biomolecule.repair_heavy", "ValueError", "structure cannot be rebuilt"),
        ("biomolecule.py::Biomolecule.set_reference_distance", "ValueError", "gap / missing CA"),
        ("main.py::is_repairable", "ValueError", "no heavy atoms"),
        ("main.py::non_trivial", "ValueError", "non-integral total charge / debump failure"),
        ("main.py::check_files", None, "unusable file combination"),
        ("main.py::check_options", None, "unusable option combination"),
        ("io.py::get_molecule", "RuntimeError", "empty parse"),
        ("main.py::main_driver", "RuntimeError", "no coordinate records"),
    ]
    for origin, cls, what in signals:
        if origin not in prog.funcs:
            r4.bad(f"signal|{origin}", f"function raising '{what}' not found")
            continue
        own = {c for c, o in rs.escaping[origin] if o == origin}
        has = bool(own) if cls is None else cls in own
        arrives = any(o == origin for c, o in esc_md) or (
            any(o == origin for c, o in esc_nt) and cls == "ValueError")  # converted to RuntimeError by main_driver (R2)
        r4.add(f"signal|{origin}", has and arrives and origin in reach | {"main.py::main_driver"},
               f"{what}: raises {sorted(own) or 'nothing'}; "
               f"{'reaches the top of main_driver' if arrives else 'does NOT reach the top (intercepted or unreachable)'}",
               f"pdb2pqr/{origin.split('::')[0]}")
    # main_driver's conversion handler
    conv = [h for t in walk_no_defs(md) if isinstance(t, ast.Try) for h in t.handlers]
    okc = bool(conv) and all(always_reraises(h) for h in conv)
    r4.add("conversion", okc, f"main_driver handlers {[','.join(handler_classes(h)) for h in conv]} re-raise on every path", wmd)

    from . import c02, shared
    r8 = rep.rule("R8", "the integrality guard is a must-pass placed after every parameter assignment", floor=4)
    c02.check_guard(prog, r8)
    shared.rule_patch_isolation(prog, rep, "R7")
    from .c04 import rule_gap_is_loud
    rep.guarded(rule_gap_is_loud, prog, rep, "R9")
    rep.guarded(rule_nothing_to_parameterise_is_loud, prog, rep, "R10")
    rep.guarded(shared.rule_no_runtime_module_state, prog, rep, "R11", "every run reads and validates its own input files: the readers keep no table of files parsed earlier",
                ["forcefield.py", "definitions.py", "io.py", "pdb.py", "cif.py", "main.py", "ligand/mol2.py"],
                "a file that was valid when it was first read is not read again, so a later run with a file that is now missing or malformed succeeds and writes output", 1)
    # ------------------------------------------------------------------ R6
    r6 = rep.rule("R6", "a structure without atoms fails before any output on every path", floor=1)
    pi = order.get("print_pqr", (None,))[0]
    guard = None
    for i, st in enumerate(top[: pi or 0]):
        if isinstance(st, ast.If) and any(isinstance(s, ast.Raise) for s in st.body):
            t = U(st.test)
            if (".atoms" in t or "num_heavy" in t or "num_atoms" in t) and ("== 0" in t or "not " in t or "< 1" in t):
                guard = (i, st)
    sm = order.get("setup_molecule", (None,))[0]
    r6.add("empty-structure-guard", guard is not None and sm is not None and guard[0] > sm,
           f"top-level guard {U(guard[1].test)!r} raises after setup_molecule and before every output arm" if guard else
           "no unconditional guard between setup_molecule and print_pqr raises for an atom-less structure (the --clean and "
           "--assign-only arms never call is_repairable)", wmd)

    # ------------------------------------------------------------------ R5
    r5 = rep.rule("R5", "necessary condition for success: default-state cells are full and integral wherever the force "
                        "field defines the residue class", floor=300)
    t = Tables(prog.root)
    model = Model(prog, t)
    cells = amino_cells(model)
    ncells = nucleic_cells(model)
    for ff in FFS:
        ffmap = t.ff(ff)
        for c in cells:
            if c.pos not in ("mid", "N", "C") or c.state not in ("default", "HIS(default)", "HIS(ND1 donor)", "HIS(NE2 donor)", "CYX"):
                continue
            mid = next(x for x in cells if x.res == c.res and x.pos == "mid" and x.state == c.state)
            if ff_status(ffmap, mid)[0] != "full":
                continue  # the force field does not define this residue class at all
            st, miss, q = ff_status(ffmap, c)
            ok = st == "full" and abs(q - c.expected) <= 5e-4
            r5.add(f"default|{ff}:{c.lookup}", ok,
                   f"{ff.upper()} defines {mid.lookup} but {c.lookup} ({c.res} at position {c.pos}) is {st}"
                   + (f", missing {miss[:4]}" if miss else "") + (f", sum {q:+.4f} vs {c.expected:+d}" if q is not None else ""),
                   f"pdb2pqr/dat/{ff.upper()}.DAT")
        for c in ncells:
            if c.pos not in ("mid", "5", "3"):
                continue
            mid = next(x for x in ncells if x.res == c.res and x.pos == "mid")
            if ff_status(ffmap, mid)[0] != "full":
                continue
            st, miss, q = ff_status(ffmap, c)
            r5.add(f"default|{ff}:{c.lookup}", st == "full", f"{ff.upper()} defines {mid.lookup}; {c.lookup} is {st}"
                   + (f", missing {miss[:4]}" if miss else ""), f"pdb2pqr/dat/{ff.upper()}.DAT")
    # option-selected cells without titration: --neutraln/--neutralc under PARSE
    ffmap = t.ff("parse")
    for c in cells:
        if c.pos in ("nN", "nC") and c.state in ("default", "HIS(default)"):
            st, miss, q = ff_status(ffmap, c)
            ok = st == "full" and abs(q - c.expected) <= 5e-4
            r5.add(f"option|parse:{c.lookup}:{c.pos}", ok, f"PARSE {c.lookup} is {st}" + (f", sum {q:+.4f} vs {c.expected:+d}" if q is not None else ""),
                   "pdb2pqr/dat/PARSE.DAT")


def rule_nothing_to_parameterise_is_loud(prog, rep, rid="R10"):
    """main.is_repairable (with the counts it reads from the Biomolecule) is evaluated on model structures: a structure in which no residue is
    one pdb2pqr has a template for (only hetero groups, ions, waters, unknown residue names) and no ligand file must stop the run with an
    error - otherwise every atom stays without parameters and a PQR file with no atom records is written; a complete peptide needs no repair;
    a peptide that lost one side-chain atom is repairable."""
    from ..guards import Flow, Obj
    from ..objinterp import ObjRunner
    r = rep.rule(rid, "a structure without any residue pdb2pqr knows is refused (no empty output); complete and slightly incomplete peptides go on", floor=3)
    fn = prog.func("main.py", "is_repairable")
    where = f"pdb2pqr/main.py:{fn.node.lineno} (is_repairable)"

    def atom(nm):
        return Obj({"__class__": "Atom", "name": nm, "bonds": [], "__props__": {"is_hydrogen": lambda a_: a_["name"].startswith("H")}})

    def residue(cls, name, names, refnames=None):
        amap = {n: atom(n) for n in names}
        ref = None if refnames is None else Obj({"__class__": "DefinitionResidue", "name": name, "map": {n: Obj({"__class__": "DefinitionAtom", "name": n}) for n in refnames}})
        return Obj({"__class__": cls, "name": name, "atoms": list(amap.values()), "map": amap, "reference": ref, "missing": [], "res_seq": 1, "chain_id": "A", "ins_code": ""})

    ala = ["N", "CA", "C", "O", "CB", "H", "HA", "HB1", "HB2", "HB3"]
    lys = ["N", "CA", "C", "O", "CB", "CG", "CD", "CE", "NZ", "H", "HA"]
    cases = {
        "hetero groups, an ion and waters only": ([residue("LIG", "GOL", ["C1", "O1", "C2", "O2", "C3", "O3"]), residue("LIG", "SO4", ["S", "O1", "O2", "O3", "O4"]),
                                                   residue("LIG", "ZN", ["ZN"]), residue("WAT", "HOH", ["O"]), residue("WAT", "HOH", ["O"])], False, "raise"),
        "the same with a ligand file": ([residue("LIG", "GOL", ["C1", "O1", "C2", "O2", "C3", "O3"]), residue("WAT", "HOH", ["O"])], True, False),
        "a complete peptide with a water and an ion": ([residue("ALA", "ALA", ala[:5], ala), residue("LYS", "LYS", lys[:9], lys), residue("ALA", "ALA", ala[:5], ala),
                                                        residue("WAT", "HOH", ["O"]), residue("LIG", "ZN", ["ZN"])], False, False),
        "a peptide of four residues missing one side-chain atom": ([residue("ALA", "ALA", ala[:5], ala), residue("LYS", "LYS", lys[:8], lys), residue("ALA", "ALA", ala[:5], ala),
                                                                    residue("LYS", "LYS", lys[:9], lys), residue("LIG", "SO4", ["S", "O1", "O2", "O3", "O4"])], False, True),
    }
    for label, (residues, has_ligand, want) in cases.items():
        atoms = [a for res in residues for a in res["atoms"]]
        bio = Obj({"__class__": "Biomolecule", "residues": residues, "atoms": atoms, "chains": []})
        run = ObjRunner(prog, "main.py")
        try:
            got = run.call_function("main.py", "is_repairable", bio, has_ligand)
        except Flow as fl:
            got = "raise" if fl.kind == "raise" else f"{fl.kind}"
            detail = str(fl.value)[:80]
        else:
            detail = ""
        r.add(f"repairable|{label}", got == want, f"{label}: is_repairable -> {got!r} {detail}; expected {want!r}" +
              ("" if got == want or want != "raise" else " (the run goes on with nothing it can parameterise and writes a file without atoms)"), where)
