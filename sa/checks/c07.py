"""C07 -- every coordinate record of the first model of a PDB input is ingested."""
from __future__ import annotations

import ast

from ..core import (AnalysisError, U, calls_in, enclosing_loops, guards_of, in_handler, iter_stmts, parent, terminates,
                    try_fold, walk_no_defs)
from ..guards import Flow, Interp, Unknown

WWPDB = {  # wwPDB format 3.3, ATOM/HETATM, 0-based half-open
    "serial": (6, 11), "name": (12, 16), "alt_loc": (16, 17), "res_name": (17, 20), "chain_id": (21, 22),
    "res_seq": (22, 26), "ins_code": (26, 27), "x": (30, 38), "y": (38, 46), "z": (46, 54), "occupancy": (54, 60),
    "temp_factor": (60, 66), "seg_id": (72, 76), "element": (76, 78), "charge": (78, 80),
}
MANDATORY = ["serial", "name", "alt_loc", "res_name", "chain_id", "res_seq", "ins_code", "x", "y", "z"]


_PROBE_CACHE = {}


def probed_columns(prog, cls_):
    """Which columns of the line each attribute of a record class depends on, found by evaluation: the constructor is interpreted on a
    full-width model record and on 80 variants that differ from it in one column each; an attribute belongs to the columns whose change
    changes it.  Independent of how the constructor is written (slices, helpers, record tuples).
    -> {attr: ((a, b), tolerant, 0)} like record_slices, or raises AnalysisError."""
    key = (id(prog), cls_)
    if key in _PROBE_CACHE:
        return _PROBE_CACHE[key]
    from ..guards import Flow
    from ..objinterp import ObjRunner
    base = f"{cls_:<6}12345 ABCDEFGH I6789J   1234.5672345.6783456.789111.22333.44      KLMNOPQR"
    assert len(base) == 80
    run = ObjRunner(prog, "pdb.py")

    def read(line):
        obj = run.new(cls_, line + "\n")
        return {k: v for k, v in obj.items() if not k.startswith("__")}

    try:
        ref = read(base)
    except Flow as fl:
        raise AnalysisError(f"{cls_}(line) stops with {fl.value} on the probe record") from None
    cols = {}
    for c in range(6, 80):
        ch = base[c]
        new = str((int(ch) + 1) % 10) if ch.isdigit() else "7" if ch in ". " else ("Y" if ch == "Z" else "Z")
        try:
            got = read(base[:c] + new + base[c + 1:])
        except Flow:
            continue  # the variant is rejected: the column is read, by a strict field (found through its other columns)
        for k in set(ref) | set(got):
            if ref.get(k) != got.get(k):
                cols.setdefault(k, []).append(c)
    out = {}
    for attr, cs in cols.items():
        if cs != list(range(cs[0], cs[-1] + 1)):
            # blank padding inside the span may be insensitive (a blank turned into a digit inside a text field always shows); keep the hull
            pass
        # strictness: a letter inside the field's span must not be silently replaced by a default
        tolerant = False
        if isinstance(ref.get(attr), (int, float)) and not isinstance(ref.get(attr), bool):
            mid = cs[len(cs) // 2]
            try:
                got = read(base[:mid] + "X" + base[mid + 1:])
                tolerant = True  # accepted: the bad value was replaced by something
            except Flow:
                tolerant = False
        out[attr] = ((cs[0], cs[-1] + 1), tolerant, 0)
    _PROBE_CACHE[key] = out
    return out


def record_slices(fn, linevar="line"):
    """attr -> ((a, b), tolerant?) for every `self.attr = conv(line[a:b]...)` in a record constructor."""
    out = {}
    for st in iter_stmts(fn.body):
        if not (isinstance(st, ast.Assign) and len(st.targets) == 1):
            continue
        tg = st.targets[0]
        if not (isinstance(tg, ast.Attribute) and U(tg.value) == "self"):
            continue
        subs = [n for n in ast.walk(st.value) if isinstance(n, ast.Subscript) and U(n.value) == linevar]
        if len(subs) != 1:
            continue
        sl = subs[0].slice
        if isinstance(sl, ast.Slice):
            a = try_fold(sl.lower) if sl.lower else 0
            b = try_fold(sl.upper) if sl.upper else None
        else:
            a = try_fold(sl)
            b = a + 1 if isinstance(a, int) else None
        # tolerant = inside a try whose matching handler does not re-raise
        tolerant = False
        p = parent(st)
        while p is not None and p is not fn:
            if isinstance(p, ast.Try) and st in list(iter_stmts(p.body)):
                for h in p.handlers:
                    if not any(isinstance(s, ast.Raise) for s in iter_stmts(h.body)):
                        tolerant = True
            p = parent(p)
        out[tg.attr] = ((a, b), tolerant, st.lineno)
    return out


def check(prog, rep):
    rep.explanation = (
        "dataflow and guard analysis of pdb.read_pdb (termination, suppression, fallback), column extraction of "
        "pdb.ATOM/HETATM vs the wwPDB table and each other, layout of the read_atom rebuild, residue grouping and "
        "flush guards in Biomolecule.__init__, first-wins in the five residue constructors, model and water handling"
    )
    rep.not_decided += ["files the reader legitimately rejects (records too short to hold coordinates)",
                        "encoding errors"]
    rule_eof(prog, rep)
    rule_suppression(prog, rep)
    rule_registration(prog, rep)
    rule_columns(prog, rep)
    from .shared import rule_hidden_chains_model
    rep.guarded(rule_hidden_chains_model, prog, rep, "R12")
    grouping = ingestion_decided_on_models(prog, rep, "R11")
    if not grouping:
        rule_identity(prog, rep)  # shape-based formulation of what the model record lists decide
    rule_first_wins(prog, rep)
    if not grouping:
        rule_flush(prog, rep)
    rule_every_record_kept(prog, rep)
    if not grouping:
        rule_models(prog, rep)
    rule_water(prog, rep)
    rule_altname_tables(prog, rep)


def ingestion_decided_on_models(prog, rep, rid, only=None):
    """True if Biomolecule.__init__ could be evaluated on the model record lists (the rule is then in the report)."""
    from .shared import rule_ingestion_model
    n_rules, n_def = len(rep.rules), len(rep.deferred)
    rep.guarded(rule_ingestion_model, prog, rep, rid, only)
    if len(rep.deferred) > n_def:
        rep.deferred.pop()  # the shape-based rules take over
        return False
    return len(rep.rules) > n_rules


# ------------------------------------------------------------------------------------- R1
def rule_eof(prog, rep):
    r = rep.rule("R1", "the PDB read loop terminates only at end of file", floor=1)
    fi = prog.func("pdb.py", "read_pdb")
    fn = fi.node
    loops = [s for s in fn.body if isinstance(s, (ast.While, ast.For))]
    if not loops:
        raise AnalysisError("read_pdb: no read loop found")
    loop = loops[-1]
    where = f"pdb2pqr/pdb.py:{loop.lineno} (read_pdb)"
    if isinstance(loop, ast.For):
        r.ok("loop|for-line-in-file", f"'for {U(loop.target)} in {U(loop.iter)}' ends exactly at EOF", where)
        exits = [s for s in iter_stmts(loop.body) if isinstance(s, (ast.Break, ast.Return)) and enclosing_loops(s)[0] is loop]
        for s in exits:
            r.bad(f"exit|{U(s)}@{U(guards_of(s, loop)[-1][0]) if guards_of(s, loop) else 'unconditional'}",
                  "the read loop is left before the end of the file", f"pdb2pqr/pdb.py:{s.lineno} (read_pdb)")
        return
    # while-loop: every exit must test the *raw* readline() result against ""
    exits = [s for s in iter_stmts(loop.body) if isinstance(s, (ast.Break, ast.Return))
             and (isinstance(s, ast.Return) or enclosing_loops(s)[0] is loop)]
    if not exits and U(loop.test) in ("True", "1"):
        raise AnalysisError("read_pdb: endless loop without exit")
    for s in exits:
        g = guards_of(s, loop)
        ok = False
        why = "exit is not guarded by an end-of-file test"
        if g:
            test, pol = g[-1]
            # the tested name and its reaching definition (nearest preceding assignment in the loop body)
            names = [n.id for n in ast.walk(test) if isinstance(n, ast.Name)]
            ifnode = parent(s)
            while ifnode is not None and parent(ifnode) is not loop:
                ifnode = parent(ifnode)
            idx = loop.body.index(ifnode) if ifnode in loop.body else None
            for nm in names:
                defs = [st for st in loop.body[:idx] if isinstance(st, ast.Assign) and U(st.targets[0]) == nm] if idx is not None else []
                if defs:
                    v = defs[-1].value
                    raw = isinstance(v, ast.Call) and isinstance(v.func, ast.Attribute) and v.func.attr == "readline"
                    is_empty_test = (isinstance(test, ast.Compare) and U(test.comparators[0]) in ("''", '""') and pol
                                     and isinstance(test.ops[0], ast.Eq)) or (
                        isinstance(test, ast.UnaryOp) and isinstance(test.op, ast.Not) and pol)
                    ok = raw and is_empty_test
                    why = (f"exit test {U(test)!r} is applied to {nm} = {U(v)}: "
                           f"{'the raw readline() result (empty only at EOF)' if raw else 'a transformed line -- a blank line would also end the parse'}")
        r.add(f"exit|{U(s)}", ok, why, f"pdb2pqr/pdb.py:{s.lineno} (read_pdb)")


# ------------------------------------------------------------------------------------- R2
def rule_suppression(prog, rep):
    r = rep.rule("R2", "coordinate records are never suppressed, skipped or swallowed", floor=3)
    fn = prog.func("pdb.py", "read_pdb").node
    # (a) appends to the error-truncation list exclude ATOM/HETATM
    ret = [s for s in iter_stmts(fn.body) if isinstance(s, ast.Return) and isinstance(s.value, ast.Tuple)]
    if not ret:
        raise AnalysisError("read_pdb: 'return records, errors' not found")
    errname = U(ret[-1].value.elts[1])
    appends = [c for c in calls_in(fn) if U(c.func) == f"{errname}.append"]
    for c in appends:
        g = guards_of(c)
        verdicts = {}
        for rec in ("ATOM", "HETATM", "REMARK"):
            res = True
            for test, pol in g:
                try:
                    val = Interp({"record": rec, errname: []}).ev(test)
                    if isinstance(val, Unknown):
                        continue
                    if bool(val) != pol:
                        res = False
                except AnalysisError:
                    continue
            verdicts[rec] = res
        ok = not verdicts["ATOM"] and not verdicts["HETATM"]
        r.add(f"errlist-append|{U(c)}", ok,
              f"guards {[U(t) + ('' if p else ' [negated]') for t, p in g]} admit record types: "
              f"{[k for k, v in verdicts.items() if v]}; ATOM/HETATM must never enter the suppression list",
              f"pdb2pqr/pdb.py:{c.lineno} (read_pdb)")
    # (b) handlers around the record constructor: for ATOM/HETATM they must re-raise or recover the record
    tries = [s for s in iter_stmts(fn.body) if isinstance(s, ast.Try)
             and any("LINE_PARSERS" in U(x) or "klass(" in U(x) for x in iter_stmts(s.body))]
    if not tries:
        raise AnalysisError("read_pdb: the try block around the record constructor was not found")
    for h in tries[0].handlers:
        types = U(h.type) if h.type is not None else "BaseException"
        for rec in ("ATOM", "HETATM"):
            events = []

            def hook(interp, call, events=events):
                name = U(call.func)
                if name == "read_atom":
                    events.append("recover")
                    return Unknown("record")
                if name.endswith(".append"):
                    events.append(f"append:{U(call.func.value)}")
                return None

            it = Interp({"record": rec, errname: [], "line": Unknown("line"), h.name or "_": Unknown("exc")},
                        call_hook=hook, loop_hook=lambda i, s: None)
            outcome = "falls through (record lost)"
            try:
                it.run([s for s in h.body if not isinstance(s, ast.Try)] if False else _flatten_try(h.body))
            except Flow as fl:
                if fl.kind == "raise":
                    outcome = "re-raises"
            if "recover" in events:
                outcome = "recovers the record through read_atom"
            ok = outcome != "falls through (record lost)"
            r.add(f"handler|{types}:{rec}", ok, f"except {types}: for a {rec} record the handler {outcome}",
                  f"pdb2pqr/pdb.py:{h.lineno} (read_pdb)")
    # (c) the skip test at the top of the try must be the suppression list only
    skips = [s for s in tries[0].body if isinstance(s, ast.If)]
    for s in skips:
        txt = U(s.test)
        r.add(f"skip-test|{txt}", txt == f"record not in {errname}",
              f"records are constructed under the test {txt!r}; with (a) this never skips ATOM/HETATM",
              f"pdb2pqr/pdb.py:{s.lineno} (read_pdb)")


def _flatten_try(body):
    """Handler bodies may contain a nested try (recovery attempt): analyse its body."""
    out = []
    for s in body:
        if isinstance(s, ast.Try):
            out.extend(s.body)
        elif isinstance(s, ast.If):
            s2 = ast.If(test=s.test, body=_flatten_try(s.body), orelse=_flatten_try(s.orelse))
            ast.copy_location(s2, s)
            out.append(s2)
        else:
            out.append(s)
    return out


# ------------------------------------------------------------------------------------- R3
def rule_registration(prog, rep):
    r = rep.rule("R3", "every record class the grouping dispatches on is a registered line parser", floor=4)
    init = prog.func("biomolecule.py", "Biomolecule.__init__").node
    used = set()
    for c in calls_in(init):
        if U(c.func) == "isinstance" and len(c.args) == 2:
            for n in ast.walk(c.args[1]):
                if isinstance(n, ast.Attribute) and U(n.value) == "pdb":
                    used.add(n.attr)
    for name in sorted(used):
        key = f"pdb.py::{name}"
        if key not in prog.classes:
            r.bad(f"registered|{name}", f"Biomolecule.__init__ dispatches on pdb.{name}, which pdb.py does not define")
            continue
        cls = prog.classes[key].node
        decos = [U(d) for d in cls.decorator_list]
        r.add(f"registered|{name}", "register_line_parser" in decos,
              f"class {name} decorators: {decos}", f"pdb2pqr/pdb.py:{cls.lineno} ({name})")
    # the registry is keyed by class name and looked up by the column-based record name
    reg = prog.func("pdb.py", "register_line_parser").node
    r.add("registry-key", "LINE_PARSERS[klass.__name__] = klass" in U(reg), "registry is keyed by the class name",
          f"pdb2pqr/pdb.py:{reg.lineno} (register_line_parser)")


# ------------------------------------------------------------------------------------- R4
def rule_columns(prog, rep):
    r = rep.rule("R4", "ATOM and HETATM read the wwPDB columns, identically; read_atom rebuilds into them", floor=30)
    tables = {}
    for name in ("ATOM", "HETATM"):
        fn = prog.func("pdb.py", f"{name}.__init__").node
        try:
            tables[name] = probed_columns(prog, name)
            r.info[f"columns_of_{name}"] = "found by evaluation (one-column variants of a model record)"
        except AnalysisError:
            tables[name] = record_slices(fn)
            r.info[f"columns_of_{name}"] = "read off the slice expressions of the constructor"
        for attr, want in WWPDB.items():
            got = tables[name].get(attr)
            where = f"pdb2pqr/pdb.py:{got[2] if got else fn.lineno} ({name}.__init__)"
            if got is None:
                r.bad(f"column|{name}.{attr}", f"{name} does not read {attr} from the line", where)
                continue
            r.add(f"column|{name}.{attr}", got[0] == want, f"{name}.{attr} read from line[{got[0][0]}:{got[0][1]}]; "
                  f"wwPDB columns {want[0] + 1}-{want[1]}", where)
            if attr in MANDATORY:
                r.add(f"strict|{name}.{attr}", not got[1],
                      f"{attr} is {'inside a tolerant try (a bad value is silently replaced)' if got[1] else 'parsed strictly'}", where)
    for attr in WWPDB:
        a, h = tables["ATOM"].get(attr), tables["HETATM"].get(attr)
        if a and h:
            r.add(f"sibling|{attr}", a[0] == h[0], f"ATOM reads {a[0]}, HETATM reads {h[0]}", "pdb2pqr/pdb.py")
    # the record classes on a model line with a distinct value in every column field (any code shape)
    record_classes_on_model(prog, r)
    # read_atom: the rebuilt line
    fn = prog.func("pdb.py", "read_atom").node
    if read_atom_on_model(prog, r, fn):
        return
    pieces = []
    var = None
    for st in fn.body:
        if isinstance(st, ast.Assign) and isinstance(st.value, ast.Subscript) and U(st.value.value) == "line" \
                and isinstance(st.value.slice, ast.Slice) and U(st.targets[0]) != "record":
            var = U(st.targets[0])
            hi = try_fold(st.value.slice.upper)
            pieces = [("prefix", 0, hi)]
        elif var and isinstance(st, ast.Assign) and U(st.targets[0]) == var and isinstance(st.value, ast.BinOp):
            call = st.value.right
            if isinstance(call, ast.Call) and U(call.func) in ("str.rjust", "str.ljust") and len(call.args) == 2:
                w = try_fold(call.args[1])
                start = pieces[-1][2]
                blank = isinstance(call.args[0], ast.Constant) and call.args[0].value == ""
                pieces.append(("blank" if blank else U(call.args[0]), start, start + w))
            else:
                raise AnalysisError(f"read_atom: unrecognised piece {U(st)}")
    toks = [p for p in pieces if p[0] not in ("prefix", "blank")]
    fields = ["res_seq", "x", "y", "z", "occupancy", "temp_factor"]
    if len(toks) != len(fields):
        raise AnalysisError(f"read_atom: expected {len(fields)} recovered tokens, found {len(toks)}")
    for (expr, a, b), f in zip(toks, fields):
        r.add(f"rebuild|{f}", (a, b) == WWPDB[f], f"read_atom writes the recovered {f} token into [{a}:{b}]; the record "
              f"classes read it from [{WWPDB[f][0]}:{WWPDB[f][1]}]", f"pdb2pqr/pdb.py:{fn.lineno} (read_atom)")


# ------------------------------------------------------------------------------------- R5
def rule_identity(prog, rep):
    r = rep.rule("R5", "residue identity is exactly (chain, resSeq, iCode)", floor=1)
    init = prog.func("biomolecule.py", "Biomolecule.__init__").node
    best = None
    for n in walk_no_defs(init):
        if isinstance(n, ast.If) and "previous_atom." in U(n.test) and any(
                U(c.func).endswith("create_residue") for c in calls_in(n)):
            best = n
    if best is None:
        raise AnalysisError("Biomolecule.__init__: residue boundary test not found")
    attrs = set()
    ops = set()
    for c in ast.walk(best.test):
        if isinstance(c, ast.Compare):
            for side in (c.left, c.comparators[0]):
                if isinstance(side, ast.Attribute) and U(side.value) == "previous_atom":
                    attrs.add(side.attr)
            ops.add(type(c.ops[0]).__name__)
    joiner = type(best.test.op).__name__ if isinstance(best.test, ast.BoolOp) else "-"
    ok = attrs == {"chain_id", "res_seq", "ins_code"} and ops == {"NotEq"} and joiner in ("Or", "-")
    # the compared locals must be the record's own fields
    for nm in ("chain_id", "res_seq", "ins_code"):
        defs = [U(s.value) for s in iter_stmts(init.body) if isinstance(s, ast.Assign) and U(s.targets[0]) == nm]
        if defs and set(defs) != {f"record.{nm}"}:
            ok = False
    r.add("boundary-key", ok, f"a new residue starts when any of {sorted(attrs)} differs from the previous atom "
          f"(operators {sorted(ops)}, joined by {joiner})", f"pdb2pqr/biomolecule.py:{best.lineno} (Biomolecule.__init__)")


# ------------------------------------------------------------------------------------- R6
def first_wins_on_models(prog, r):
    """The five residue constructors are evaluated on model records: two atoms listed with a second alternate location (better occupied, other
    coordinates), one atom listed once under its alternative name and once under its plain name.  Every atom name must be held once, with the
    coordinates of the record listed first.  False if a constructor cannot be evaluated (the shape rule then decides)."""
    from ..guards import Flow, Obj
    from ..objinterp import ObjRunner

    def record(cls, name, resname, k, alt="", x=None):
        return Obj({"__class__": cls, "serial": k, "name": name, "alt_loc": alt, "res_name": resname, "chain_id": "A", "res_seq": 15, "ins_code": "",
                    "x": float(k) if x is None else x, "y": 2.0, "z": 3.0, "occupancy": {"A": 0.4, "B": 0.6}.get(alt, 1.0), "temp_factor": 0.0, "seg_id": "", "element": name[0], "charge": "", "mol2charge": None})

    cases = [("Residue", "residue.py", "ACT", ["C", "O", "OXT", "CH3"], {}), ("ALA", "aa.py", "ALA", ["N", "CA", "C", "O", "CB"], {"OT1": "O"}),
             ("ADE", "na.py", "A", ["P", "O5'", "C5'", "N9"], {"O5*": "O5'"}), ("WAT", "aa.py", "HOH", ["O", "H1", "H2"], {"OW": "O", "OH2": "O"}),
             ("LIG", "aa.py", "LIG", ["C1", "O1", "N1"], {"OX": "O1"})]
    results = []
    try:
        for cls, rel, resname, names, altnames in cases:
            shown = {"Residue": "Residue", "ALA": "Amino", "ADE": "Nucleic"}.get(cls, cls)
            for rectype in ("ATOM", "HETATM"):
                recs = [record(rectype, n_, resname, k, "A" if k <= 2 else "") for k, n_ in enumerate(names, start=1)]
                recs.insert(2, record(rectype, names[0], resname, 50, "B", 77.0))   # second location of the first atom, right behind the first two
                recs.append(record(rectype, names[1], resname, 51, "B", 78.0))      # second location of the second atom, at the end
                want = {n_: float(k) for k, n_ in enumerate(names, start=1)}
                if altnames:
                    alt, plain = next(iter(altnames.items()))
                    recs.append(record(rectype, alt, resname, 52, "", 79.0))        # an atom already listed, under its alternative name
                ref = Obj({"__class__": "DefinitionResidue", "name": resname, "altnames": dict(altnames), "map": {n_: Obj({"__class__": "DefinitionAtom", "name": n_, "bonds": []}) for n_ in names}})

                def extra(runner, interp, call, args, kw):
                    if isinstance(call.func, ast.Attribute) and call.func.attr == "record_type" and not args:
                        recv = interp.ev(call.func.value)
                        if isinstance(recv, dict) and recv.get("__class__") in ("ATOM", "HETATM"):
                            return recv["__class__"]
                    return NotImplemented

                run = ObjRunner(prog, rel, extra_hook=extra)
                try:
                    res = run.new(cls, recs) if cls == "Residue" else run.new(cls, recs, ref)
                except Flow as fl:
                    results.append((f"first-wins|{shown}" + ("" if rectype == "ATOM" else "|HETATM records"), False, f"{cls}(...) stops with {fl.value} on the model records"))
                    continue
                got = {}
                twice = []
                for a in res["atoms"]:
                    if a.get("name") in got:
                        twice.append(a.get("name"))
                    got.setdefault(a.get("name"), a.get("x"))
                in_map = {k_: v_.get("x") for k_, v_ in res["map"].items()} if isinstance(res.get("map"), dict) else None
                ok = got == want and not twice and (in_map is None or in_map == want)
                results.append((f"first-wins|{shown}" + ("" if rectype == "ATOM" else "|HETATM records"), ok,
                                f"{cls} built from model {rectype} records (two atoms with a second alternate location, one atom listed again under an alternative name): "
                                + ("every name held once, with the coordinates listed first" if ok else f"atoms held (name: x) {got}, twice {twice}, map {in_map}; expected {want}")))
    except AnalysisError:
        return False
    for key, ok, what in results:
        r.add(key, ok, what, "pdb2pqr/residue.py, aa.py, na.py (residue constructors)")
    return True


def rule_first_wins(prog, rep):
    r = rep.rule("R6", "first listed alternate location wins in every residue constructor", floor=5)
    if first_wins_on_models(prog, r):
        return
    ctors = [("residue.py", "Residue"), ("aa.py", "Amino"), ("na.py", "Nucleic"), ("aa.py", "WAT"), ("aa.py", "LIG")]
    for rel, cname in ctors:
        fn = prog.func(rel, f"{cname}.__init__").node
        adds = [c for c in calls_in(fn) if U(c.func) == "self.add_atom"]
        stores = [s for s in iter_stmts(fn.body) if isinstance(s, ast.Assign) and U(s.targets[0]).startswith("self.map[")]
        where = f"pdb2pqr/{rel}:{fn.lineno} ({cname}.__init__)"
        if not adds and not stores:
            r.bad(f"first-wins|{cname}", "constructor adds no atoms", where)
            continue
        ok = True
        detail = []
        for c in adds + stores:
            g = guards_of(c)
            guarded = any(isinstance(t, ast.Compare) and U(t.comparators[0]) == "self.map" and (
                (pol and isinstance(t.ops[0], ast.NotIn)) or (not pol and isinstance(t.ops[0], ast.In))) for t, pol in g)
            ok &= guarded
            detail.append(f"line {c.lineno}: {'guarded by <name> not in self.map' if guarded else 'UNGUARDED (a later altLoc overwrites the first)'}")
            # the name tested must be the name filed: no renaming between the membership test and the add
            for t, pol in g:
                if isinstance(t, ast.Compare) and U(t.comparators[0]) == "self.map":
                    tested = U(t.left)
                    renamed = [s_ for s_ in iter_stmts(fn.body) if isinstance(s_, ast.Assign) and U(s_.targets[0]) == tested
                               and t.lineno < s_.lineno <= c.lineno]
                    if renamed:
                        ok = False
                        detail.append(f"line {renamed[0].lineno}: {tested} is changed AFTER the membership test at line {t.lineno} and before the atom is "
                                      "filed: an atom listed under an alternative name is not recognised as a second alternate location and is "
                                      "added twice")
        r.add(f"first-wins|{cname}", ok, "; ".join(detail), where)
    # add_atom itself must not reorder/replace silently: map[name] = atom and atoms.append
    # subclasses that override __init__ must delegate to one of the five (else they are a sixth constructor)
    for key, ci in prog.classes.items():
        if ci.module.rel in ("aa.py", "na.py") and "__init__" in ci.methods and ci.name not in ("Amino", "Nucleic", "WAT", "LIG"):
            fn = ci.methods["__init__"].node
            deleg = [U(c.func) for c in calls_in(fn) if U(c.func).endswith(".__init__")]
            own = [c for c in calls_in(fn) if U(c.func) == "self.add_atom"]
            if own:
                r.bad(f"first-wins|{ci.name}", "subclass constructor adds atoms itself (not covered by the base-class guard)",
                      f"pdb2pqr/{ci.module.rel}:{fn.lineno} ({ci.name}.__init__)")
            elif not deleg:
                r.bad(f"delegates|{ci.name}", "subclass constructor does not delegate to a base constructor",
                      f"pdb2pqr/{ci.module.rel}:{fn.lineno} ({ci.name}.__init__)")


# ------------------------------------------------------------------------------------- R7
def rule_flush(prog, rep):
    r = rep.rule("R7", "every residue flush is guarded by a non-empty pending list", floor=3)
    init = prog.func("biomolecule.py", "Biomolecule.__init__").node
    calls = [c for c in calls_in(init) if U(c.func) == "self.create_residue"]
    if not calls:
        raise AnalysisError("Biomolecule.__init__: create_residue calls not found")
    pend = U(calls[0].args[0])
    for c in calls:
        g = guards_of(c)
        nonempty = False
        boundary = False
        for t, pol in g:
            txt = U(t)
            if (txt in (f"{pend} != []", f"len({pend}) > 0", f"len({pend}) != 0", pend) and pol) or \
                    (txt in (f"{pend} == []", f"not {pend}", f"len({pend}) == 0") and not pol):
                nonempty = True
            if isinstance(t, ast.BoolOp):
                for v in t.values:
                    if U(v) in (f"{pend} != []", pend) and pol and isinstance(t.op, ast.And):
                        nonempty = True
            if "previous_atom." in txt and pol:
                boundary = True
        arm = next((U(t) for t, pol in g if "isinstance(record" in U(t) and pol), "after the loop")
        key = f"flush|{arm}"
        if nonempty:
            r.ok(key, f"flush guarded by a non-empty test on {pend!r}", f"pdb2pqr/biomolecule.py:{c.lineno} (Biomolecule.__init__)")
        elif boundary:
            # invariant: previous_atom is not None  =>  pending list non-empty.  It holds iff every reset of the
            # pending list either is followed by an append in the same block or also forgets previous_atom.
            resets = [s for s in iter_stmts(init.body) if isinstance(s, ast.Assign) and U(s.targets[0]) == pend
                      and U(s.value) in ("[]", "list()") and enclosing_loops(s)]
            bad = []
            for s in resets:
                blk = _block_of(s)
                rest = blk[blk.index(s) + 1:]
                up = parent(s)
                # statements executed after the reset in the same iteration: rest of this block and of enclosing blocks
                following = list(rest)
                while up is not None and not isinstance(up, (ast.For, ast.While)):
                    b2 = _block_of(up)
                    if b2 is not None:
                        following += b2[b2.index(up) + 1:]
                    up = parent(up)
                txts = [U(x) for x in following]
                ok = any(t.startswith(f"{pend}.append(") for t in txts) or any(t == "previous_atom = None" for t in txts) \
                    or any(isinstance(x, ast.Break) for x in following)
                if not ok:
                    bad.append(s.lineno)
            r.add(key, not bad,
                  "flush at a residue boundary relies on 'previous atom known => pending list non-empty'; "
                  + (f"the reset(s) at line(s) {bad} empty the list but keep previous_atom, so the next coordinate "
                     "record of another residue flushes an empty list" if bad else
                     f"all {len(resets)} resets of the pending list re-establish it"),
                  f"pdb2pqr/biomolecule.py:{c.lineno} (Biomolecule.__init__)")
        else:
            r.bad(key, f"create_residue({pend}, ...) is reachable with an empty pending list (no non-empty guard)",
                  f"pdb2pqr/biomolecule.py:{c.lineno} (Biomolecule.__init__)")


def _block_of(stmt):
    p = parent(stmt)
    for field in ("body", "orelse", "finalbody"):
        blk = getattr(p, field, None)
        if isinstance(blk, list) and stmt in blk:
            return blk
    if isinstance(p, ast.Try):
        for h in p.handlers:
            if stmt in h.body:
                return h.body
    return None


# ------------------------------------------------------------------------------------- R10
def rule_every_record_kept(prog, rep):
    """Every coordinate record that is read reaches the pending residue: no filter between reader and grouping."""
    from ..core import eval_formula, formula_atoms, reach_formula
    import itertools
    r = rep.rule("R10", "every ATOM/HETATM record read is appended to a residue (no filter on altLoc, occupancy, element, ...)", floor=2)
    init = prog.func("biomolecule.py", "Biomolecule.__init__").node
    loops = [s for s in init.body if isinstance(s, ast.For) and U(s.iter) == "pdblist"]
    main = None
    for lp in loops:
        if any(U(c.func) == "residue.append" for c in calls_in(lp)):
            main = lp
    if main is None:
        raise AnalysisError("Biomolecule.__init__: record loop with residue.append not found")
    app = [s for s in iter_stmts(main.body) if isinstance(s, ast.Expr) and isinstance(s.value, ast.Call) and U(s.value.func) == "residue.append"]
    where = f"pdb2pqr/biomolecule.py:{app[0].lineno} (Biomolecule.__init__)"
    f = reach_formula(app[0], main)
    atoms = formula_atoms(f)
    arm = [a for a in atoms if "isinstance(record, (pdb.ATOM, pdb.HETATM))" in a or "isinstance(record, (pdb.HETATM, pdb.ATOM))" in a]
    others = [a for a in atoms if a not in arm]
    leak = None
    for vals in itertools.product((True, False), repeat=len(others)):
        asg = dict(zip(others, vals))
        asg.update({a: True for a in arm})
        if not eval_formula(f, asg):
            leak = {k: v for k, v in asg.items() if k in others}
            break
    r.add("append-unconditional", bool(arm) and leak is None and U(app[0].value.args[0]) == "record",
          f"within the coordinate-record arm the append is reached for every outcome of the other tests {others}" if leak is None else
          f"a coordinate record is dropped when {leak}", where)
    # the record loop of the reader: only blank lines are skipped (decided on a model file when the reader can be evaluated)
    try:
        if reader_on_model(prog, r):
            modelled = True
    except AnalysisError:
        modelled = False
    rd = prog.func("pdb.py", "read_pdb").node
    rl = [s for s in rd.body if isinstance(s, (ast.While, ast.For))][-1]
    conts = [s for s in iter_stmts(rl.body) if isinstance(s, ast.Continue) and enclosing_loops(s)[0] is rl]
    bad = []
    for c in conts:
        g = [(U(t), p) for t, p in guards_of(c, rl)]
        if not (g and g[-1] in (("line == ''", True), ("not line", True)) and len([x for x in g if x[1]]) >= 1
                and all(t in ("line == ''", "not line") for t, p in g)):
            bad.append(g)
    if not modelled:
        r.add("reader-skips-only-blank-lines", not bad, f"continue statements of the read loop: {len(conts)}, all guarded by the blank-line test"
              if not bad else f"the read loop skips lines under {bad[0]}", f"pdb2pqr/pdb.py:{rl.lineno} (read_pdb)")
    # get_molecule / setup_molecule / drop_water are the only stages between reader and grouping
    md = prog.func("main.py", "main_driver").node
    chain = []
    for st in md.body:
        t = U(st)
        if "pdblist" in t:
            chain.append(t.splitlines()[0][:70])
    filt = [c for c in chain if "pdblist =" in c and "get_molecule" not in c and "drop_water" not in c]
    r.add("no-other-filter", not filt, f"statements of main_driver that rebind the record list: {[c for c in chain if 'pdblist =' in c or 'pdblist, ' in c]}",
          f"pdb2pqr/main.py:{md.lineno} (main_driver)")
    # create_residue hands the pending records to the residue class unfiltered
    cr = prog.func("biomolecule.py", "Biomolecule.create_residue").node
    p0 = cr.args.args[1].arg
    rebinds = [x for x in iter_stmts(cr.body) if isinstance(x, ast.Assign) and any(U(tg) == p0 for tg in x.targets)]
    badr = [U(x.value)[:60] for x in rebinds if not (isinstance(x.value, ast.Call) and x.value.args and U(x.value.args[0]) == p0
                                                       and not isinstance(x.value.func, ast.Attribute) or
                                                       (isinstance(x.value, ast.Call) and x.value.args and U(x.value.args[0]) == p0 and U(x.value.func) in ("klass", "residue_.Residue")))]
    r.add("create_residue-unfiltered", not badr and bool(rebinds), f"the record list {p0!r} is only replaced by the residue object built from it"
          if not badr else f"the record list is filtered before the residue is built ({badr[0]}): records are dropped without a message",
          f"pdb2pqr/biomolecule.py:{cr.lineno} (Biomolecule.create_residue)")
    sm = prog.func("main.py", "setup_molecule").node
    r.add("setup-passes-all", "biomol.Biomolecule(pdblist, definition)" in U(sm), "setup_molecule hands the whole record list to Biomolecule",
          f"pdb2pqr/main.py:{sm.lineno} (setup_molecule)")


# ------------------------------------------------------------------------------------- R8
def rule_models(prog, rep):
    r = rep.rule("R8", "only the first model is ingested", floor=2)
    init = prog.func("biomolecule.py", "Biomolecule.__init__").node
    breaks = [s for s in iter_stmts(init.body) if isinstance(s, ast.Break)]
    ok = False
    where = f"pdb2pqr/biomolecule.py:{init.lineno} (Biomolecule.__init__)"
    counter = None
    for b in breaks:
        g = guards_of(b)
        txts = [U(t) for t, pol in g if pol]
        if any("pdb.MODEL" in t for t in txts):
            for t, pol in g:
                if isinstance(t, ast.Compare) and pol and isinstance(t.ops[0], (ast.Gt, ast.GtE)):
                    k = try_fold(t.comparators[0])
                    if (isinstance(t.ops[0], ast.Gt) and k == 1) or (isinstance(t.ops[0], ast.GtE) and k == 2):
                        ok = True
                        counter = U(t.left)
                        where = f"pdb2pqr/biomolecule.py:{b.lineno} (Biomolecule.__init__)"
    r.add("second-model-breaks", ok, f"the record loop breaks at a MODEL record once {counter or '<counter>'} exceeds 1", where)
    if counter:
        incs = [s for s in iter_stmts(init.body) if isinstance(s, ast.AugAssign) and U(s.target) == counter]
        good = len(incs) == 1 and any("pdb.MODEL" in U(t) and pol for t, pol in guards_of(incs[0])) and U(incs[0].value) == "1"
        r.add("counter-counts-models", good, f"{counter} is incremented by one exactly in the MODEL arm", where)
        # the trailing flush must not add the pending atoms of a later model
        tail = [c for c in calls_in(init) if U(c.func) == "self.create_residue" and not enclosing_loops(c)]
        for c in tail:
            g = " and ".join(U(t) for t, pol in guards_of(c) if pol)
            r.add("trailing-flush-first-model", counter in g and "<= 1" in g or f"{counter} < 2" in g,
                  f"trailing flush guarded by {g!r}", f"pdb2pqr/biomolecule.py:{c.lineno} (Biomolecule.__init__)")


# ------------------------------------------------------------------------------------- R9
def pdb_line(rec, serial, name, alt, res, chain, seq, icode, x, y, z, occ=1.0, b=20.0, seg="", el="", ch=""):
    """A coordinate record in the wwPDB column layout (format description v3.3, ATOM/HETATM)."""
    return (f"{rec:<6}{serial:>5} {name:<4}{alt or ' ':1}{res:>3} {chain or ' ':1}{seq:>4}{icode or ' ':1}   {x:8.3f}{y:8.3f}{z:8.3f}{occ:6.2f}{b:6.2f}"
            f"      {seg:<4}{el:>2}{ch:<2}")


def record_classes_on_model(prog, r):
    from ..guards import Flow
    from ..objinterp import ObjRunner
    run = ObjRunner(prog, "pdb.py")
    want = dict(serial=12345, name="1HB2", alt_loc="A", res_name="HOH", chain_id="B", res_seq=-234, ins_code="C", x=-123.456, y=234.567, z=-0.001,
                occupancy=0.5, temp_factor=99.99, seg_id="SEG1", element="O", charge="1-")
    for cls_ in ("ATOM", "HETATM"):
        line = pdb_line(cls_, want["serial"], want["name"], want["alt_loc"], want["res_name"], want["chain_id"], want["res_seq"], want["ins_code"],
                        want["x"], want["y"], want["z"], want["occupancy"], want["temp_factor"], want["seg_id"], want["element"], want["charge"]) + "\n"
        where = f"pdb2pqr/pdb.py ({cls_}.__init__)"
        try:
            obj = run.new(cls_, line)
        except Flow as fl:
            r.bad(f"model-line|{cls_}", f"{cls_}(line) stops with {fl.value} on a full-width wwPDB record", where)
            continue
        except AnalysisError:
            return
        bad = {k: (obj.get(k), v) for k, v in want.items() if obj.get(k) != v}
        r.add(f"model-line|{cls_}", not bad, "a record with a distinct value in every column field (five-digit serial, four-character name, alternate "
              "location, insertion code, negative number, full-width coordinates) is read field by field as written" if not bad else
              f"fields differ (read, written): {bad}", where)


def read_atom_on_model(prog, r, fn):
    """read_atom (the fallback for records whose columns are out of place) is evaluated on model lines whose fields are
    separated by blanks but shifted; what it hands to the record class must parse to the tokens.  False if not possible."""
    from ..guards import Flow
    from ..objinterp import ObjRunner
    where = f"pdb2pqr/pdb.py:{fn.lineno} (read_atom)"
    lines = [
        ("ATOM      1  N   MET A   1       26.800   41.153    3.834   1.00  20.00\n", dict(res_seq=1, x=26.8, y=41.153, z=3.834, occupancy=1.0, temp_factor=20.0)),
        ("HETATM  901 O    HOH B 1234 -100.123  -5.500  12.000  0.50 99.99           O\n", dict(res_seq=1234, x=-100.123, y=-5.5, z=12.0, occupancy=0.5, temp_factor=99.99)),
        ("ATOM     17  CA  GLY A  -6        1.500        0.000      -12.250  1.00  0.00\n", dict(res_seq=-6, x=1.5, y=0.0, z=-12.25, occupancy=1.0, temp_factor=0.0)),
    ]
    try:
        for line, want in lines:
            run = ObjRunner(prog, "pdb.py")
            env_parsers = {"ATOM": run.class_ref("ATOM"), "HETATM": run.class_ref("HETATM")}
            run.module_state["pdb.py"] = {**run.module_env("pdb.py"), "LINE_PARSERS": env_parsers}
            try:
                obj = run.call_function("pdb.py", "read_atom", line)
            except Flow as fl:
                r.bad(f"rebuild|{line[:6].strip()}:{want['res_seq']}", f"read_atom stops with {fl.value} on {line.strip()!r}", where)
                continue
            if not isinstance(obj, dict):
                raise AnalysisError("read_atom did not return a record object on the model")
            bad = {k: (obj.get(k), v) for k, v in want.items() if obj.get(k) != v}
            head_ok = obj.get("name") == line[12:16].strip() and obj.get("res_name") == line[17:20].strip() and obj.get("chain_id") == line[21].strip()
            r.add(f"rebuild|{line[:6].strip()}:{want['res_seq']}", not bad and head_ok,
                  "the record rebuilt from the blank-separated tokens parses to residue number, x, y, z, occupancy and B factor as written" if not bad and head_ok
                  else f"fields differ (read, written): {bad}; name/residue/chain {'kept' if head_ok else 'NOT kept'}", where)
    except AnalysisError:
        return False
    return True


def water_filter_on_model(prog, r, where):
    """drop_water is evaluated on model records built by the record classes themselves from wwPDB-formatted lines.  Returns
    False if the evaluation is not possible (the shape-based rule then decides)."""
    from ..guards import Flow
    from ..objinterp import ObjRunner
    run = ObjRunner(prog, "pdb.py")
    spec = [("ATOM", 1, "N", "", "ALA", "A", 1, "", True), ("HETATM", 2, "O", "", "HOH", "A", 201, "", False), ("ATOM", 3, "O", "", "WAT", "A", 202, "", False),
            ("HETATM", 10000, "O", "", "HOH", "A", 203, "", False), ("HETATM", 99999, "H1", "A", "HOH", "B", 1204, "B", False),
            ("HETATM", 5, "C1", "", "LIG", "A", 301, "", True), ("ATOM", 6, "OW", "", "SOL", "A", 302, "", True), ("HETATM", 7, "ZN", "", "ZN", "A", 303, "", True),
            ("ATOM", 8, "HOH", "", "GLY", "A", 2, "", True), ("HETATM", 2, "C2", "", "LIG", "B", 401, "", True),  # the last one shares its serial with a water
            # residues whose names are pieces of the water names (an RNA adenosine is called A), or contain them
            ("ATOM", 9, "P", "", "A", "C", 1, "", True), ("HETATM", 10, "O", "", "OH", "C", 2, "", True), ("HETATM", 11, "O", "", "O", "C", 3, "", True),
            ("HETATM", 12, "W", "", "W", "C", 4, "", True), ("HETATM", 13, "O1", "", "HO", "C", 5, "", True), ("ATOM", 14, "N", "", "AT", "C", 6, "", True),
            ("HETATM", 15, "O", "", "OHW", "C", 7, "", True)]
    try:
        records, keep = [], []
        for rec, serial, name, alt, res, chain, seq, ic, kept in spec:
            obj = run.new(rec, pdb_line(rec, serial, name, alt, res, chain, seq, ic, 1.0, 2.0, 3.0) + "\n")
            obj["__id__"] = f"{rec}{serial}:{res}"
            records.append(obj)
            if kept:
                keep.append(obj["__id__"])
        for cls_, text in (("TER", "TER\n"), ("END", "END\n")):
            obj = run.new(cls_, text)
            obj["__id__"] = cls_
            records.append(obj)
            keep.append(cls_)
        run.rel = "main.py"
        out = run.call_function("main.py", "drop_water", list(records))
    except Flow as fl:
        r.bad("filter", f"drop_water (or a record constructor) stops with {fl.value} on the model records", where)
        return True
    except AnalysisError:
        return False
    got = [x.get("__id__") for x in out] if isinstance(out, list) else out
    r.add("filter", got == keep, "model records: exactly the ATOM/HETATM records of residues named HOH/WAT are removed (also with five-digit serials, "
          "alternate location and insertion code); every other record is kept, in order" if got == keep else
          f"model records: kept {got}, expected {keep}", where)
    r.ok("record-type-by-columns", "decided on the model: the water HETATM10000 (record name and serial not blank-separated) is recognised", where)
    return True


def rule_water(prog, rep):
    r = rep.rule("R9", "waters are removed if and only if --drop-water is given", floor=4)
    md = prog.func("main.py", "main_driver").node
    calls = [c for c in calls_in(md) if U(c.func) == "drop_water"]
    where = f"pdb2pqr/main.py:{md.lineno} (main_driver)"
    if not calls:
        r.bad("call-gated", "main_driver never calls drop_water: --drop-water has no effect", where)
    for c in calls:
        g = guards_of(c)
        ok = [U(t) for t, pol in g] == ["args.drop_water"] and g[0][1]
        r.add("call-gated", ok, f"drop_water call guarded by {[U(t) for t, _ in g]}", f"pdb2pqr/main.py:{c.lineno} (main_driver)")
    # other readers of the flag
    readers = []
    for key, f in prog.funcs.items():
        for n in walk_no_defs(f.node):
            if isinstance(n, ast.Attribute) and n.attr == "drop_water" and isinstance(n.ctx, ast.Load):
                readers.append(key)
    r.add("flag-readers", set(readers) <= {"main.py::main_driver"}, f"args.drop_water is read in {sorted(set(readers))}", where)
    dw = prog.func("main.py", "drop_water").node
    w2 = f"pdb2pqr/main.py:{dw.lineno} (drop_water)"
    if water_filter_on_model(prog, r, w2):
        return
    skips = [s for s in iter_stmts(dw.body) if isinstance(s, ast.Continue)]
    if len(skips) != 1:
        r.bad("filter", f"drop_water has {len(skips)} skip statements; expected one", w2)
        return
    g = guards_of(skips[0])
    txt = " and ".join(U(t) for t, _ in g)
    names_ok = "water_residue_names" in txt or ("'HOH'" in txt and "'WAT'" in txt)
    kinds_ok = all(k in txt for k in ("'HETATM'", "'ATOM'")) or "isinstance(record, (pdb.ATOM, pdb.HETATM" in txt
    r.add("filter", names_ok and kinds_ok and all(p for _, p in g),
          f"a record is dropped iff {txt}", w2)
    # record-type discrimination must be column/class based: record name and serial are not blank-separated
    disc_ok = True
    detail = "discriminates by class/columns"
    for c in calls_in(dw):
        if isinstance(c.func, ast.Attribute) and c.func.attr == "record_type":
            rt = prog.func("pdb.py", "BaseRecord.record_type").node
            rets = [U(s.value) for s in iter_stmts(rt.body) if isinstance(s, ast.Return)]
            disc_ok = all(".split(" not in x for x in rets)
            detail = f"record_type() returns {rets}"
    if ".split(" in U(dw):
        disc_ok = False
        detail = "uses whitespace tokenisation of the record line"
    r.add("record-type-by-columns", disc_ok,
          f"{detail}; whitespace tokenisation is unsound because 'HETATM' and a five-digit serial are not separated",
          w2)
    wn = None
    for st in prog.cls("aa.py", "WAT").node.body:
        if isinstance(st, ast.Assign) and U(st.targets[0]) == "water_residue_names":
            wn = try_fold(st.value)
    r.add("water-names", wn is not None and set(wn) == {"HOH", "WAT"}, f"water residue names: {wn}", "pdb2pqr/aa.py (WAT)")


def rule_altname_tables(prog, rep):
    """Alternative atom names are applied before the 'already present' test of the residue constructors: if one of them points at the wrong atom,
    two records of the input end up under one name and the second is dropped.  Sibling cross-check on the nucleotide table, where every residue
    spells the shared atoms alike: an alternative name denotes the same atom in every nucleotide, and never the plain name of another atom."""
    from ..tables import Tables
    r = rep.rule("R13", "alternative atom names of the nucleotide table denote one atom each (sibling cross-check)", floor=20)
    t = Tables(prog.root)
    seen = {}
    for rname, ref in t.na.items():
        for an, at in ref.atoms.items():
            for alt in at.altnames:
                seen.setdefault(alt, {}).setdefault(an, []).append(rname)
    for alt, targets in sorted(seen.items()):
        ok = len(targets) == 1
        minority = min(targets.items(), key=lambda kv: len(kv[1])) if not ok else None
        r.add(f"altname|{alt}", ok, f"{alt!r} -> {next(iter(targets))!r} in {sum(len(v) for v in targets.values())} nucleotide(s)" if ok else
              f"{alt!r} denotes {({k: len(v) for k, v in targets.items()})}: in {minority[1]} it renames the record to {minority[0]!r}, which collides with that atom's "
              "own record - one of the two is dropped", "pdb2pqr/dat/NA.xml")
    for rname, ref in t.na.items():
        clash = [(alt, an) for an, at in ref.atoms.items() for alt in at.altnames if alt in ref.atoms and alt != an]
        if clash:
            r.bad(f"altname-is-a-name|{rname}", f"alternative names that are themselves atom names of the residue: {clash}", "pdb2pqr/dat/NA.xml")


def reader_on_model(prog, r):
    """pdb.read_pdb is evaluated on a model file (header, blank and whitespace-only lines, an unknown record name, remarks, coordinate records
    before and after END): every coordinate record must come back, in file order, whatever else the file holds.  True if evaluated."""
    from ..fsmodel import FileSystemModel
    from ..guards import Flow
    from ..objinterp import ObjRunner
    coords = [pdb_line("ATOM", 1, "N", "", "MET", "A", 1, "", 26.8, 41.153, 3.834), pdb_line("HETATM", 2, "O", "", "HOH", "A", 201, "", 1.0, 2.0, 3.0),
              pdb_line("ATOM", 3, "CA", "A", "GLY", "B", -6, "C", -1.5, 0.0, -12.25), pdb_line("ATOM", 4, "OXT", "", "GLY", "B", 7, "", 5.0, 6.0, 7.0),
              pdb_line("HETATM", 5, "ZN", "", "ZN", "", 300, "", 9.0, 9.0, 9.0),
              # values that are unusual but valid: occupancy zero, B factor zero, an atom at the origin, a minor alternate location, every optional column filled
              pdb_line("ATOM", 6, "CB", "", "ALA", "C", 1, "", 1.0, 1.0, 1.0, occ=0.0), pdb_line("ATOM", 7, "CG", "", "LEU", "C", 2, "", 0.0, 0.0, 0.0, b=0.0),
              pdb_line("ATOM", 8, "CD1", "B", "LEU", "C", 2, "", -0.001, 2.0, 2.0, occ=0.35), pdb_line("HETATM", 9, "FE", "", "HEM", "C", 9999, "A", 3.0, 3.0, 3.0, seg="HEME", el="FE", ch="2+")]
    lines = ["HEADER    MODEL FILE", "", coords[0], "      ", "FOOBAR an unknown record name", coords[1], "REMARK   1 a remark", "REMARK   1 another remark", coords[2],
             "TER", coords[3], "END", coords[4], ""] + coords[5:]
    fs = FileSystemModel({"model.pdb": "\n".join(lines) + "\n"})
    run = ObjRunner(prog, "pdb.py", extra_hook=fs.hook)
    registry = {}
    for key, ci in prog.classes.items():
        if ci.module.rel == "pdb.py" and any(U(d).endswith("register_line_parser") for d in ci.node.decorator_list):
            registry[ci.name] = run.class_ref(ci.name)
    if "ATOM" not in registry:
        raise AnalysisError("pdb.py: no registered line parsers found")
    run.module_state["pdb.py"] = {**run.module_env("pdb.py"), "LINE_PARSERS": registry}
    rd = prog.func("pdb.py", "read_pdb").node
    where = f"pdb2pqr/pdb.py:{rd.lineno} (read_pdb)"
    try:
        fobj = fs.hook(run, None, ast.parse("open('model.pdb')").body[0].value, ["model.pdb"], {})
        got = run.call_function("pdb.py", "read_pdb", fobj)
    except Flow as fl:
        r.bad("reader|model-file", f"read_pdb stops with {fl.value} on the model file", where)
        return True
    if not (isinstance(got, (list, tuple)) and len(got) == 2 and isinstance(got[0], list)):
        raise AnalysisError("read_pdb did not return (records, errors) on the model file")
    serials = [o.get("serial") for o in got[0] if isinstance(o, dict) and o.get("__class__") in ("ATOM", "HETATM")]
    r.add("reader|model-file", serials == list(range(1, len(coords) + 1)) and not {"ATOM", "HETATM"} & set(got[1]),
          f"model file of {len(lines)} lines (blank and whitespace-only lines, an unknown record, remarks, TER, END in the middle): coordinate records returned "
          f"{serials}, names reported as unparsable {list(got[1])}; expected the {len(coords)} records in file order", where)
    return True
