"""C06 -- titration follows pKa vs pH and stays within force-field support.

Decided statically: the decision table read from the guards of ``apply_pka_values``
(conditional constant propagation over group x position x force field x ordering of pH and
pKa) equals, cell by cell, what the parameter tables can support.  PROPKA's numbers are not
decided.
"""
from __future__ import annotations

import ast
import copy

from ..cells import Cell, Model, final_atoms, ff_status, sidechain_formal, terminus_formal
from ..core import AnalysisError, U, guards_of, try_fold, walk_no_defs
from ..guards import Flow, Interp, Sym, Unknown
from ..tables import AMINO, FFS, Tables

GROUPS = ["ARG", "ASP", "CYS", "GLU", "HIS", "LYS", "TYR"]
# chemistry: patch -> the side of the pKa on which the group is in that state
PROTONATING = {"ASH", "GLH", "HIP", "NEUTRAL-CTERM"}        # state when pH <  pKa
DEPROTONATING = {"CYM", "TYM", "LYN", "AR0", "NEUTRAL-NTERM"}  # state when pH >= pKa
TITRATED_STATE = {"ARG": "AR0", "ASP": "ASH", "CYS": "CYM", "GLU": "GLH", "HIS": "HIP", "LYS": "LYN", "TYR": "TYM",
                  "N+": "NEUTRAL-NTERM", "C-": "NEUTRAL-CTERM"}
SHAPES = {"mid": "XRX", "N": "RX", "C": "XR"}


def find_body(prog):
    fi = prog.func("biomolecule.py", "Biomolecule.apply_pka_values")
    loops = [st for st in fi.node.body if isinstance(st, ast.For) and U(st.iter) == "self.residues"]
    if len(loops) != 1:
        raise AnalysisError("apply_pka_values: expected exactly one loop over self.residues")
    args = [a.arg for a in fi.node.args.args]
    if args[:4] != ["self", "force_field", "ph", "pkadic"]:
        raise AnalysisError(f"apply_pka_values: unexpected parameters {args}")
    return fi, loops[0]


def finish_pipeline(model: Model, res, R):
    model.add_all_hydrogens(res)
    if R == "HIS":
        for an in ("ND1", "NE2"):
            res["map"][an]["hdonor"] = 0
            res["map"][an]["hacceptor"] = 0
    model.cleanup(res)
    lookup = model.set_state(res)
    return lookup, final_atoms(res)


def run_cell(model, loop, R, pos, ff, side, group):
    """Evaluate the loop body for one domain tuple; return (patches applied, warned, lookup, atoms)."""
    res = model.residue(R)
    res["res_seq"] = 7
    chain = [model.residue("ALA") if c == "X" else res for c in SHAPES[pos]]
    model.assign_termini(chain)
    model.peptide_patch(res)
    before = list(res["patches"])
    # the pKa table contains exactly the key of the group under study, built the way the consumer builds it
    keys = {"N+": "N+    7 A", "C-": "C-    7 A"}
    key = keys.get(group, f"{R} 7 A")
    pkadic = {key: Sym("value")}
    env = {"self": {"__biomol__": True}, U(loop.target): res, "force_field": ff, "ph": Sym("ph"), "pkadic": pkadic,
           "__order__ph_value": side, "__cls__": None}
    it = Interp(env, call_hook=model.call_hook(), loop_hook=model.loop_hook())
    try:
        it.run(loop.body)
    except Flow as fl:
        if fl.kind != "continue":
            raise AnalysisError(f"apply_pka_values: unexpected {fl.kind} in the residue loop") from fl
    applied = res["patches"][len(before):]
    from .shared import suppressed_by_filter
    warned = any(t[0] == "log" and t[1] in ("warning", "warn", "error", "critical") and not suppressed_by_filter(model.prog, t[2]) for t in it.trace)
    consumed = any(t[0] == "del" for t in it.trace)
    lookup, atoms = finish_pipeline(model, res, R)
    return applied, warned, lookup, atoms, consumed, res


def default_cell(model, R, pos):
    res = model.residue(R)
    chain = [model.residue("ALA") if c == "X" else res for c in SHAPES[pos]]
    model.assign_termini(chain)
    model.peptide_patch(res)
    lookup, atoms = finish_pipeline(model, res, R)
    return lookup, atoms


def desired_cell(model, R, pos, patch):
    res = model.residue(R)
    chain = [model.residue("ALA") if c == "X" else res for c in SHAPES[pos]]
    model.assign_termini(chain)
    model.peptide_patch(res)
    model.apply_patch(patch, res)
    lookup, atoms = finish_pipeline(model, res, R)
    return lookup, atoms


def status(ffmap, lookup, atoms):
    c = Cell(lookup=lookup, atoms=atoms)
    return ff_status(ffmap, c)


def check(prog, rep):
    t = Tables(prog.root)
    model = Model(prog, t)
    fi, loop = find_body(prog)
    rep.explanation = (
        "decision table of Biomolecule.apply_pka_values (guard cascade evaluated over group x position x "
        "force field x {pH<pKa, pH=pKa, pH>pKa}) compared cell by cell with the support matrix derived from "
        "AA.xml/PATCHES.xml/*.DAT/*.names through the code's own assign_termini/cleanup/set_state naming"
    )
    rep.exhaustive = True
    rep.trusted += ["sa.tables (independent table model, validated against the loaders at development time)",
                    "chemistry table: which patch is the protonated/deprotonated form (9 rows)"]
    rep.assumptions += ["PROPKA supplies one pKa per titratable group", "user-supplied force fields are not decided"]
    rep.not_decided += ["PROPKA's pKa values", "structures whose pKa table has keys the code cannot match",
                        "user-supplied force fields (no table to compare with)"]

    from . import shared as _sh
    # the decision table below is evaluated one residue at a time; that is the whole truth only if the loop carries nothing from one residue
    # to the next (the pKa table loses the entry an iteration has used: keys are per residue, R4)
    _sh.rule_iterations_independent(rep, "R7", "the titration state of a residue does not depend on the residues visited before it", fi, loop,
                                    allowed=("pkadic",), what="residue")
    r1 = rep.rule("R1", "decision table = force-field support matrix (no drop, exact titration)", floor=300)
    r2 = rep.rule("R2", "each patch sits on the chemically right side of the pKa; sides complementary", floor=7)
    r3 = rep.rule("R3", "an unsupported titration keeps the default state AND warns", floor=1)
    patch_sides: dict[str, set] = {}

    tuples = []
    for G in GROUPS:
        for pos in SHAPES:
            tuples.append((G, G, pos))
    for R in AMINO:
        tuples.append(("N+", R, "N"))
        tuples.append(("C-", R, "C"))

    for group, R, pos in tuples:
        patch = TITRATED_STATE[group]
        d_lookup, d_atoms = default_cell(model, R, pos)
        t_lookup, t_atoms = desired_cell(model, R, pos, patch)
        for ff in FFS:
            ffmap = t.ff(ff)
            d_st = status(ffmap, d_lookup, d_atoms)[0]
            t_st, t_miss, _ = status(ffmap, t_lookup, t_atoms)
            for side in ("lt", "eq", "gt"):
                applied, warned, lookup, atoms, consumed, res = run_cell(model, loop, R, pos, ff, side, group)
                for p in applied:
                    patch_sides.setdefault(p, set()).add(side)
                titrating = (side == "lt") if patch in PROTONATING else (side != "lt")
                a_st, a_miss, _ = status(ffmap, lookup, atoms)
                sidetxt = {"lt": "pH<pKa", "eq": "pH=pKa", "gt": "pH>pKa"}[side]
                key = f"cell|{group}:{R if group in ('N+', 'C-') else ''}:{pos}:{ff}:{sidetxt}".replace("::", ":")
                where = f"pdb2pqr/biomolecule.py:{loop.lineno} (Biomolecule.apply_pka_values)"
                # (a) no residue/atom is dropped because of titration
                if d_st == "full" and a_st != "full":
                    r1.bad(key, f"titration applies {applied} -> lookup {lookup!r}, which {ff} does not fully "
                                f"parameterise ({a_st}; missing {a_miss[:4]}); the default state {d_lookup!r} is "
                                "supported, so the residue/atom is dropped from the output because of titration", where)
                    continue
                # (b) exact titration where supported
                if titrating and t_st == "full" and d_st == "full":
                    if (lookup, sorted(atoms)) != (t_lookup, sorted(t_atoms)):
                        r1.bad(key, f"{ff} supports {t_lookup!r} but on {sidetxt} the code leaves {lookup!r} "
                                    f"(patches applied: {applied}); 'protonated exactly when pH < pKa' fails", where)
                        continue
                elif not titrating or t_st != "full":
                    if d_st == "full" and (lookup, sorted(atoms)) != (d_lookup, sorted(d_atoms)):
                        r1.bad(key, f"on {sidetxt} the group should keep its default state {d_lookup!r} "
                                    f"but ends as {lookup!r} (patches applied: {applied})", where)
                        continue
                r1.ok(key, f"applied={applied} lookup={lookup} ff-status={a_st}", where)
                # (c) skip => warning
                if titrating and d_st == "full" and t_st != "full" and not applied:
                    r3.add(key, warned, f"{ff} cannot parameterise {t_lookup!r} ({t_st}); the code keeps the default "
                                        f"state and {'warns' if warned else 'does NOT warn'}", where)

    # R2: orientation, from the sides on which each patch was observed over the whole domain
    for p in sorted(TITRATED_STATE.values()):
        sides = patch_sides.get(p, set())
        want = {"lt"} if p in PROTONATING else {"eq", "gt"}
        if not sides:
            r2.ok(f"orientation|{p}", "patch never applied by apply_pka_values in any cell (nothing to orient)")
            continue
        r2.add(f"orientation|{p}", sides == want,
               f"{p} applied on sides {sorted(sides)}; chemistry requires {sorted(want)} "
               "(protonated form strictly below the pKa, deprotonated form at or above it)",
               f"pdb2pqr/biomolecule.py (Biomolecule.apply_pka_values)")
    # patches applied by the function that the chemistry table does not know: must be classified
    for p in sorted(set(patch_sides) - set(TITRATED_STATE.values())):
        r2.bad(f"orientation|{p}", f"apply_pka_values applies {p}, which is not a titration state known to the "
                                   "checker's chemistry table")

    # R4: producer/consumer key agreement
    r4 = rep.rule("R4", "pKa-table keys the consumer looks up can be produced by the producer", floor=3)
    check_keys(prog, model, loop, r4)
    check_value_flow(prog, rep, fi, loop)
    from . import shared
    shared.rule_patch_isolation(prog, rep, "R6")


def check_value_flow(prog, rep, fi, loop):
    """pKa and pH values flow unmodified from the source to the comparison."""
    r5 = rep.rule("R5", "pKa and pH reach the comparison unmodified", floor=3)
    nt = prog.func("main.py", "non_trivial")
    call = next((c for c in ast.walk(nt.node) if isinstance(c, ast.Call) and U(c.func).endswith(".apply_pka_values")), None)
    w = f"pdb2pqr/main.py:{call.lineno} (non_trivial)"
    # (pH, pKa and force-field arguments: decided on model rows by R4 producer|values-unmodified)
    ffn = prog.func("forcefield.py", "Forcefield.__init__").node
    r5.add("ff-name", "self.name = str(ff_name)" in U(ffn), "Forcefield.name is the (lower-cased) force-field option", "pdb2pqr/forcefield.py (Forcefield.__init__)")
    ta = prog.func("main.py", "transform_arguments").node
    r5.add("ff-lowercased", "args.ff = args.ff.lower()" in U(ta), "built-in force-field names are lower-cased before use (the guard lists are lower case)",
           f"pdb2pqr/main.py:{ta.lineno} (transform_arguments)")
    fn = fi.node
    w2 = f"pdb2pqr/biomolecule.py:{fn.lineno} (Biomolecule.apply_pka_values)"
    rebound = [U(s) for s in ast.walk(fn) if isinstance(s, (ast.Assign, ast.AugAssign)) and
               any(U(t) in ("ph", "force_field") for t in (s.targets if isinstance(s, ast.Assign) else [s.target]))]
    r5.add("parameters-unmodified", not rebound, f"ph/force_field re-bound: {rebound or 'never'}", w2)
    vals = sorted({U(s.value) for s in ast.walk(loop) if isinstance(s, ast.Assign) and U(s.targets[0]) == "value"})
    r5.add("value-from-table", bool(vals) and all(v in ("pkadic[key]", "pkadic.pop(key)", "pkadic.get(key)") for v in vals),
           f"the compared value is bound from {vals}", w2)
    cmps = sorted({U(n) for n in ast.walk(loop) if isinstance(n, ast.Compare) and "ph" in [x.id for x in ast.walk(n) if isinstance(x, ast.Name)]})
    r5.add("comparisons", all(c in ("ph < value", "ph >= value", "ph <= value", "ph > value", "not ph < value", "not ph >= value") for c in cmps) and bool(cmps),
           f"pH/pKa comparisons: {cmps} (both operands bare)", w2)
    # who may write the pH option: nobody after the command line is parsed (a store to an attribute `ph`, or setattr with that name)
    writers = []
    for key, f in prog.funcs.items():
        if f.module.rel == "run.py":
            continue
        for n in walk_no_defs(f.node):
            if isinstance(n, (ast.Assign, ast.AugAssign, ast.AnnAssign)):
                tg = n.targets if isinstance(n, ast.Assign) else [n.target]
                for t_ in tg:
                    for x in ast.walk(t_):
                        if isinstance(x, ast.Attribute) and x.attr == "ph" and isinstance(x.ctx, ast.Store) and U(x.value) != "self":
                            writers.append(f"{key}: {U(n)[:60]}")
            if isinstance(n, ast.Call) and U(n.func) == "setattr" and len(n.args) == 3 and U(n.args[0]) in ("args", "options", "namespace"):
                nm = try_fold(n.args[1], prog.module_env(f.module.rel))
                names = [nm] if isinstance(nm, str) else None
                if names is None and isinstance(n.args[1], ast.Name):
                    # setattr(args, option, ...) inside `for option, ... in TABLE.items()`: the names are the table's keys
                    for lp in ast.walk(f.node):
                        if isinstance(lp, ast.For) and n in list(ast.walk(lp)) and n.args[1].id in {x.id for x in ast.walk(lp.target) if isinstance(x, ast.Name)}:
                            tbl = try_fold(lp.iter.func.value if isinstance(lp.iter, ast.Call) and isinstance(lp.iter.func, ast.Attribute) else lp.iter,
                                           prog.module_env(f.module.rel))
                            if isinstance(tbl, (dict, list, tuple, set)):
                                names = [k_ for k_ in tbl if isinstance(k_, str)]
                if names is None:
                    writers.append(f"{key}: {U(n)[:60]} (attribute name not determined)")
                elif "ph" in names:
                    writers.append(f"{key}: {U(n)[:60]}")
    r5.add("ph-option-unmodified", not writers, f"stores to the pH option after parsing: {writers or 'none'} (the comparison must see the pH the user gave)",
           "pdb2pqr/main.py")
    run = prog.func("main.py", "run_propka").node
    rows = [U(s.value) for s in ast.walk(run) if isinstance(s, ast.Assign) and U(s.targets[0]) == "row_dict['pKa']"]
    r5.add("propka-row", rows == ["group.pka_value"], f"row['pKa'] <- {rows}", f"pdb2pqr/main.py:{run.lineno} (run_propka)")


def check_keys(prog, model, loop, r4):
    """Each key template of apply_pka_values must unify with a key non_trivial can emit."""
    nt = prog.func("main.py", "non_trivial")
    producer = None
    for call in [n for n in ast.walk(nt.node) if isinstance(n, ast.Call)]:
        if U(call.func).endswith(".apply_pka_values"):
            producer = call
    if producer is None:
        raise AnalysisError("non_trivial: call to apply_pka_values not found")
    if len(producer.args) < 3:
        raise AnalysisError("non_trivial: apply_pka_values call without a positional pKa table")
    table = producer.args[2]
    resnums = [1, 12, 123, 1234, -5]
    chains = ["A", ""]
    # rows PROPKA can hand over: side-chain groups labelled by residue name, termini labelled N+/C-
    produced = set()
    # the producer: the block of non_trivial that runs PROPKA and hands the table on is evaluated once per model row, whatever way
    # the table is built (comprehension, loop, helper)
    from ..guards import Flow, Obj
    from ..objinterp import ObjRunner
    blk = None
    for st in ast.walk(nt.node):
        if isinstance(st, ast.If) and any(c is producer for s_ in st.body for c in ast.walk(s_)) and \
                any(isinstance(c, ast.Call) and U(c.func).endswith("run_propka") for s_ in st.body for c in ast.walk(s_)):
            blk = st
    if blk is None:
        raise AnalysisError("non_trivial: the block that runs PROPKA and calls apply_pka_values was not found")
    PKA = Obj({"__class__": "float-model", "__id__": "pKa"})
    PH = Obj({"__class__": "float-model", "__id__": "pH"})
    handed = {"value_ok": True, "ph_ok": True, "ff_ok": True, "n": 0}
    produced_for = {}
    for R in AMINO:
        for num in resnums:
            for ch in chains:
                for label in (f"{R:<3}{num:>4} {ch}", f"N+ {num:>4} {ch}", f"C- {num:>4} {ch}"):
                    row = {"res_name": R, "res_num": num, "chain_id": ch, "group_label": label, "pKa": PKA, "ins_code": " ", "group_type": None}
                    got = []

                    def extra(runner, interp, call, args, kw, got=got, row=row):
                        nm = U(call.func)
                        if nm.endswith("run_propka"):
                            return [[row], "table"]
                        if nm.endswith(".apply_pka_values"):
                            got.append(args)
                            return None
                        if nm.startswith("biomolecule.") or nm.startswith("pformat") or nm.startswith("pprint."):
                            return None
                        return NotImplemented

                    run = ObjRunner(prog, "main.py", extra_hook=extra)
                    env = {"args": Obj({"__class__": "Namespace", "ph": PH, "pka_method": "propka"}), "biomolecule": Obj({"__class__": "Biomolecule"}),
                           "forcefield_": Obj({"__class__": "Forcefield", "name": "parse"})}
                    try:
                        run.run_block(nt, blk.body, env)
                    except Flow as fl:
                        raise AnalysisError(f"non_trivial: the PROPKA block stops with {fl.value} on a model row") from None
                    if len(got) != 1 or len(got[0]) < 3 or not isinstance(got[0][2], dict):
                        raise AnalysisError("non_trivial: apply_pka_values was not called once with a dictionary on the model row")
                    handed["n"] += 1
                    handed["ph_ok"] &= got[0][1] is PH
                    handed["ff_ok"] &= got[0][0] == "parse"
                    for k_, v_ in got[0][2].items():
                        handed["value_ok"] &= v_ is PKA
                        produced.add((k_, "side-chain" if label[:2] not in ("N+", "C-") else label[:2]))
                        if label[:2] not in ("N+", "C-"):
                            produced_for.setdefault((R, num, ch), set()).add(k_)
    r4.info["producer_rows_evaluated"] = handed["n"]
    r4.add("producer|values-unmodified", handed["value_ok"] and handed["ph_ok"] and handed["ff_ok"],
           f"on {handed['n']} model rows the table values are the rows' pKa objects themselves, the pH argument is args.ph and the force-field "
           f"argument is forcefield_.name (pKa {handed['value_ok']}, pH {handed['ph_ok']}, force field {handed['ff_ok']})",
           f"pdb2pqr/main.py:{producer.lineno} (non_trivial)")
    produced_keys = {k for k, _ in produced}
    kinds = {}
    for k, kind in produced:
        kinds.setdefault(k, set()).add(kind)
    clash = {k: sorted(v) for k, v in kinds.items() if len(v) > 1}
    ex = sorted(clash.items())[:2]
    r4.add("keys-distinguish-groups", not clash,
           "rows of different titratable groups never share a key of the table" if not clash else
           f"{len(clash)} keys are produced by rows of different groups, e.g. {ex}: the dictionary keeps the last row, so a terminal residue's "
           "side chain is titrated with the pKa of its terminus (or vice versa)", f"pdb2pqr/main.py:{producer.lineno} (non_trivial)")
    # consumer templates
    templates = []
    for st in ast.walk(loop):
        if isinstance(st, ast.Assign) and len(st.targets) == 1 and U(st.targets[0]) == "key" \
                and any(isinstance(x, ast.JoinedStr) for x in ast.walk(st.value)):
            templates.append(st)
    if len(templates) < 1:
        raise AnalysisError("apply_pka_values: no f-string key templates found")
    for st in templates:
        hits = 0
        for R in AMINO[:4]:
            for num in resnums:
                for ch in chains:
                    it = Interp({"resname": R, "resnum": num, "chain_id": ch})
                    k = it.ev(st.value).strip()
                    if k in produced_keys:
                        hits += 1
        tkey = "keytemplate|" + ("N+" if U(st.value).find("N+") >= 0 else "C-" if U(st.value).find("C-") >= 0 else "sidechain")
        if tkey.endswith("sidechain"):
            # the very residue a row describes must find it: for every model residue (numbers of one to four digits and negative, with and
            # without a chain identifier) the key the consumer builds is the key the producer filed that residue's side-chain row under
            lost = []
            for R in AMINO:
                for num in resnums:
                    for ch in chains:
                        k = Interp({"resname": R, "resnum": num, "chain_id": ch}).ev(st.value).strip()
                        if k not in {x.strip() if isinstance(x, str) else x for x in produced_for.get((R, num, ch), ())}:
                            lost.append(f"{R} {num} {ch!r}: looked up as {k!r}, filed under {sorted(produced_for.get((R, num, ch), ()))}")
            r4.add("keytemplate|sidechain|every-residue", not lost,
                   f"each of the {len(AMINO) * len(resnums) * len(chains)} model residues finds the row PROPKA made for it" if not lost else
                   f"{len(lost)} model residue(s) never find their own row, e.g. {lost[:3]}",
                   f"pdb2pqr/biomolecule.py:{st.lineno} (Biomolecule.apply_pka_values)")
        r4.add(tkey, hits > 0,
               f"consumer key template {U(st.value)} matches {hits} producible key(s); the producer keeps only rows "
               "whose group_label starts with the residue name and keys them '<res_name> <res_num> <chain>'",
               f"pdb2pqr/biomolecule.py:{st.lineno} (Biomolecule.apply_pka_values)")
