"""C04 -- input coordinates are preserved; only rigid side-chain rotations move atoms.

Decided statically: for every (residue, chain position, dihedral) the set of atoms the code
would rotate (rank function read from set_reference_distance, comparison from
get_moveable_names, evaluated on the patched topology) against the graph-theoretic far
side of the rotated bond; who may write coordinates; option gating of the movers.
"""
from __future__ import annotations

import ast
from collections import deque

from ..callgraph import CallGraph
from ..cells import PSEUDO, Model
from ..core import AnalysisError, U, calls_in, guards_of, iter_stmts, parent, try_fold, walk_no_defs
from ..guards import Flow, Interp, Unknown
from ..tables import AMINO, Tables, bond_graph

POSITIONS = {"mid": ("XRX", False, False), "N": ("RX", False, False), "C": ("XR", False, False),
             "nN": ("RX", True, False), "nC": ("XR", False, True)}


def bfs(adj, src):
    dist = {src: 0}
    q = deque([src])
    while q:
        u = q.popleft()
        for v in sorted(adj[u]):
            if v not in dist:
                dist[v] = dist[u] + 1
                q.append(v)
    return dist


def far_side(adj, b, c):
    seen = {c}
    todo = [c]
    while todo:
        u = todo.pop()
        for v in adj[u]:
            if u == c and v == b:
                continue
            if v not in seen:
                seen.add(v)
                todo.append(v)
    return seen


def rank_function(prog, backbone):
    """Returns rank(atomname, residue_flags, dist_to_CA) read from set_reference_distance's per-atom cascade."""
    fn = prog.func("biomolecule.py", "Biomolecule.set_reference_distance").node
    loops = [s for s in ast.walk(fn) if isinstance(s, ast.For) and U(s.iter) == "residue.atoms"]
    body = None
    for lp in loops:
        if any(isinstance(n, ast.Attribute) and n.attr == "refdistance" and isinstance(n.ctx, ast.Store) for n in ast.walk(lp)):
            body = lp
    if body is None:
        raise AnalysisError("set_reference_distance: per-atom loop storing refdistance not found")
    prop = prog.func("structures.py", "Atom.is_backbone").node
    rets = [U(s.value) for s in iter_stmts(prop.body) if isinstance(s, ast.Return)]
    if rets != ["self.name in BACKBONE"]:
        raise AnalysisError(f"Atom.is_backbone left the recognised shape: {rets}")

    def rank(name, is_n, is_c, dist):
        atom = {"name": name, "is_backbone": name in backbone, "refdistance": None}
        res = {"is_n_term": is_n, "is_c_term": is_c}

        def hook(interp, call):
            nm = U(call.func)
            if nm == "util.shortest_path":
                return None if dist is None else list(range(dist + 1))
            raise AnalysisError(f"set_reference_distance: unsupported call {nm}")

        it = Interp({U(body.target): atom, "residue": res, "caatom": {"name": "CA"}, "map_": {}}, call_hook=hook)
        try:
            it.run(body.body)
        except Flow as fl:
            if fl.kind == "raise":
                return "RAISE"
            if fl.kind != "continue":  # a guard clause that goes on to the next atom ends this atom's turn like falling off the end
                raise
        return atom["refdistance"]

    return rank


def check(prog, rep):
    rep.explanation = (
        "torsion move-set table: rank function read from Biomolecule.set_reference_distance and the comparison from "
        "Residue.get_moveable_names, evaluated on the patched topology of every (residue, chain position, dihedral) "
        "and compared with the far side of the rotated bond; whole-program who-may-write-coordinates table; guard "
        "analysis of the call sites of the heavy-atom movers"
    )
    rep.exhaustive = True
    rep.not_decided += ["which residues get rotated for a given packing",
                        "floating-point drift of atoms that are not written (none are: R2)"]
    t = Tables(prog.root)
    model = Model(prog, t)
    consts = prog.module_constants("config.py")
    backbone = consts.get("BACKBONE")
    if not isinstance(backbone, list):
        raise AnalysisError("config.BACKBONE does not fold to a list")
    rank = rank_function(prog, backbone)
    gm_info = prog.func("residue.py", "Residue.get_moveable_names")
    gm = gm_info.node
    gparams = [a.arg for a in gm.args.args]
    if len(gparams) != 2:
        raise AnalysisError("get_moveable_names: unexpected signature")

    # attributes every residue object starts with as an empty container (read from the constructors), so that a selection
    # procedure that keeps state of its own can still be evaluated on the model
    fresh_attrs = {}
    for qual in ("Residue.__init__",):
        for st in iter_stmts(prog.func("residue.py", qual).node.body):
            if isinstance(st, ast.Assign) and isinstance(st.targets[0], ast.Attribute) and U(st.targets[0].value) == "self":
                if isinstance(st.value, ast.Dict) and not st.value.keys:
                    fresh_attrs[st.targets[0].attr] = dict
                elif isinstance(st.value, ast.List) and not st.value.elts:
                    fresh_attrs[st.targets[0].attr] = list

    def moved_names(adj, ranks, pivot):
        """Evaluate the selection procedure of get_moveable_names on the topology model of one residue."""
        from ..guards import Obj
        resobj = Obj({"__res__": True})
        atoms = {}
        for a in adj:
            atoms[a] = Obj({"name": a, "refdistance": ranks[a] if ranks[a] is not None else 0, "is_backbone": a in backbone, "residue": resobj,
                            "is_hydrogen": a.startswith("H"), "bonds": []})  # (hashable by identity, like the atoms they stand for)
        for a in adj:
            atoms[a]["bonds"] = [atoms[b] for b in sorted(adj[a])]
        resobj["atoms"] = [atoms[a] for a in adj]
        resobj["map"] = atoms
        for attr, mk in fresh_attrs.items():
            resobj.setdefault(attr, mk())

        def hook(interp, call):
            nm = U(call.func)
            if nm in ("self.get_atom",) and call.args:
                return atoms.get(interp.ev(call.args[0]))
            if nm == "self.has_atom" and call.args:
                return interp.ev(call.args[0]) in atoms
            if nm in ("len", "list", "set", "sorted"):
                args = [interp.ev(x) for x in call.args]
                return {"len": len, "list": list, "set": lambda v: v, "sorted": lambda v: v}[nm](*args)
            if isinstance(call.func, ast.Attribute) and call.func.attr in ("add", "append", "extend", "discard", "remove", "pop", "update", "copy", "insert",
                                                                          "popleft", "appendleft", "index", "count", "union", "difference"):
                recv = interp.ev(call.func.value)
                if isinstance(recv, (list, set)) or (isinstance(recv, dict) and not isinstance(recv, Obj)):
                    return getattr(recv, call.func.attr)(*[interp.ev(x) for x in call.args])  # bookkeeping containers of the procedure itself
            if nm in ("deque", "collections.deque") and len(call.args) <= 1:
                return list(interp.ev(call.args[0])) if call.args else []
            raise AnalysisError(f"get_moveable_names: unsupported call {nm!r}: the selection procedure left the analysable subset")

        it = Interp({"self": resobj, gparams[1]: pivot}, call_hook=hook, loop_hook=model.loop_hook())
        try:
            it.run(gm.body)
        except Flow as fl:
            if fl.kind == "return":
                val = fl.value
                if isinstance(val, Unknown) or not isinstance(val, list):
                    raise AnalysisError("get_moveable_names: result is not a list of names on the model")
                return set(val)
            raise AnalysisError(f"get_moveable_names: unexpected {fl.kind}")
        raise AnalysisError("get_moveable_names: no value returned on the model")

    # pivot = third atom of the dihedral (read from set_dihedral_angle)
    sd = prog.func("debump.py", "Debump.set_dihedral_angle").node
    piv = [U(s.value) for s in iter_stmts(sd.body) if isinstance(s, ast.Assign) and U(s.targets[0]) == "pivot" and isinstance(s.value, ast.Subscript)]
    if piv != ["atomnames[2]"]:
        raise AnalysisError(f"set_dihedral_angle: pivot is {piv}, expected atomnames[2]")

    # ------------------------------------------------------------------ R1
    r1 = rep.rule("R1", "a torsion change rotates exactly the far side of the rotated bond", floor=60)
    pivot_moved = []
    extra_by_atom: dict[str, dict] = {}
    missing_by_atom: dict[str, dict] = {}
    n_inst = 0
    ring_bad = []
    for R in AMINO:
        for pos, (shape, nn, nc) in POSITIONS.items():
            res = model.residue(R)
            chain = [model.residue("ALA") if ch == "X" else res for ch in shape]
            model.assign_termini(chain, neutraln=nn, neutralc=nc)
            model.peptide_patch(res)
            ref = res["__ref__"]
            adj = bond_graph(ref)
            for p in PSEUDO:
                if p in adj:
                    for v in adj.pop(p):
                        adj[v].discard(p)
            if "CA" not in adj:
                continue
            dist = bfs(adj, "CA")
            ranks = {a: rank(a, bool(res["is_n_term"]), bool(res["is_c_term"]), dist.get(a)) for a in adj}
            for dih in ref.dihedrals:
                names = dih.split()
                if len(names) != 4 or any(x not in adj for x in names):
                    continue
                a, b, c, d = names
                n_inst += 1
                fs = far_side(adj, b, c)
                if b in fs:
                    ring_bad.append(f"{R}:{pos}:{dih}")
                    continue
                expect = fs - {c}
                if "RAISE" in ranks.values() or ranks[c] in (None, "RAISE"):
                    raise AnalysisError(f"rank function raises on the complete topology of {R} ({pos})")
                moved = moved_names(adj, ranks, c)
                if c in moved:
                    pivot_moved.append(f"{R}:{pos}:{dih}")
                key_inst = f"{R}:{pos}:{dih}"
                for x in moved - expect:
                    extra_by_atom.setdefault(x, {}).setdefault(R, []).append(f"{pos}:{dih}")
                for x in expect - moved:
                    missing_by_atom.setdefault(x, {}).setdefault(R, []).append(f"{pos}:{dih}")
    r1.info["instances"] = n_inst
    where = "pdb2pqr/biomolecule.py (set_reference_distance) / pdb2pqr/residue.py (get_moveable_names)"
    ok_atoms = 0
    all_atoms = sorted({a for R in AMINO for a in t.map[R].atoms} | {"OXT", "HO", "H2", "H3"})
    for x in all_atoms:
        if x in PSEUDO:
            continue
        if x in extra_by_atom:
            rs = extra_by_atom[x]
            n = sum(len(v) for v in rs.values())
            rlist = "all" if len(rs) >= 19 else ",".join(sorted(rs))
            ex = next(iter(rs.items()))
            r1.bad(f"moved-wrongly|{x}|{rlist}", f"atom {x} is rotated by {n} torsion instance(s) although it is not on the far "
                   f"side of the rotated bond (e.g. {ex[0]} {ex[1][0]}); it is not rigidly attached to the rotating group", where)
        elif x in missing_by_atom:
            rs = missing_by_atom[x]
            n = sum(len(v) for v in rs.values())
            rlist = "all" if len(rs) >= 19 else ",".join(sorted(rs))
            ex = next(iter(rs.items()))
            r1.bad(f"left-behind|{x}|{rlist}", f"atom {x} belongs to the far side of {n} torsion instance(s) but is not rotated "
                   f"(e.g. {ex[0]} {ex[1][0]}): bond lengths to it change", where)
        else:
            ok_atoms += 1
            r1.ok(f"atom|{x}", "moved by a torsion change iff it lies on the far side of the rotated bond, in every instance", where)
    r1.add("no-ring-bonds", not ring_bad, f"dihedrals whose central bond lies in a ring: {ring_bad or 'none'}", "pdb2pqr/dat/AA.xml")
    r1.add("pivot-not-moved", not pivot_moved, "the pivot atom itself is never in the moved set" if not pivot_moved else
           f"the pivot atom is rotated in {pivot_moved[:3]}", f"pdb2pqr/residue.py:{gm.lineno} (get_moveable_names)")

    selection_history_free(prog, r1, gm_info)
    rep.guarded(rule_scan_uses_own_move_set, prog, rep)
    rep.guarded(rule_reference_distance_is_shortest, prog, rep)
    rep.guarded(rule_gap_is_loud, prog, rep, "R8")
    from . import shared as _shared
    rep.guarded(_shared.rule_decoration_columns_unused, prog, rep, "R9", "input atoms are removed or moved for reasons of names, bonds and geometry only: occupancy and temperature factor never decide it",
                ("remove_atom", "set_dihedral_angle", "rotate_tetrahedral"), (), 1, "removing or moving an input atom")
    flip_twins(prog, r1, t, model, backbone, rank, moved_names)

    # ------------------------------------------------------------------ R2
    r2 = rep.rule("R2", "coordinates are written only by constructors, on fresh atoms, or by the two rigid movers", floor=15)
    g = CallGraph(prog)
    reach = g.reachable()
    classes = {
        "ctor": "constructor/parser initialising its own fresh object",
        "fresh": "atom created in the same call tree (create_atom / placement of an added hydrogen or lone pair)",
        "rigid": "rigid mover: stored values are qchichange outputs plus the subtracted origin",
    }
    table = {
        "aa.py::Amino.create_atom": "fresh", "aa.py::LIG.create_atom": "fresh", "aa.py::WAT.create_atom": "fresh",
        "na.py::Nucleic.create_atom": "fresh", "definitions.py::DefinitionAtom.__init__": "ctor",
        "ligand/mol2.py::Mol2Atom.__init__": "ctor", "ligand/mol2.py::Mol2Molecule.parse_atoms": "ctor",
        "pdb.py::ATOM.__init__": "ctor", "pdb.py::HETATM.__init__": "ctor", "pdb.py::CRYST1.__init__": "ctor",
        "structures.py::Atom.__init__": "ctor", "structures.py::Atom.from_pqr_line": "ctor",
        "structures.py::Atom.from_qcd_line": "ctor", "topology.py::TopologyAtom.__init__": "ctor",
        "topology.py::TopologyHandler.characters": "ctor",
        "hydrogens/optimize.py::Optimize.try_positions_with_two_bonds_h": "fresh",
        "hydrogens/optimize.py::Optimize.try_positions_with_two_bonds_lp": "fresh",
        "hydrogens/optimize.py::Optimize.try_single_alcoholic_h": "fresh",
        "hydrogens/optimize.py::Optimize.try_single_alcoholic_lp": "fresh",
        "hydrogens/structures.py::Alcoholic.finalize": "fresh", "hydrogens/structures.py::Water.finalize": "fresh",
        "debump.py::Debump.set_dihedral_angle": "rigid", "residue.py::Residue.rotate_tetrahedral": "rigid",
        "hydrogens/__init__.py::HydrogenRoutines.pka_switchstate": "ctor",
    }
    _index_makers(prog)
    writers = {}
    for key, f in prog.funcs.items():
        st = [n for n in walk_no_defs(f.node) if isinstance(n, ast.Attribute) and isinstance(n.ctx, ast.Store) and n.attr in ("x", "y", "z")]
        for c in calls_in(f.node):
            if U(c.func) == "setattr" and len(c.args) >= 2 and isinstance(c.args[1], ast.Constant) and c.args[1].value in ("x", "y", "z"):
                st.append(c)
        if st:
            writers[key] = st
    for key, st in sorted(writers.items()):
        f = prog.funcs[key]
        where = f"pdb2pqr/{f.module.rel}:{st[0].lineno} ({f.qual})"
        kind = table.get(key)
        if key not in reach and kind is not None:
            r2.ok(f"writer|{key}", "unreachable legacy code (excluded; comes back into scope if something calls it)", where)
            continue
        if kind is None:
            # a writer the table does not know: accepted only if every store provably goes to an object constructed in the same function
            bases_ = sorted({U(n.value) for n in st if isinstance(n, ast.Attribute)})
            if bases_ and all(isinstance(n, ast.Attribute) for n in st) and all(_fresh(f.node, b) for b in bases_):
                r2.ok(f"writer|{key}", f"new writer, verified: stores on {bases_}, each constructed in this function (placement of a fresh atom)", where)
            else:
                r2.bad(f"writer|{key}", "new coordinate writer: not a constructor, not a placement of a fresh atom, not a rigid mover", where)
            continue
        ok, why = verify_writer(prog, f, st, kind)
        r2.add(f"writer|{key}", ok, f"{classes[kind]}: {why}", where)
    # callers of the heavy-atom mover
    callers = sorted(k for k in prog.funcs for c in calls_in(prog.funcs[k].node) if U(c.func).endswith("set_dihedral_angle"))
    want = {"debump.py::Debump.debump_residue", "hydrogens/structures.py::Flip.__init__", "hydrogens/structures.py::Carboxylic.__init__"}
    r2.add("callers|set_dihedral_angle", set(callers) <= want, f"set_dihedral_angle is called from {callers}", "pdb2pqr/debump.py")

    # ------------------------------------------------------------------ R3
    r3 = rep.rule("R3", "heavy-atom movers run only when debumping/optimisation is requested", floor=4)
    nt = prog.func("main.py", "non_trivial").node
    mover = "debump.py::Debump.set_dihedral_angle"
    n_gate = {}
    for c in calls_in(nt):
        targets, _ = g.resolve(prog.funcs["main.py::non_trivial"], c)
        if not targets:
            continue
        if not any(g.reaches([tk.key], mover) for tk in targets):
            continue
        gs = [(U(tst), pol) for tst, pol in guards_of(c)]
        nm = U(c.func)
        no_assign = ("args.assign_only", False) in gs
        if nm.endswith("debump_biomolecule"):
            ok = no_assign and ("args.debump", True) in gs
        elif nm.endswith("initialize_full_optimization"):
            ok = no_assign and ("args.opt", True) in gs
        elif nm.endswith("initialize_wat_optimization"):
            # reaches the mover only through the dynamic class lookup; the class guard is decided by 'water-only-initialiser'
            ok = no_assign and ("args.opt", False) in gs
        elif nm.endswith(("optimize_hydrogens", "HydrogenRoutines", "cleanup", "set_optimizeable_hydrogens")):
            ok = no_assign  # acts on the optimisation list built by one of the two initialisers
        else:
            ok = no_assign and (("args.debump", True) in gs or ("args.opt", True) in gs)
        n_gate[nm] = n_gate.get(nm, 0) + 1
        r3.add(f"gate|{nm}#{n_gate[nm]}", ok, f"{nm}() can reach set_dihedral_angle; guards {gs}",
               f"pdb2pqr/main.py:{c.lineno} (non_trivial)")
    ta = prog.func("main.py", "transform_arguments").node
    switches = [st for st in ta.body if isinstance(st, ast.If) and U(st.test) in ("args.assign_only or args.clean", "args.clean or args.assign_only")
                and {U(s.targets[0]): U(s.value) for s in st.body if isinstance(s, ast.Assign)} == {"args.debump": "False", "args.opt": "False"}]
    later = [s for st in ta.body[ta.body.index(switches[-1]) + 1:] for s in iter_stmts([st]) if isinstance(s, ast.Assign)
             and U(s.targets[0]) in ("args.debump", "args.opt") and U(s.value) != "False"] if switches else []
    ok = bool(switches) and not later
    # the two switches are never turned ON by code: only the user's options (argparse) enable the movers
    turned_on = []
    for key_, f_ in prog.funcs.items():
        for s_ in iter_stmts(f_.node.body):
            tgts = s_.targets if isinstance(s_, ast.Assign) else [s_.target] if isinstance(s_, (ast.AugAssign, ast.AnnAssign)) else []
            for tg in tgts:
                if isinstance(tg, ast.Attribute) and tg.attr in ("debump", "opt") and isinstance(tg.value, ast.Name) and tg.value.id in ("args", "options", "namespace") \
                        and not (isinstance(s_.value, ast.Constant) and s_.value.value is False):
                    turned_on.append(f"{f_.module.rel}:{s_.lineno} {U(s_)[:40]}")
        for c_ in calls_in(f_.node):
            if U(c_.func) == "setattr" and len(c_.args) == 3 and isinstance(c_.args[1], ast.Constant) and c_.args[1].value in ("debump", "opt"):
                turned_on.append(f"{f_.module.rel}:{c_.lineno} {U(c_)[:40]}")
    r3.add("switches-never-set-by-code", not turned_on, "no statement sets args.debump / args.opt to anything but False" if not turned_on else
           f"code enables a mover the user switched off (--nodebump/--noopt no longer guarantee that heavy atoms stay): {turned_on}",
           f"pdb2pqr/main.py:{ta.lineno} (transform_arguments)")
    r3.add("assign-only/clean-switch-off", ok, "transform_arguments clears debump and opt under --assign-only/--clean",
           f"pdb2pqr/main.py:{ta.lineno} (transform_arguments)")
    md = prog.func("main.py", "main_driver").node
    clean_if = [s for s in md.body if isinstance(s, ast.If) and U(s.test) == "args.clean"]
    ok = bool(clean_if) and not any(U(c.func) == "non_trivial" for c in calls_in(ast.Module(body=clean_if[0].body, type_ignores=[]))) \
        and any(U(c.func) == "non_trivial" for c in calls_in(ast.Module(body=clean_if[0].orelse, type_ignores=[])))
    r3.add("clean-skips-pipeline", ok, "--clean never enters non_trivial", f"pdb2pqr/main.py:{md.lineno} (main_driver)")
    # the water-only initialiser instantiates only classes that cannot reach the heavy mover
    iw = prog.func("hydrogens/__init__.py", "HydrogenRoutines.initialize_wat_optimization").node
    inst = [c for c in calls_in(iw) if U(c.func) == "klass"]
    wat_ok = False
    detail = "no class instantiation found"
    if inst:
        gs = [(U(tst), pol) for tst, pol in guards_of(inst[0])]
        lit = [tst for tst, pol in gs if pol and "== 'Water'" in tst]
        wcls = prog.cls("hydrogens/structures.py", "Water")
        reach_w = set()
        for m in wcls.methods.values():
            reach_w |= g.closure(m.key)
        for base in prog.mro(wcls)[1:]:
            for m in base.methods.values():
                reach_w |= g.closure(m.key)
        wat_ok = bool(lit) and mover not in reach_w
        detail = f"instantiation guarded by {gs}; Water methods reach set_dihedral_angle: {mover in reach_w}"
    r3.add("water-only-initialiser", wat_ok, detail, f"pdb2pqr/hydrogens/__init__.py:{iw.lineno} (initialize_wat_optimization)")


MEMBERSHIP_MUTATORS = {"append", "remove", "insert", "pop", "extend", "clear"}


def flip_twins(prog, r1, t, model, backbone, rank, moved_names):
    """A Flip pre-rotates the residue by 180 degrees and keeps a *FLIP twin at the old position of every atom it caches.
    When the un-flipped state wins the twins are what survives, so the cached names must be exactly the atoms the rotation
    moves - at every chain position."""
    import xml.etree.ElementTree as ET
    fi = prog.func("hydrogens/structures.py", "Flip.__init__")
    fn = fi.node
    where = f"pdb2pqr/hydrogens/structures.py:{fn.lineno} (Flip.__init__)"
    cache = None
    for k, st in enumerate(fn.body):
        if isinstance(st, ast.For) and any(isinstance(x, ast.Assign) and isinstance(x.targets[0], ast.Subscript) and "coords" in U(x.value)
                                           for x in iter_stmts(st.body)):
            cache = (k, st)
            break
    if cache is None:
        raise AnalysisError("Flip.__init__: the loop that caches the coordinates of the atoms to be flipped was not found")
    k_cache, loop = cache
    hyd = ET.parse(t.dat / "HYDROGENS.xml").getroot()
    flips = [(c.findtext("name"), c.findtext("optangle")) for c in hyd.iter("class") if c.findtext("opttype") == "Flip"]
    if not flips:
        raise AnalysisError("HYDROGENS.xml defines no Flip class")
    params = [a.arg for a in fn.args.args]
    n = 0
    for R, dih in flips:
        if R not in t.map:
            continue
        for pos, (shape, nn, nc) in POSITIONS.items():
            res = model.residue(R)
            chain = [model.residue("ALA") if ch == "X" else res for ch in shape]
            model.assign_termini(chain, neutraln=nn, neutralc=nc)
            model.peptide_patch(res)
            ref = res["__ref__"]
            adj = bond_graph(ref)
            for p in PSEUDO:
                if p in adj:
                    for v in adj.pop(p):
                        adj[v].discard(p)
            names = dih.split()
            if any(x not in adj for x in names):
                continue
            dist = bfs(adj, "CA")
            ranks = {a: rank(a, bool(res["is_n_term"]), bool(res["is_c_term"]), dist.get(a)) for a in adj}
            pivot = names[2]
            moved = moved_names(adj, ranks, pivot)
            order = [a for a in ref.atoms if a in moved]

            def hook(interp, call, order=order, pivot=pivot):
                nm = U(call.func)
                if nm.endswith(".get_moveable_names"):
                    got = interp.ev(call.args[0])
                    if got != pivot:
                        raise AnalysisError(f"Flip.__init__ asks for the atoms beyond {got!r}; the flip rotates about {pivot!r}")
                    return list(order)
                if isinstance(call.func, ast.Attribute) and call.func.attr in ("split", "index"):
                    base = interp.ev(call.func.value)
                    return getattr(base, call.func.attr)(*[interp.ev(a) for a in call.args])
                if nm in ("len", "list", "set", "sorted", "tuple"):
                    return {"len": len, "list": list, "set": list, "sorted": sorted, "tuple": tuple}[nm](*[interp.ev(a) for a in call.args])
                raise AnalysisError(f"Flip.__init__: unsupported call {nm!r} before the coordinate cache")

            resobj = {"name": R, "is_c_term": bool(res["is_c_term"]), "is_n_term": bool(res["is_n_term"]), "patches": list(res["patches"]),
                      "__res__": True}
            env = {params[0]: {"__flip__": True}, params[1]: resobj, params[2]: {"optangle": dih, "__opt__": True},
                   params[3]: {"__routines__": True}}
            it = Interp(env, call_hook=hook, loop_hook=model.loop_hook())
            it.run(fn.body[:k_cache])
            cached = it.ev(loop.iter)
            if isinstance(cached, dict):
                cached = list(cached)
            if not isinstance(cached, (list, tuple)):
                raise AnalysisError("Flip.__init__: the cached name list is not determined by the topology")
            n += 1
            lost = sorted(set(moved) - set(cached))
            extra = sorted(set(cached) - set(moved))
            r1.add(f"flip-twins|{R}:{pos}", not lost and not extra,
                   f"{R} at {pos}: the flip about {names[1]}-{pivot} moves {sorted(moved)} and caches {sorted(cached)}" +
                   (f" -- {lost} are rotated but get no *FLIP twin: when the un-flipped state is kept they stay rotated while the rest of the "
                    "group returns (bond lengths and angles inside the residue collapse)" if lost else "") +
                   (f" -- {extra} are twinned although the rotation does not move them" if extra else ""), where)
    if not n:
        raise AnalysisError("no Flip instance could be evaluated")


def _self_state_writes(fn):
    """Attributes of self that fn stores to (assignment, item store or mutator call)."""
    out = set()
    for n in walk_no_defs(fn):
        if isinstance(n, ast.Attribute) and isinstance(n.ctx, ast.Store) and U(n.value) == "self":
            out.add(n.attr)
        if isinstance(n, ast.Subscript) and isinstance(n.ctx, (ast.Store, ast.Del)) and isinstance(n.value, ast.Attribute) and U(n.value.value) == "self":
            out.add(n.value.attr)
        if isinstance(n, ast.Call) and isinstance(n.func, ast.Attribute) and n.func.attr in MEMBERSHIP_MUTATORS | {"update", "setdefault"} \
                and isinstance(n.func.value, ast.Attribute) and U(n.func.value.value) == "self":
            out.add(n.func.value.attr)
    return out


def selection_history_free(prog, r1, gm_info):
    """The moved set must be a function of the residue's current atoms and bonds.  If the selection procedure keeps
    state on the residue (a memo), every method that changes the residue's atom membership must reset that state."""
    gm = gm_info.node
    where = f"pdb2pqr/residue.py:{gm.lineno} (Residue.get_moveable_names)"
    written = _self_state_writes(gm)
    read = {n.attr for n in walk_no_defs(gm) if isinstance(n, ast.Attribute) and isinstance(n.ctx, ast.Load) and U(n.value) == "self"}
    memo = sorted(written & read) if written else []
    if written and not memo:
        memo = sorted(written)
    if not memo:
        r1.ok("selection-is-history-free", "get_moveable_names keeps no state on the residue: the moved set is recomputed from the current atoms "
              "and bonds at every call", where)
        return
    # every method of a residue class that changes self.atoms must reset the memo
    stale = []
    n_mut = 0
    for key, f in prog.funcs.items():
        if f.cls is None or f.node is gm:
            continue
        changes = any(isinstance(n, ast.Call) and isinstance(n.func, ast.Attribute) and n.func.attr in MEMBERSHIP_MUTATORS
                      and U(n.func.value) == "self.atoms" for n in walk_no_defs(f.node))
        changes = changes or any(isinstance(n, ast.Delete) and any(U(t).startswith("self.atoms[") for t in n.targets) for n in walk_no_defs(f.node))
        if not changes:
            continue
        n_mut += 1
        resets = _self_state_writes(f.node)
        if not set(memo) <= resets:
            stale.append(f"{f.module.rel}:{f.node.lineno} {f.qual}")
    r1.add("selection-is-history-free", not stale,
           f"get_moveable_names keeps state in self.{', self.'.join(memo)}; {n_mut} methods change self.atoms"
           + ("; all of them reset it (bond-only changes are not decided)" if not stale else
              f"; these do not reset it: {stale}. A moved set computed before atoms are added through them (hydrogens built after the first "
              "debump pass) is reused afterwards: the heavy atoms rotate and the new hydrogens stay behind"), where)


def verify_writer(prog, f, stores, kind):
    fn = f.node
    bases = sorted({U(n.value) for n in stores if isinstance(n, ast.Attribute)})
    if kind == "ctor":
        ok = all(b == "self" or b.startswith("self.") or _fresh(fn, b) for b in bases)
        return ok, f"stores on {bases}"
    if kind == "fresh":
        good = []
        for b in bases:
            params = [a.arg for a in fn.args.args]
            if _fresh(fn, b):
                good.append(f"{b}: constructed here")
            elif b in params and b in ("newatom",):
                # placement helper: every caller passes the atom it has just created
                callers_ok = True
                n_call = 0
                for k2, f2 in prog.funcs.items():
                    for c in calls_in(f2.node):
                        if isinstance(c.func, ast.Attribute) and c.func.attr == fn.name and c.args:
                            n_call += 1
                            idx = params.index(b) - 1
                            arg = U(c.args[idx]) if idx < len(c.args) else "?"
                            if not _created_here(f2.node, arg):
                                callers_ok = False
                if callers_ok:
                    good.append(f"{b}: parameter, {n_call} caller(s) all pass the atom they created")
            elif _created_here(fn, b):
                good.append(f"{b}: obtained by get_atom() of a name created in this function")
        return len(good) == len(bases), "; ".join(good) if good else f"cannot show that {bases} are fresh"
    if kind == "rigid":
        # decided semantically: the mover is evaluated on atoms with symbolic coordinates (C15.R4): what it stores is the output
        # of the rotation primitive plus the origin atom, atom by atom, and nothing else moves
        try:
            import sympy as sp
            from ..report import Report
            from . import c15
            sub = Report("C15", "quick")
            r_sub = sub.rule("R4", "call sites", floor=0)
            c15.rule_callsite_semantics(prog, r_sub, sp)
            mine = [ob for ob in r_sub.obs if ob.key.endswith("|" + fn.name)]
            if mine:
                bad = [ob.key for ob in mine if not ob.ok]
                return not bad, (f"symbolic evaluation: {len(mine)} obligations on the values stored (rotation output + origin; near side fixed)" if not bad
                                 else f"symbolic evaluation refutes {bad}")
        except AnalysisError:
            pass
        # fallback (shape): stored values: <newcoords>[i][k] + <origin>, newcoords = quat.qchichange(...)
        nc = [U(s.targets[0]) for s in iter_stmts(fn.body) if isinstance(s, ast.Assign) and isinstance(s.value, ast.Call)
              and U(s.value.func) == "quat.qchichange"]
        if len(nc) != 1:
            return False, "no single qchichange result"
        okv = True
        for s in iter_stmts(fn.body):
            if isinstance(s, ast.Assign) and isinstance(s.targets[0], ast.Attribute) and s.targets[0].attr in ("x", "y", "z"):
                v = s.value
                k = "xyz".index(s.targets[0].attr)
                if not (isinstance(v, ast.BinOp) and isinstance(v.op, ast.Add) and U(v.left).startswith(f"{nc[0]}[") and U(v.left).endswith(f"[{k}]")):
                    okv = False
        return okv, f"values are {nc[0]}[i][k] + origin with {nc[0]} = quat.qchichange(...)"
    return False, "unknown kind"


_MAKERS = set()


def _index_makers(prog):
    """make_* helpers that create the atom whose name they are given (contain a create_atom call)."""
    for k, f in prog.funcs.items():
        if f.node.name.startswith("make_") and any(isinstance(c.func, ast.Attribute) and c.func.attr == "create_atom"
                                                    for c in calls_in(f.node)):
            _MAKERS.add(f.node.name)


def _fresh(fn, name):
    """name is bound in fn to a constructor call (Atom(...), cls(), struct.Atom(...))."""
    for s in iter_stmts(fn.body):
        if isinstance(s, ast.Assign) and any(U(t) == name for t in s.targets) and isinstance(s.value, ast.Call):
            c = U(s.value.func)
            if c in ("cls", "Atom", "struct.Atom", "structures.Atom", "Mol2Atom") or c.endswith(".Atom"):
                return True
    return False


def _created_here(fn, name):
    """name = residue.get_atom(X) where residue.create_atom(X, ...) precedes it in the same function."""
    created = set()
    for s in iter_stmts(fn.body):
        for c in calls_in(s):
            if isinstance(c.func, ast.Attribute) and c.func.attr == "create_atom" and c.args:
                created.add(U(c.args[0]))
            if isinstance(c.func, ast.Attribute) and c.func.attr.startswith("make_") and c.func.attr in _MAKERS:
                for a in c.args:
                    created.add(U(a))
        if isinstance(s, ast.Assign) and any(U(t) == name for t in s.targets) and isinstance(s.value, ast.Call) \
                and isinstance(s.value.func, ast.Attribute) and s.value.func.attr == "get_atom" and s.value.args \
                and U(s.value.args[0]) in created:
            return True
    return False


def rule_scan_uses_own_move_set(prog, rep):
    """Debump.debump_residue is evaluated on a model residue with two torsions whose move sets differ, in a neighbourhood that is never
    cured (so both torsions are tried): every rotation must move exactly the atoms beyond the bond of the torsion being set - not a list
    remembered from the previous torsion."""
    from ..guards import Flow, Obj
    from ..objinterp import ObjRunner
    r = rep.rule("R6", "debump scan: each torsion that is tried rotates its own far side", floor=2)
    fi = prog.func("debump.py", "Debump.debump_residue")
    sd = prog.func("debump.py", "Debump.set_dihedral_angle")
    where = f"pdb2pqr/debump.py:{fi.node.lineno} (Debump.debump_residue)"
    angle_param = sd.node.args.args[2].arg
    move = {"CB": ["CG1", "CG2", "CD1", "HB"], "CG1": ["CD1", "HG12"], "CD1": ["HD11"]}
    dihedrals = ["N CA CB CG1", "CA CB CG1 CD1", "CB CG1 CD1 HD11"]
    coords = {"coords": lambda a_: [a_["x"], a_["y"], a_["z"]]}
    for order_name, picks in (("torsions tried in table order", [0, 1, 2, -1]), ("last torsion first", [2, 0, 1, -1]), ("one torsion twice", [1, 1, 0, -1])):
        names = ["N", "CA", "CB", "CG1", "CG2", "CD1", "HB", "HG12", "HD11"]
        res = Obj({"__class__": "ILE", "name": "ILE", "dihedrals": [60.0, 170.0, 55.0], "map": {}, "atoms": [],
                   "reference": Obj({"__class__": "DefinitionResidue", "dihedrals": list(dihedrals)})})
        for k, n_ in enumerate(names):
            a = Obj({"__class__": "Atom", "name": n_, "x": 1.5 * k, "y": 0.3 * k * k, "z": -0.7 * k, "residue": res, "cell": None, "__props__": coords})
            res["map"][n_] = a
            res["atoms"].append(a)
        script = {"picks": list(picks)}
        rotations = []

        def extra(runner, interp, call, args, kw, res=res, script=script, rotations=rotations):
            nm = U(call.func)
            f_ = call.func
            if isinstance(f_, ast.Attribute):
                recv_txt = U(f_.value)
                if f_.attr == "pick_dihedral_angle":
                    return script["picks"].pop(0) if script["picks"] else -1
                if f_.attr == "get_moveable_names" and args:
                    return list(move[args[0]])
                if f_.attr == "get_atom" and args and recv_txt.endswith("residue"):
                    return res["map"].get(args[0])
                if f_.attr == "has_atom" and args and recv_txt.endswith("residue"):
                    return args[0] in res["map"]
                if f_.attr == "find_residue_conflicts":
                    return ["CD1"]
                if f_.attr == "find_nearby_atoms":
                    return {}
                if f_.attr in ("remove_cell", "add_cell"):
                    if f_.attr == "remove_cell" and rotations:
                        rotations[-1][1].append(args[0]["name"])
                    return None
            if nm.endswith("qchichange") and len(args) == 3:
                rotations.append((interp.env.get(angle_param), [], len(args[1])))
                return [[1.0 * i, 2.0, 3.0] for i in range(len(args[1]))]
            if nm.endswith("subtract") and len(args) == 2:
                return [a - b for a, b in zip(args[0], args[1])]
            if nm.endswith("dihedral") and len(args) == 4:
                return 0.0
            return NotImplemented

        run = ObjRunner(prog, "debump.py", extra_hook=extra)
        deb = Obj({"__class__": "Debump", "biomolecule": None, "cells": Obj({"__class__": "<cells>"}), "definition": None, "aadef": None})
        # attributes a refactoring may add in __init__ / at the start of a debump pass: take them from the constructor's own assignments
        init = prog.func("debump.py", "Debump.__init__").node
        for st in init.body:
            if isinstance(st, ast.Assign) and len(st.targets) == 1 and U(st.targets[0]).startswith("self.") and U(st.targets[0])[5:] not in deb:
                try:
                    run.run_block(prog.func("debump.py", "Debump.__init__"), [st], {"self": deb, "biomolecule": None, "definition": None})
                except (AnalysisError, Flow):
                    pass
        try:
            run.call(deb, "debump_residue", res, ["CD1"])
        except Flow as fl:
            r.bad(f"scan|{order_name}", f"debump_residue stops with {fl.value} on the model residue", where)
            continue
        bad = []
        for anglenum, moved, n_in in rotations:
            want = move[dihedrals[anglenum].split()[2]] if isinstance(anglenum, int) else None
            if want is None or sorted(moved) != sorted(want) or n_in != len(want):
                bad.append(f"torsion {anglenum} ({dihedrals[anglenum] if isinstance(anglenum, int) else '?'}): rotated {moved}, its far side is {want}")
        r.add(f"scan|{order_name}", bool(rotations) and not bad, f"{order_name}: {len(rotations)} rotations" + ("; each moves the far side of its own torsion" if not bad else
              "; " + "; ".join(bad[:3])), where)


def rule_reference_distance_is_shortest(prog, rep):
    """R1 ranks the atoms by their graph distance to CA.  The repository obtains that number from utilities.shortest_path; here the function
    is evaluated on the side-chain graphs that have rings (several paths to CA), with the atoms and neighbours listed in many different
    orders - the order of the input file decides the order of Atom.bonds - and the length is compared with a breadth-first distance."""
    import random
    from ..guards import Flow
    from ..objinterp import ObjRunner
    r = rep.rule("R7", "the distance to CA that ranks the atoms is the shortest one, whatever the order in which atoms and bonds are listed", floor=40)
    fi = prog.func("utilities.py", "shortest_path")
    where = f"pdb2pqr/utilities.py:{fi.node.lineno} (shortest_path)"
    graphs = {
        "PHE": [("CA", "CB"), ("CB", "CG"), ("CG", "CD1"), ("CG", "CD2"), ("CD1", "CE1"), ("CD2", "CE2"), ("CE1", "CZ"), ("CE2", "CZ")],
        "TRP": [("CA", "CB"), ("CB", "CG"), ("CG", "CD1"), ("CG", "CD2"), ("CD1", "NE1"), ("NE1", "CE2"), ("CD2", "CE2"), ("CD2", "CE3"), ("CE2", "CZ2"),
                ("CE3", "CZ3"), ("CZ2", "CH2"), ("CZ3", "CH2")],
        "PRO": [("N", "CA"), ("CA", "CB"), ("CB", "CG"), ("CG", "CD"), ("CD", "N")],
        "HIS": [("CA", "CB"), ("CB", "CG"), ("CG", "ND1"), ("CG", "CD2"), ("ND1", "CE1"), ("CD2", "NE2"), ("CE1", "NE2")],
    }
    for gname, edges in graphs.items():
        names = sorted({x for e in edges for x in e})
        adj = {n: {b if a == n else a for a, b in edges if n in (a, b)} for n in names}
        dist = bfs(adj, "CA")
        orders = [("as in the table", [x for e in edges for x in e]), ("alphabetical", names), ("reverse alphabetical", names[::-1])]
        for k in range(9):
            sh = list(names)
            random.Random(1000 + k).shuffle(sh)
            orders.append((f"shuffle {k}", sh))
        for oname, order in orders:
            listing = list(dict.fromkeys(order))
            graph = {n: sorted(adj[n], key=listing.index) for n in listing}
            run = ObjRunner(prog, "utilities.py")
            wrong = []
            for n in listing:
                try:
                    path = run.call_function("utilities.py", "shortest_path", graph, n, "CA")
                except Flow as fl:
                    wrong.append(f"{n}: stops with {fl.value}")
                    continue
                if not isinstance(path, list):
                    wrong.append(f"{n}: returns {path!r}")
                elif len(path) - 1 != dist[n] or path[0] != n or path[-1] != "CA" or any(b not in adj[a] for a, b in zip(path, path[1:])):
                    wrong.append(f"{n}: {path} (shortest has {dist[n]} bonds)")
            if oname in ("as in the table", "alphabetical", "shuffle 0"):
                # an atom with no bond path to CA: the documented answer is None (the caller turns it into "gap in the structure")
                loose = dict(graph)
                loose["XA"], loose["XB"] = ["XB"], ["XA"]
                for n in ("XA", "XB"):
                    try:
                        path = run.call_function("utilities.py", "shortest_path", loose, n, "CA")
                    except Flow as fl:
                        path = f"stops with {fl.value}"
                    if path is not None:
                        wrong.append(f"{n} (not connected to CA): returns {path!r} instead of None")
            r.add(f"graph|{gname}|{oname}", not wrong, f"{gname} side chain, atoms listed {oname}: shortest_path gives the breadth-first distance for {len(listing)} atoms" if not wrong else
                  f"{gname} side chain, atoms listed {' '.join(listing)}: {wrong[:3]} -- the atoms beyond a torsion are then not all rotated with it", where)


def rule_gap_is_loud(prog, rep, rid="R8"):
    """Biomolecule.set_reference_distance is evaluated on a model residue one of whose atoms has no bond path to CA (the repair could not
    rebuild what connects it): the run must stop there - every later step ranks atoms by that distance."""
    from ..guards import Flow, Obj
    from ..objinterp import ObjRunner
    r = rep.rule(rid, "an atom without a bond path to CA stops the run (set_reference_distance on model residues)", floor=2)
    fi = prog.func("biomolecule.py", "Biomolecule.set_reference_distance")
    where = f"pdb2pqr/biomolecule.py:{fi.node.lineno} (Biomolecule.set_reference_distance)"
    for label, cut in (("complete residue", None), ("HB1 attached to nothing", "HB1"), ("CB and its hydrogens cut off from CA", "CB")):
        res = Obj({"__class__": "ALA", "name": "ALA", "atoms": [], "map": {}, "is_n_term": False, "is_c_term": False, "chain_id": "A", "res_seq": 3, "ins_code": ""})
        bonds = [("N", "CA"), ("CA", "C"), ("C", "O"), ("CA", "CB"), ("CB", "HB1"), ("CB", "HB2"), ("CA", "HA")]
        if cut == "HB1":
            bonds.remove(("CB", "HB1"))
        elif cut == "CB":
            bonds.remove(("CA", "CB"))
        for n in ("N", "CA", "C", "O", "CB", "HB1", "HB2", "HA"):
            a = Obj({"__class__": "Atom", "name": n, "bonds": [], "residue": res, "refdistance": None, "res_name": "ALA", "chain_id": "A", "res_seq": 3, "ins_code": ""})
            res["atoms"].append(a)
            res["map"][n] = a
        for x, y in bonds:
            res["map"][x]["bonds"].append(res["map"][y])
            res["map"][y]["bonds"].append(res["map"][x])
        bio = Obj({"__class__": "Biomolecule", "residues": [res]})
        run = ObjRunner(prog, "biomolecule.py")
        try:
            run.call(bio, "set_reference_distance")
            outcome = "returns"
        except Flow as fl:
            outcome = f"stops with {fl.value}"
        dists = {a["name"]: a["refdistance"] for a in res["atoms"]}
        if cut is None:
            # atoms the code's own BACKBONE table names are marked -1 (which atoms that table lists is R1's business: they are never pivots'
            # far sides); every other atom carries its breadth-first distance to CA
            bb = prog.module_constants("config.py").get("BACKBONE")
            bb = set(bb) if isinstance(bb, (list, tuple, set, frozenset)) else {"N", "CA", "C", "O", "HA"}
            bfs = {"N": 1, "CA": 0, "C": 1, "O": 2, "HA": 1, "CB": 1, "HB1": 2, "HB2": 2}
            want = {n_: (-1 if n_ in bb else d_) for n_, d_ in bfs.items()}
            r.add(f"gap|{label}", outcome == "returns" and dists == want, f"{label}: {outcome}; distances to CA {dists}" + ("" if dists == want else f", expected {want}"), where)
        else:
            r.add(f"gap|{label}", outcome.startswith("stops with") and "ValueError" in outcome,
                  f"{label}: set_reference_distance {outcome}" + ("" if outcome.startswith("stops") else f" (distances {dists}) -- the incomplete structure is carried "
                                                                   "on to debumping and optimisation and written out"), where)
