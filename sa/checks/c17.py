"""C17 -- the suggested APBS grid encloses the molecule and is multigrid-legal."""
from __future__ import annotations

import ast
import itertools

from ..core import (AnalysisError, U, calls_in, eval_formula, formula_atoms, iter_stmts, parent, reach_formula, try_fold,
                    walk_no_defs)


# ------------------------------------------------------------------ congruence x interval domain
class CI:
    """Integers congruent to rem (mod m), >= lo.  m == 0 means 'exactly rem'.  is_int False = real."""

    def __init__(self, m=1, rem=0, lo=None, is_int=True):
        self.m, self.rem, self.lo, self.is_int = m, rem % m if m else rem, lo, is_int

    def __repr__(self):
        if not self.is_int:
            return "real"
        if self.m == 0:
            return f"{self.rem}"
        return f"={self.rem} (mod {self.m})" + (f", >= {self.lo}" if self.lo is not None else "")


REAL = CI(is_int=False)


def ci_eval(node, env):
    if isinstance(node, ast.Constant) and isinstance(node.value, int) and not isinstance(node.value, bool):
        return CI(0, node.value, node.value)
    if isinstance(node, ast.Constant) and isinstance(node.value, float):
        return REAL
    txt = U(node)
    if txt in env:
        return env[txt]
    if isinstance(node, ast.Call):
        name = U(node.func)
        if name == "int" and len(node.args) == 1:
            return CI(1, 0, None)
        if name in ("max", "min") and len(node.args) == 2:
            a, b = ci_eval(node.args[0], env), ci_eval(node.args[1], env)
            if not (a.is_int and b.is_int):
                return REAL
            # join of the two congruence classes
            if a.m == 0 and b.m == 0:
                return CI(0, max(a.rem, b.rem) if name == "max" else min(a.rem, b.rem), None)
            big, const = (a, b) if b.m == 0 else (b, a) if a.m == 0 else (None, None)
            if big is not None and const.rem % big.m == big.rem:
                lo = None
                if name == "max":
                    lo = const.rem if big.lo is None else max(big.lo, const.rem)
                return CI(big.m, big.rem, lo)
            return CI(1, 0, None)
        return REAL
    if isinstance(node, ast.BinOp):
        a, b = ci_eval(node.left, env), ci_eval(node.right, env)
        if isinstance(node.op, ast.Div):
            return REAL
        if not (a.is_int and b.is_int):
            return REAL
        if isinstance(node.op, ast.Mult):
            c, v = (a, b) if a.m == 0 else (b, a) if b.m == 0 else (None, None)
            if c is None:
                return CI(1, 0, None)
            if v.m == 0:
                return CI(0, c.rem * v.rem, c.rem * v.rem)
            return CI(abs(c.rem) * v.m, c.rem * v.rem, None)
        if isinstance(node.op, (ast.Add, ast.Sub)):
            sgn = 1 if isinstance(node.op, ast.Add) else -1
            if b.m == 0:
                if a.m == 0:
                    return CI(0, a.rem + sgn * b.rem, a.rem + sgn * b.rem)
                return CI(a.m, a.rem + sgn * b.rem, None if a.lo is None else a.lo + sgn * b.rem)
            if a.m == 0 and sgn == 1:
                return CI(b.m, a.rem + b.rem, None if b.lo is None else a.rem + b.lo)
            return CI(1, 0, None)
    return REAL if not isinstance(node, ast.Subscript) else CI(1, 0, None)


# ------------------------------------------------------------------ ">= molecule extent" tag domain
def ge_eval(node, env, consts):
    """True if the expression is provably >= (maxlen[i] - minlen[i])."""
    txt = U(node)
    if txt in env:
        return env[txt]
    if isinstance(node, ast.BinOp):
        if isinstance(node.op, ast.Sub):
            l, r = U(node.left), U(node.right)
            if l.startswith("maxlen[") and r.startswith("minlen[") and l[6:] == r[6:]:
                return True
        if isinstance(node.op, ast.Mult):
            for a, b in ((node.left, node.right), (node.right, node.left)):
                c = const_val(a, consts)
                if c is not None and c >= 1 and ge_eval(b, env, consts):
                    return True
        if isinstance(node.op, ast.Add):
            for a, b in ((node.left, node.right), (node.right, node.left)):
                c = const_val(a, consts)
                if c is not None and c >= 0 and ge_eval(b, env, consts):
                    return True
    if isinstance(node, ast.Call) and U(node.func) == "max":
        return any(ge_eval(a, env, consts) for a in node.args)
    if isinstance(node, ast.Call) and U(node.func) == "min":
        return all(ge_eval(a, env, consts) for a in node.args)
    return False


def const_val(node, consts):
    v = try_fold(node, consts)
    if isinstance(v, (int, float)):
        return v
    t = U(node)
    return consts.get(t)


def check(prog, rep):
    n_rules, n_def = len(rep.rules), len(rep.deferred)
    rep.guarded(rule_model_rendering, prog, rep)
    render_modelled = len(rep.rules) > n_rules and len(rep.deferred) == n_def
    if len(rep.deferred) > n_def:
        rep.deferred.pop()
    rep.explanation = (
        "abstract interpretation of psize.Psize (congruence x interval domain for grid counts, a '>= molecule extent' "
        "tag domain for lengths), reachability formulas for the line parser's record guard, token positions tied to "
        "the PQR writer's layout (C08 engine), def-use chain of the PQR name into the APBS input"
    )
    rep.assumptions += ["default sizing parameters (cfac >= 1, fadd >= 0); user-chosen values outside are not decided",
                        "APBS centres both grids on the molecule ('mol 1')"]
    rep.not_decided += ["sizing parameters outside the side conditions (cfac < 1)", "APBS's own notion of molecule centre",
                        "the parallel-focusing numbers (nsmall, proc_grid, nfocus)"]
    consts = prog.module_constants("psize.py")
    init = prog.func("psize.py", "Psize.__init__").node
    # self.<param> constants from the constructor defaults
    defaults = {}
    args = init.args.args[1:]
    for a, d in zip(args[len(args) - len(init.args.defaults):], init.args.defaults):
        v = try_fold(d, consts)
        if v is not None:
            defaults[a.arg] = v
    selfconst = {}
    for st in init.body:
        if isinstance(st, ast.Assign) and U(st.targets[0]).startswith("self.") and isinstance(st.value, ast.Name) \
                and st.value.id in defaults:
            selfconst[U(st.targets[0])] = defaults[st.value.id]
    allconst = dict(consts)
    allconst.update(selfconst)

    # ------------------------------------------------------------------ R1
    r1 = rep.rule("R1", "every grid count is = 1 (mod 32) and >= 33", floor=2)
    cls = prog.cls("psize.py", "Psize")
    n_stores = 0
    for mname, fi in cls.methods.items():
        if mname == "__init__":
            continue
        env = {}
        last = None
        for st in iter_stmts(fi.node.body):
            if isinstance(st, (ast.Assign, ast.AugAssign)):
                tg = st.targets[0] if isinstance(st, ast.Assign) else st.target
                if isinstance(tg, ast.Subscript) and U(tg.value) == "self.ngrid":
                    val = ci_eval(st.value, env) if isinstance(st, ast.Assign) else CI(1, 0, None)
                    env[U(tg)] = val
                    last = (st, val)
                    n_stores += 1
                elif isinstance(tg, ast.Attribute) and U(tg) == "self.ngrid":
                    last = (st, REAL)
                    n_stores += 1
                elif isinstance(tg, (ast.Name, ast.Subscript)) and isinstance(st, ast.Assign):
                    env[U(tg)] = ci_eval(st.value, env)
        if last is not None:
            st, val = last
            ok = val.is_int and val.m != 0 and val.m % 32 == 0 and val.rem % 32 == 1 and val.lo is not None and val.lo >= 33
            if val.is_int and val.m == 0:
                ok = val.rem % 32 == 1 and val.rem >= 33
            r1.add(f"ngrid|{mname}", ok, f"final value stored to self.ngrid[i] in {mname}: {val}; required = 1 (mod 32), >= 33",
                   f"pdb2pqr/psize.py:{st.lineno} (Psize.{mname})")
    if n_stores == 0:
        r1.bad("ngrid|no-store", "no method computes self.ngrid: the grid stays at its initial [0, 0, 0]")
    # must-pass: run_psize -> set_all -> set_fine_grid_points at top level, no early return
    for caller, callee in (("run_psize", "set_all"), ("set_all", "set_fine_grid_points")):
        fn = cls.methods[caller].node if caller in cls.methods else None
        if fn is None:
            raise AnalysisError(f"Psize.{caller} not found")
        top = [s for s in fn.body if isinstance(s, ast.Expr) and isinstance(s.value, ast.Call) and U(s.value.func) == f"self.{callee}"]
        early = [s for s in iter_stmts(fn.body) if isinstance(s, ast.Return)]
        r1.add(f"must-pass|{caller}->{callee}", bool(top) and not early,
               f"{caller} calls {callee} unconditionally ({len(top)} top-level call(s), {len(early)} early return(s))",
               f"pdb2pqr/psize.py:{fn.lineno} (Psize.{caller})")
    # set_fine_grid_points gets the fine length computed from this molecule
    sa = cls.methods["set_all"].node
    order = [U(s.value.func).split(".")[-1] for s in sa.body if isinstance(s, ast.Expr) and isinstance(s.value, ast.Call)]
    need = ["set_length", "set_coarse_grid_dims", "set_fine_grid_dims", "set_fine_grid_points"]
    pos = [order.index(n) if n in order else -1 for n in need]
    r1.add("order|set_all", all(p >= 0 for p in pos) and pos == sorted(pos), f"set_all call order: {order}",
           f"pdb2pqr/psize.py:{sa.lineno} (Psize.set_all)")
    # the printed dime is the integer grid
    el = prog.func("inputgen.py", "Elec.__str__").node
    dime_ok = "int(self.dime[0])" in U(el) and "int(self.dime[1])" in U(el) and "int(self.dime[2])" in U(el)
    ei = prog.func("inputgen.py", "Elec.__init__").node
    dime_src = [U(s.value) for s in iter_stmts(ei.body) if isinstance(s, ast.Assign) and U(s.targets[0]) == "self.dime"]
    if not render_modelled:  # (decided by R8: the rendered 'dime' line is the grid of the sizing object for every method)
        r1.add("dime-source", dime_ok and dime_src and dime_src[0] == "size.ngrid",
               f"'dime' prints int(self.dime[0..2]); self.dime <- {dime_src}", f"pdb2pqr/inputgen.py:{ei.lineno} (Elec)")

    # ------------------------------------------------------------------ R2 / R3
    r2 = rep.rule("R2", "fine box is no larger than the coarse box", floor=1)
    r3 = rep.rule("R3", "both boxes are centred on the molecule and at least as long as its extent", floor=5)
    for mname, attr in (("set_length", "mol_length"), ("set_coarse_grid_dims", "coarse_length"),
                        ("set_fine_grid_dims", "fine_length")):
        fn = cls.methods[mname].node
        params = [a.arg for a in fn.args.args][1:]
        env = {}
        # parameters are the attributes handed over by set_all (checked below)
        for p in params:
            if p in ("mol_length", "coarse_length"):
                env[f"{p}[i]"] = True
        last = None
        for st in iter_stmts(fn.body):
            if isinstance(st, ast.Assign) and isinstance(st.targets[0], ast.Subscript) and U(st.targets[0].value) == f"self.{attr}":
                val = ge_eval(st.value, env, allconst)
                env[U(st.targets[0])] = val
                last = (st, val)
            elif isinstance(st, ast.Assign) and isinstance(st.targets[0], ast.Name):
                env[U(st.targets[0])] = ge_eval(st.value, env, allconst)
        if last is None:
            r3.bad(f"extent|{attr}", f"{mname} never stores self.{attr}[i]", f"pdb2pqr/psize.py:{fn.lineno} (Psize.{mname})")
            continue
        st, val = last
        r3.add(f"extent|{attr}", val, f"final self.{attr}[i] = {U(st.value)} is "
               f"{'provably' if val else 'NOT provably'} >= maxlen[i] - minlen[i] (cfac={allconst.get('self.cfac')}, "
               f"fadd={allconst.get('self.fadd')})", f"pdb2pqr/psize.py:{st.lineno} (Psize.{mname})")
        if attr == "fine_length":
            v = st.value
            is_min = isinstance(v, ast.Call) and U(v.func) == "min" and any(U(a) == "coarse_length[i]" for a in v.args)
            r2.add("fine<=coarse", is_min, f"last store to fine_length[i] is {U(v)} "
                   f"({'a min with the coarse length' if is_min else 'not bounded by the coarse length'})",
                   f"pdb2pqr/psize.py:{st.lineno} (Psize.set_fine_grid_dims)")
    # set_all passes the attributes just computed
    binds = {}
    for s in sa.body:
        if isinstance(s, ast.Assign) and isinstance(s.targets[0], ast.Name):
            binds[s.targets[0].id] = U(s.value)
    want = {"maxlen": "self.maxlen", "minlen": "self.minlen", "mol_length": "self.mol_length",
            "coarse_length": "self.coarse_length", "fine_length": "self.fine_length"}
    okb = all(binds.get(k) == v for k, v in want.items())
    r3.add("set_all-bindings", okb, f"set_all binds {binds}", f"pdb2pqr/psize.py:{sa.lineno} (Psize.set_all)")
    # centre
    sc = cls.methods["set_center"].node
    cst = [s for s in iter_stmts(sc.body) if isinstance(s, ast.Assign) and U(s.targets[0]).startswith("self.center[")]
    ctext = U(cst[-1].value) if cst else ""
    r3.add("centre", ctext in ("(maxlen[i] + minlen[i]) / 2", "(minlen[i] + maxlen[i]) / 2", "(maxlen[i] + minlen[i]) / 2.0",
                               "0.5 * (maxlen[i] + minlen[i])"),
           f"centre[i] = {ctext}", f"pdb2pqr/psize.py:{sc.lineno} (Psize.set_center)")
    cents = {U(s.targets[0]): try_fold(s.value) for s in iter_stmts(ei.body) if isinstance(s, ast.Assign)
             and U(s.targets[0]) in ("self.cgcent", "self.fgcent", "self.gcent")}
    r3.add("grid-centres", all(v == "mol 1" for v in cents.values()) and len(cents) == 3, f"input file centres: {cents}",
           f"pdb2pqr/inputgen.py:{ei.lineno} (Elec.__init__)")
    # parse_lines: decided on the model files (R7); its code shape is analysed only when the model evaluation is not possible
    n_before = len(rep.rules)
    n_def = len(rep.deferred)
    rep.guarded(rule_model_sizing, prog, rep)
    rep.guarded(rule_per_processor_grid, prog, rep, "R9")
    if len(rep.rules) == n_before or len(rep.deferred) > n_def:
        rep.guarded(_parse_lines_shape, prog, rep, r3, cls)
    # ------------------------------------------------------------------ R5
    r5 = rep.rule("R5", "memory estimate multiplies all three grid dimensions", floor=1)
    for rel, qual in (("inputgen.py", "Elec.__init__"), ("psize.py", "Psize.set_smallest"), ("psize.py", "Psize.__str__")):
        if not prog.has_func(rel, qual):
            continue
        fn = prog.func(rel, qual).node
        for n in walk_no_defs(fn):
            if isinstance(n, ast.BinOp) and isinstance(n.op, (ast.Mult, ast.Div)) and not isinstance(parent(n), ast.BinOp):
                subs = [x for x in ast.walk(n) if isinstance(x, ast.Subscript) and isinstance(x.slice, ast.Constant)]
                bases = {U(x.value) for x in subs}
                if len(subs) >= 2 and len(bases) == 1:
                    idx = sorted(x.slice.value for x in subs)
                    r5.add(f"mem|{qual}:{bases.pop()}", idx == [0, 1, 2], f"product {U(n)[:70]} uses indices {idx}",
                           f"pdb2pqr/{rel}:{n.lineno} ({qual})")

    # ------------------------------------------------------------------ R6
    r6 = rep.rule("R6", "the APBS input names the PQR file just written", floor=2)
    md = prog.func("main.py", "main_driver").node
    dcall = next((c for c in calls_in(md) if U(c.func) == "io.dump_apbs"), None)
    r6.add("main->dump_apbs", dcall is not None and U(dcall.args[0]) == "args.output_pqr",
           f"main_driver calls io.dump_apbs({', '.join(U(a) for a in dcall.args) if dcall else ''})",
           f"pdb2pqr/main.py:{dcall.lineno if dcall else md.lineno} (main_driver)")
    pp = prog.func("main.py", "print_pqr").node
    opens = [c for c in calls_in(pp) if U(c.func) == "open"]
    r6.add("written-path", bool(opens) and U(opens[0].args[0]) == "args.output_pqr", "print_pqr opens args.output_pqr",
           f"pdb2pqr/main.py:{pp.lineno} (print_pqr)")
    if render_modelled:
        return  # dump_apbs and the renderer are decided on the model files (R8); the shape obligations below are the fallback
    da = prog.func("io.py", "dump_apbs").node
    p0 = da.args.args[0].arg
    icall = next((c for c in calls_in(da) if U(c.func) == "inputgen.Input"), None)
    r6.add("dump_apbs->Input", icall is not None and U(icall.args[0]) == p0, f"Input({U(icall.args[0]) if icall else '?'}, ...)",
           f"pdb2pqr/io.py:{da.lineno} (dump_apbs)")
    sized = [U(c.args[0]) for c in calls_in(da) if U(c.func).endswith((".run_psize", ".parse_input")) and c.args]
    r6.add("dump_apbs->psize", bool(sized) and set(sized) == {p0}, f"psize reads {sized}", f"pdb2pqr/io.py:{da.lineno} (dump_apbs)")
    ii = prog.func("inputgen.py", "Input.__init__").node
    a0 = ii.args.args[1].arg
    chain = {U(s.targets[0]): U(s.value) for s in iter_stmts(ii.body) if isinstance(s, ast.Assign)}
    ok = chain.get("self.pqrpath") == f"Path({a0})" and chain.get("self.pqrname") == "self.pqrpath.name"
    istr = U(prog.func("inputgen.py", "Input.__str__").node)
    r6.add("Input->mol-line", ok and "mol pqr {self.pqrname}" in istr, f"pqrname <- {chain.get('self.pqrname')} <- {chain.get('self.pqrpath')}",
           f"pdb2pqr/inputgen.py:{ii.lineno} (Input)")


def _parse_lines_shape(prog, rep, r3, cls):
    # extrema accumulate centre -/+ radius, from the right tokens
    pl = cls.methods["parse_lines"].node
    w = f"pdb2pqr/psize.py:{pl.lineno} (Psize.parse_lines)"
    # running extrema: whenever the sphere's lower (upper) end is beyond the running minimum (maximum) - or no bound exists yet -
    # a store of exactly that end must be reached, independently of what happens to the other bound
    iloop = next((n for n in ast.walk(pl) if isinstance(n, ast.For) and U(n.iter) == "range(3)"
                  and any(isinstance(x, ast.Assign) and U(x.targets[0]).startswith("self.m") for x in iter_stmts(n.body))), None)
    if iloop is None:
        raise AnalysisError("parse_lines: the per-axis loop updating minlen/maxlen was not found")
    locals_ = {U(x.targets[0]): U(x.value) for x in iloop.body if isinstance(x, ast.Assign) and isinstance(x.targets[0], ast.Name)}

    def resolve(txt):
        for k, v in locals_.items():
            import re as _re
            txt = _re.sub(rf"\b{k}\b", f"({v})", txt)
        return txt.replace("(center[i] - rad)", "center[i] - rad").replace("(center[i] + rad)", "center[i] + rad")

    for bound, end, cmp_ in (("self.minlen[i]", "center[i] - rad", "<"), ("self.maxlen[i]", "center[i] + rad", ">")):
        sts = [x for x in iter_stmts(iloop.body) if isinstance(x, ast.Assign) and U(x.targets[0]) == bound]
        vals = sorted({resolve(U(x.value)) for x in sts})
        forms = [reach_formula(x, iloop) for x in sts]
        atoms = {}
        for f_ in forms:
            formula_atoms(f_, atoms)
        need_atoms = [a for a in atoms if resolve(a) in (f"{end} {cmp_} {bound}", f"{bound} {'>' if cmp_ == '<' else '<'} {end}")]
        none_atoms = [a for a in atoms if a.endswith("is None")]
        others = [a for a in atoms if a not in need_atoms and a not in none_atoms]
        hole = None
        names = list(atoms)
        for vals_ in itertools.product((True, False), repeat=len(names)):
            asg = dict(zip(names, vals_))
            # infeasible: a bound that does not exist cannot be compared
            if any(asg[a] for a in none_atoms) and False:
                pass
            need = any(asg[a] for a in need_atoms) or any(asg[a] for a in none_atoms if bound.split("[")[0] in a or len(none_atoms) == 1)
            if need and not any(eval_formula(f_, asg) for f_ in forms):
                # with no bound yet, comparisons against None are not evaluated in the code (short-circuit): only count
                # assignments where the 'is None' atoms are all False, or where the None atom alone should trigger the store
                if any(asg[a] for a in none_atoms) and not all(asg[a] for a in none_atoms):
                    continue
                hole = {k: v for k, v in asg.items() if v}
                break
        ok = bool(sts) and vals == [end] and bool(need_atoms) and hole is None
        r3.add(f"extrema|{bound}", ok,
               f"{bound} is set to {vals} whenever {need_atoms or '?'} (or no bound exists yet), whatever the other tests say" if ok else
               f"{bound}: stored values {vals}; " + (f"NOT updated although it should be when {sorted(hole)} hold together" if hole else "update test not found"), w)
    tok = {U(s.targets[0]): U(s.value) for s in iter_stmts(pl.body) if isinstance(s, ast.Assign)
           and U(s.targets[0]) in ("rad", "center", "subline", "words")}
    tok_ok = tok.get("rad") == "float(words[4])" and tok.get("center") == "[float(word) for word in words[0:3]]" \
        and tok.get("words") == "subline.split()"
    r3.add("token-positions", tok_ok, f"radius <- {tok.get('rad')}, centre <- {tok.get('center')}: the 5th and first three "
           "tokens after the coordinate column, which is where the PQR writer puts x, y, z, charge, radius", w)
    check_column(prog, rep, r3, tok.get("subline", ""), w)

    # ------------------------------------------------------------------ R4
    r4 = rep.rule("R4", "only ATOM/HETATM lines contribute to the bounding box and charge", floor=3)
    loop = next((s for s in pl.body if isinstance(s, ast.For)), None)
    if loop is None:
        raise AnalysisError("parse_lines: line loop not found")
    acc = [s for s in iter_stmts(loop.body) if isinstance(s, (ast.Assign, ast.AugAssign)) and
           U(s.targets[0] if isinstance(s, ast.Assign) else s.target) in ("self.minlen[i]", "self.maxlen[i]", "self.charge")]
    for s in acc:
        f = reach_formula(s, loop)
        atoms = formula_atoms(f)
        rec_atoms = [a for a in atoms if "'ATOM'" in a or "'HETATM'" in a]
        others = [a for a in atoms if a not in rec_atoms]
        leak = None
        for vals in itertools.product((True, False), repeat=len(others)):
            asg = dict(zip(others, vals))
            asg.update({a: False for a in rec_atoms})
            if eval_formula(f, asg):
                leak = asg
                break
        tgt = U(s.targets[0] if isinstance(s, ast.Assign) else s.target)
        r4.add(f"record-guard|{tgt}", bool(rec_atoms) and leak is None,
               f"store to {tgt} is reachable only when one of {rec_atoms} holds" if rec_atoms and leak is None else
               f"store to {tgt} is reachable for a line that is neither ATOM nor HETATM (record tests found: {rec_atoms})",
               f"pdb2pqr/psize.py:{s.lineno} (Psize.parse_lines)")



def check_column(prog, rep, r3, subline_expr, where):
    """`line[K:]` must start at (or in the blank padding before) the x field in both PQR layouts."""
    from .c08 import FIELD_OF, insertion_points, writer_layouts
    from ..layout import offsets
    import re as _re
    m = _re.match(r"line\[(\d+):\]", subline_expr)
    if not m:
        r3.bad("subline-column", f"coordinates are not located by a fixed column slice: {subline_expr!r}", where)
        return
    K = int(m.group(1))
    rest = subline_expr[m.end():]
    r3.add("subline-minus-split", rest in (".replace('-', ' -')", ""), f"post-processing of the tail: {rest!r}", where)
    eng, finals = writer_layouts(prog)
    _, cuts, _ = insertion_points(prog)
    bad = []
    for f in finals:
        offs = offsets(f.result)
        if any(a != b or c != d for _, a, b, c, d in offs):
            continue
        for shift_cuts in ([], cuts):
            def sh(p):
                return p + sum(1 for c in shift_cuts if c <= p) if shift_cuts else p
            xseg = next(((s, a, c) for s, a, _, c, _ in offs if s.kind == "fld" and s.src == "self.x"), None)
            if xseg is None:
                bad.append("no x field")
                continue
            xs = sh(xseg[1])
            if K > xs:
                bad.append(f"K={K} is beyond the start of x ({xs})")
                continue
            # every character in [K, xs) must be a guaranteed blank
            for s, a, _, c, _ in offs:
                a2, c2 = sh(a), sh(c) if c != a else sh(a)
                if c2 <= K or a2 >= xs:
                    continue
                if s.kind == "lit":
                    if s.text.strip():
                        bad.append(f"literal {s.text!r} between {K} and x")
                elif not (s.align in ("l", None) and a2 + s.chi <= K) and not s.blank_content and s.chi > 0:
                    bad.append(f"{'whitespace' if shift_cuts else 'fixed'} layout: field {s.src} may occupy columns {a2}..{a2 + s.chi} >= {K}")
    r3.add("subline-column", not bad, f"line[{K}:] starts at the x field or in guaranteed blanks before it in both layouts"
           if not bad else f"line[{K}:] can cut into a field: {sorted(set(bad))[:3]}", where)


def rule_model_sizing(prog, rep):
    """Psize is evaluated by constant propagation on model PQR files (one line per layout class, header and trailer lines,
    ATOM and HETATM in both orders, a sphere that exceeds both running extrema at once; a small and a large system)."""
    import math
    import re as _re
    from ..guards import Flow
    from ..objinterp import ObjRunner
    from .shared import pqr_model
    r = rep.rule("R7", "model runs: extrema, charge, grid and memory report follow from the ATOM and HETATM records alone", floor=8)
    where = "pdb2pqr/psize.py (Psize.parse_lines .. __str__)"
    small, source = pqr_model(prog)
    r.info["model_lines_formatted_by"] = source
    # a large system: the same atoms spread over ~200 A so that the memory ceiling is exceeded and a parallel solve is planned
    n0 = 100
    extra = tuple(("HETATM" if k % 2 else "ATOM", n0 + k, "C", "XXX", None, 500 + k, None, 20.0 + dx, 10.0 + dy, 5.0 + dz, 0.25, 1.5)
                  for k, (dx, dy, dz) in enumerate(((180.0, 0.0, 0.0), (0.0, -150.0, 0.0), (0.0, 0.0, 160.0), (-90.0, 80.0, -70.0))))
    big, _ = pqr_model(prog, extra)
    one = [small[0], small[1]] + list(small[-2:])  # a single atom: every count sits on the 33-point floor
    from .shared import respaced
    try:
        ws = respaced(prog, [ln for ln, _ in small])
        small_ws = [(ln, w) for ln, (_, w) in zip(ws, [x for x in small if x[1] is not None])]  # print_pqr keeps the records only
        if len(small_ws) != len([x for x in small if x[1] is not None]):
            small_ws = None
    except AnalysisError:
        small_ws = None
    # fixed-width columns that touch: a coordinate of eight characters next to its neighbour (default layout only)
    wide, _ = pqr_model(prog, (("ATOM", 30, "CA", "WID", None, 1, None, 1.0, 1234.567, 3.0, 0.25, 1.5), ("ATOM", 31, "CB", "WID", None, 1, None, 1001.0, 1234.567, 2999.999, 0.0, 1.0)))
    models = [("one-atom", one), ("small", small), ("large", big), ("touching columns", wide)] + ([("small, --whitespace layout", small_ws)] if small_ws else [])
    for label, model in models:
        atoms = [w for _, w in model if w is not None]
        run = ObjRunner(prog, "psize.py")
        try:
            p = run.new("Psize")
            run.call(p, "parse_lines", [ln for ln, _ in model])
            run.call(p, "set_all")
            text = run.call(p, "__str__")
        except Flow as fl:
            r.bad(f"{label}|runs", f"Psize stops with {fl.value} on the {label} model ({len(atoms)} atoms)", where)
            continue
        lo = [min(a["xyz"[i]] - a["radius"] for a in atoms) for i in range(3)]
        hi = [max(a["xyz"[i]] + a["radius"] for a in atoms) for i in range(3)]
        close = lambda u, v: all(abs(x - y) < 1e-6 for x, y in zip(u, v))  # noqa: E731
        r.add(f"{label}|extrema", close(p["minlen"], lo) and close(p["maxlen"], hi),
              f"bounding box {[round(x, 3) for x in p['minlen']]} .. {[round(x, 3) for x in p['maxlen']]}; the atom spheres of all "
              f"{len(atoms)} ATOM/HETATM records span {[round(x, 3) for x in lo]} .. {[round(x, 3) for x in hi]}", where)
        q = sum(a["charge"] for a in atoms)
        r.add(f"{label}|charge-and-counts", abs(p["charge"] - q) < 1e-6 and p["gotatom"] + p["gothet"] == len(atoms),
              f"charge {p['charge']:.4f} (records sum to {q:.4f}); {p['gotatom']} ATOM + {p['gothet']} HETATM of {len(atoms)} records", where)
        ng, fl_, cl, ctr = p["ngrid"], p["fine_length"], p["coarse_length"], p["center"]
        legal = all(isinstance(n, int) and n >= 33 and (n - 1) % 32 == 0 for n in ng)
        encl = all(ctr[i] - fl_[i] / 2 <= lo[i] + 1e-9 and ctr[i] + fl_[i] / 2 >= hi[i] - 1e-9 and fl_[i] <= cl[i] + 1e-9 for i in range(3))
        r.add(f"{label}|grid", legal and encl, f"grid {ng}, fine {[round(x, 2) for x in fl_]} <= coarse {[round(x, 2) for x in cl]}, centre "
              f"{[round(x, 2) for x in ctr]}: multigrid-legal counts and a fine box that contains every atom sphere", where)
        if not isinstance(text, str):
            raise AnalysisError("Psize.__str__ did not produce a string on the model")
        want_mb = 200.0 * ng[0] * ng[1] * ng[2] / 1024 / 1024
        m = _re.search(r"sequential solve = ([0-9.]+) MB|required \(([0-9.]+) MB >", text)
        got = float(next(g for g in m.groups() if g)) if m else None
        r.add(f"{label}|memory-report", got is not None and abs(got - want_mb) <= 0.0006,
              f"the report states {got} MB for the {ng[0]} x {ng[1]} x {ng[2]} grid (200 bytes per point: {want_mb:.3f} MB)", where)
        if label in ("large",):
            ns = p["nsmall"]
            r.add("large|parallel-plan", "Parallel solve required" in text and all(isinstance(n, int) and (n - 1) % 32 == 0 and n >= 33 for n in ns),
                  f"the large model needs a parallel solve; per-processor grid {ns} must again be integers of the form 32k+1", where)
    r.info["methods_interpreted"] = sorted(set(run.calls))


def rule_model_rendering(prog, rep):
    """io.dump_apbs and the input renderer (inputgen.Input / Elec) are evaluated on the model PQR files: the file system is a dictionary
    path -> lines, the PQR is the one print_pqr wrote.  For every solution method the renderer knows, the text must name that PQR file
    and state the grid the sizing object computed for it."""
    import re as _re
    from pathlib import PurePosixPath

    from ..guards import Flow, Obj
    from ..objinterp import ObjRunner
    from .shared import FileSystemModel, pqr_model, written_file
    r = rep.rule("R8", "model runs: the rendered APBS input names the PQR file just written and states the grid computed for it", floor=6)
    where = "pdb2pqr/io.py (dump_apbs) / pdb2pqr/inputgen.py (Input, Elec)"
    small, _ = pqr_model(prog)
    n0 = 100
    extra = tuple(("HETATM" if k % 2 else "ATOM", n0 + k, "C", "XXX", None, 500 + k, None, 20.0 + dx, 10.0 + dy, 5.0 + dz, 0.25, 1.5)
                  for k, (dx, dy, dz) in enumerate(((180.0, 0.0, 0.0), (0.0, -150.0, 0.0), (0.0, 0.0, 160.0), (-90.0, 80.0, -70.0))))
    big, _ = pqr_model(prog, extra)

    def file_hook(files):
        fs = FileSystemModel({k: "".join(v) for k, v in files.items()})
        files["__fs__"] = fs
        return fs.hook

    one = [small[0], small[1]] + list(small[-2:])
    tiny = []
    for k, (rad, x0) in enumerate(((1.23456, 0.0), (2.00012, 5.5), (0.77773, -3.25), (1.50003, 100.0), (3.14159, 7.0), (1.11115, 0.0))):
        m_, _ = pqr_model(prog, (("ATOM", 500 + k, "C", "ONE", None, 1, None, x0, 2.0 * k, -1.0, 0.0, 1.0),))
        # keep only the added atom and give it the radius (written with four decimals by the writer)
        line = [ln for ln, w in m_ if w is not None and w["serial"] == 500 + k][0]
        tiny.append((f"single atom, radius {rad}", [(line[:-7] + f"{rad:7.4f}"[:7] + "\n" if not line.endswith("\n") else line[:-8] + f"{rad:7.4f}" + "\n",
                                                     {"type": "ATOM", "serial": 500 + k, "x": x0, "y": 2.0 * k, "z": -1.0, "charge": 0.0, "radius": round(rad, 4)})]))
    for label, model in [("one-atom", one), ("large", big)] + tiny:
        atoms = [w for _, w in model if w is not None]
        try:
            pqr_lines = written_file(prog, [ln for ln, w in model if w is not None or not ln.startswith("REMARK")], False, False)
        except AnalysisError:
            pqr_lines = [ln for ln, _ in model]
        # 1. the route --apbs-input takes, for output names with the usual suffix, another suffix, two dots, and none
        try:
            sizes = _sizing(prog, pqr_lines)
        except Flow as fl:
            r.bad(f"{label}|sizing", f"sizing the {label} model stops with {fl.value}", "pdb2pqr/psize.py (Psize.parse_lines, Psize.set_all)")
            continue
        failed = False
        if label.startswith("single atom"):
            for method in ("mg-auto", "mg-para"):
                run = ObjRunner(prog, "inputgen.py", extra_hook=file_hook({}))
                try:
                    size = _sizing(prog, pqr_lines, runner=run)
                    text = run.call(run.new("Input", "out/model.pqr", size, method, False, 0, potdx=True), "__str__")
                except Flow as fl:
                    r.bad(f"{label}|render|{method}", f"rendering stops with {fl.value}", where)
                    continue
                _judge_input(r, f"{label}|render|{method}", text, "model.pqr", size, atoms, where, method=method)
            continue
        for pqrpath in (("out/model.pqr", "out/complex.v2.PQR", "out/charged.txt", "result") if label == "one-atom" else ("out/model.pqr",)):
            other = ["ATOM      1  C   XXX     1     900.000 900.000 900.000  0.0000 1.0000\n"]
            files = {pqrpath: list(pqr_lines), "out/other.pqr": other, PurePosixPath(pqrpath).stem + ".pqr": other}
            files[pqrpath] = list(pqr_lines)
            run = ObjRunner(prog, "io.py", extra_hook=file_hook(files))
            try:
                run.call_function("io.py", "dump_apbs", "out/other.pqr", "out/other.in")  # an earlier run of the same process, on another structure
                run.call_function("io.py", "dump_apbs", pqrpath, "out/model.in")
            except Flow as fl:
                r.bad(f"{label}|dump_apbs|{pqrpath}", f"dump_apbs stops with {fl.value} on the {label} model written as {pqrpath}", where)
                failed = True
                continue
            text = files["__fs__"].files.get("out/model.in", "")
            _judge_input(r, f"{label}|dump_apbs|{pqrpath}", text, PurePosixPath(pqrpath).name, sizes, atoms, where)
        if failed:
            continue
        # 2. the renderer for every method it knows (and the automatic choice)
        for method in ("mg-auto", "mg-para", "mg-manual", ""):
            run = ObjRunner(prog, "inputgen.py", extra_hook=file_hook({}))
            try:
                size = _sizing(prog, pqr_lines, runner=run)
                inp = run.new("Input", "out/model.pqr", size, method, False, 0, potdx=True)
                text = run.call(inp, "__str__")
            except Flow as fl:
                r.bad(f"{label}|render|{method or 'automatic'}", f"rendering the input for method {method or 'chosen automatically'!r} stops with "
                      f"{fl.value} on the {label} model", where)
                continue
            _judge_input(r, f"{label}|render|{method or 'automatic'}", text, "model.pqr", size, atoms, where, method=method)


def _sizing(prog, lines, runner=None):
    from ..objinterp import ObjRunner
    run = runner or ObjRunner(prog, "psize.py")
    p = run.new("Psize")
    run.call(p, "parse_lines", list(lines))
    run.call(p, "set_all")
    return p


def _judge_input(r, key, text, pqrname, size, atoms, where, method=None):
    import re as _re
    if not isinstance(text, str) or not text:
        r.bad(key, "no input text was produced", where)
        return
    mol = _re.findall(r"^\s*mol pqr (\S+)\s*$", text, _re.M)
    meth = _re.findall(r"^\s*(mg-[a-z]+)\s*$", text, _re.M)
    dime = [tuple(map(int, m)) for m in _re.findall(r"^\s*dime (-?\d+) (-?\d+) (-?\d+)\s*$", text, _re.M)]
    problems = []
    if mol != [pqrname]:
        problems.append(f"'mol pqr' names {mol}, the PQR file is {pqrname!r}")
    if not meth or len(set(meth)) != 1 or (method and meth[0] != method):
        problems.append(f"solution method lines {meth}" + (f", requested {method!r}" if method else ""))
    want = tuple(size["nsmall"]) if meth and meth[0] == "mg-para" else tuple(size["ngrid"])
    if not dime or any(d != want for d in dime):
        problems.append(f"dime lines {dime}; the sizing object has ngrid {size['ngrid']}, per-processor grid {size['nsmall']}")
    if any(not (n >= 33 and (n - 1) % 32 == 0) for d in dime for n in d):
        problems.append(f"dime {dime} is not of the form 32k+1 >= 33")
    for tag, attr in (("cglen", "coarse_length"), ("fglen", "fine_length"), ("glen", "coarse_length")):
        for m in _re.findall(rf"^\s*{tag} (\S+) (\S+) (\S+)\s*$", text, _re.M):
            if any(abs(float(a) - b) > 6e-4 for a, b in zip(m, size[attr])):
                problems.append(f"{tag} {m} differs from the computed {attr} {[round(x, 4) for x in size[attr]]}")
    if meth and meth[0] in ("mg-auto", "mg-para") and not (_re.search(r"^\s*cglen ", text, _re.M) and _re.search(r"^\s*fglen ", text, _re.M)):
        problems.append("no cglen/fglen lines for a focusing method")
    cg = _re.findall(r"^\s*cglen (\S+) (\S+) (\S+)\s*$", text, _re.M)
    fg = _re.findall(r"^\s*fglen (\S+) (\S+) (\S+)\s*$", text, _re.M)
    for c_, f_ in zip(cg, fg):
        if any(float(b) > float(a) for a, b in zip(c_, f_)):
            problems.append(f"as printed the fine box {f_} is larger than the coarse box {c_} (the two lengths are written with different precision)")
    if meth and meth[0] == "mg-para":
        pd = _re.findall(r"^\s*pdime (\d+) (\d+) (\d+)\s*$", text, _re.M)
        if not pd or any(tuple(map(int, m)) != tuple(int(x) for x in size["proc_grid"]) for m in pd):
            problems.append(f"pdime lines {pd}; the sizing object has processor grid {size['proc_grid']}")
    r.add(key, not problems, f"input text: mol pqr {mol}, method {sorted(set(meth))}, dime {sorted(set(dime))}" + ("; " + "; ".join(problems) if problems else ""), where)


def rule_per_processor_grid(prog, rep, rid="R9"):
    """Psize.set_smallest is evaluated on a family of multigrid-legal global grids (every 32k+1 up to k=12 occurs in each position, equal and
    unequal dimensions) under several memory ceilings: the per-processor grid it returns must again be multigrid-legal in every direction, no
    larger than the global grid, and small enough for the ceiling (the grid written as `dime` for a parallel solve)."""
    import itertools
    from ..guards import Flow
    from ..objinterp import ObjRunner
    r = rep.rule(rid, "the per-processor grid of a parallel solve is multigrid-legal for every global grid and memory ceiling", floor=20)
    fn = prog.func("psize.py", "Psize.set_smallest")
    where = f"pdb2pqr/psize.py:{fn.node.lineno} (Psize.set_smallest)"
    ks = [1, 2, 3, 4, 5, 6, 7, 8, 9, 11, 12]
    grids = []
    for a, b, c in itertools.product(ks, repeat=3):
        if (a + 2 * b + 3 * c) % 7 == 0 or a == b == c or (a, b, c) in ((7, 7, 5), (5, 7, 7), (9, 4, 9), (12, 1, 12), (3, 12, 3)):
            grids.append([32 * a + 1, 32 * b + 1, 32 * c + 1])
    run = ObjRunner(prog, "psize.py")
    p = run.new("Psize")
    bad, n = [], 0
    for ceil in (400, 150, 50):
        p["gmemceil"] = ceil
        for g in grids:
            n += 1
            try:
                ns = run.call(p, "set_smallest", list(g))
            except Flow as fl:
                bad.append(f"grid {g}, ceiling {ceil} MB: stops with {fl.value}")
                continue
            ok = isinstance(ns, list) and len(ns) == 3 and all(isinstance(x, int) and x >= 33 and (x - 1) % 32 == 0 and x <= gi for x, gi in zip(ns, g)) \
                and 200.0 * ns[0] * ns[1] * ns[2] / 1024 / 1024 < ceil
            if not ok:
                bad.append(f"grid {g}, ceiling {ceil} MB -> {ns}")
    r.info["grids"] = len(grids)
    r.add("nsmall|legal", not bad, f"{n} (global grid, ceiling) pairs: every per-processor grid is of the form 32k+1 >= 33, within the global grid and below the ceiling"
          if not bad else f"{len(bad)} of {n} pairs give an illegal per-processor grid, e.g. {bad[:3]}", where)
    for g in grids[:24]:
        r.ok(f"nsmall|{g[0]}x{g[1]}x{g[2]}", "evaluated under 400, 150 and 50 MB", where)
