"""C01 -- assigned charges and radii are exactly the selected force field's parameters.

Decided statically: no defaulted/borrowed parameters (exact hit/miss partition, stores only
of the unmodified get_params results); lookup keys unmodified; DAT column binding;
full-match aliasing and copy-all; state name <-> PATCHES newname agreement; coverage report.
"""
from __future__ import annotations

import ast
import itertools
import re

from ..cells import Model, amino_cells, ff_status, nucleic_cells
from ..core import AnalysisError, U, names_in, assigned_names, calls_in, guards_of, iter_stmts, walk_no_defs
from ..guards import Flow, Interp
from ..tables import AMINO, FFS, NUCLEIC, Tables


def atomic_tests(expr):
    """Atomic (non-BoolOp, non-Not) sub-tests of a test expression."""
    if isinstance(expr, ast.BoolOp):
        out = []
        for v in expr.values:
            out += atomic_tests(v)
        return out
    if isinstance(expr, ast.UnaryOp) and isinstance(expr.op, ast.Not):
        return atomic_tests(expr.operand)
    return [expr]


def check(prog, rep):
    t = Tables(prog.root)
    model = Model(prog, t)
    rep.explanation = (
        "dataflow/guard analysis of Biomolecule.apply_force_field, Forcefield.get_params/get_names/__init__, "
        "ForcefieldHandler matching, and the state-name decision tables of all set_state methods compared with the "
        "PATCHES.xml newname patterns; coverage of every lookup name in the six built-in force fields"
    )
    rep.exhaustive = True
    rep.trusted += ["sa.tables (independent table model)"]
    rep.not_decided += ["the full SAX state machine of ForcefieldHandler beyond full-match and copy-all",
                        "user-supplied parameter/.names file pairs (arbitrary inputs)",
                        "whether a radius in a .DAT file is the 'right' one (the file is the oracle)"]
    rep.guarded(rule_state_from_current_atoms, prog, rep)  # first: stands even if the table rules below cannot evaluate a state method
    rule_partition(prog, rep)
    rule_keys(prog, rep)
    rule_columns(prog, rep)
    rule_fullmatch(prog, rep)
    rule_state_names(prog, rep, t, model)
    rule_coverage(prog, rep, t, model)
    # with --ligand: only atoms that got parameters (from the force field or the MOL2 file) are printed; the bundled tables are the package's
    from .shared import rule_bundled_tables_from_package, rule_ligand_block_model
    rep.guarded(rule_ligand_block_model, prog, rep, "R7")
    rep.guarded(rule_bundled_tables_from_package, prog, rep, "R8")
    rep.guarded(rule_files_read, prog, rep, "R10")


# ---------------------------------------------------------------------------------- R1
def rule_partition(prog, rep):
    r = rep.rule("R1", "no defaulting: exact hit/miss partition; stores are the unmodified get_params results", floor=5)
    fi = prog.func("biomolecule.py", "Biomolecule.apply_force_field")
    fn = fi.node
    where = f"pdb2pqr/biomolecule.py:{fn.lineno} (Biomolecule.apply_force_field)"
    # the get_params call and the names bound to its result
    bind = None
    for st in iter_stmts(fn.body):
        if isinstance(st, ast.Assign) and isinstance(st.value, ast.Call) and U(st.value.func).endswith(".get_params"):
            tg = st.targets[0]
            if isinstance(tg, ast.Tuple) and len(tg.elts) == 2 and all(isinstance(e, ast.Name) for e in tg.elts):
                bind = (st, tg.elts[0].id, tg.elts[1].id)
    if bind is None:
        raise AnalysisError("apply_force_field: 'charge, radius = <ff>.get_params(...)' not found")
    st_bind, cname, rname = bind
    rebinds = assigned_names(fn)
    for nm in (cname, rname):
        others = [s for s in rebinds.get(nm, []) if s is not st_bind]
        r.add(f"unmodified|{nm}", not others,
              f"{nm!r} is bound only by the get_params call" if not others else
              f"{nm!r} is re-bound at line {others[0].lineno}: the stored value is no longer the table value", where)
    # the per-atom loop body
    loop = getattr(st_bind, "_parent", None)
    if not isinstance(loop, ast.For):
        raise AnalysisError("apply_force_field: get_params call is not directly inside the per-atom loop")
    ret = [s for s in iter_stmts(fn.body) if isinstance(s, ast.Return)]
    if len(ret) != 1 or not isinstance(ret[0].value, ast.Tuple) or len(ret[0].value.elts) != 2:
        raise AnalysisError("apply_force_field: expected a single 'return hits, misses'")
    hit, miss = (U(e) for e in ret[0].value.elts)
    # enumerate the truth assignments of the atomic tests in the loop body
    idx = loop.body.index(st_bind)
    body = loop.body[idx + 1:]
    atoms_ = []
    for s in iter_stmts(body):
        if isinstance(s, ast.If):
            for a in atomic_tests(s.test):
                if U(a) not in [U(x) for x in atoms_]:
                    atoms_.append(a)
    known = {f"{cname} is not None": lambda c, rr: c, f"{rname} is not None": lambda c, rr: rr,
             f"{cname} is None": lambda c, rr: not c, f"{rname} is None": lambda c, rr: not rr,
             f"None not in ({cname}, {rname})": lambda c, rr: c and rr,
             f"None in ({cname}, {rname})": lambda c, rr: not (c and rr)}
    unknown = [U(a) for a in atoms_ if U(a) not in known]
    stores_target = None
    n_paths = 0
    for cval, rval in itertools.product((True, False), repeat=2):
        for extra in itertools.product((True, False), repeat=len(unknown)):
            env = {k: f(cval, rval) for k, f in known.items()}
            env.update(dict(zip(unknown, extra)))
            events = []

            def hook(interp, call, events=events):
                name = U(call.func)
                if name.endswith(".append") and call.args:
                    events.append(("append", U(call.func.value), U(call.args[0])))
                    return None
                return None  # other calls (logging, charge check) have no bearing on the partition

            def on_store(interp, text, val, node, events=events):
                if text.endswith(".ffcharge") or text.endswith(".radius"):
                    events.append(("store", text, U(node.value) if isinstance(node, ast.Assign) else "?"))

            env.update({cname: "<C>", rname: "<R>"})
            it = Interp(env, call_hook=hook, on_store=on_store, loop_hook=lambda i, s: None)
            try:
                it.run(body)
            except Flow as fl:
                if fl.kind not in ("continue",):
                    raise AnalysisError(f"apply_force_field: unexpected {fl.kind} in the per-atom loop") from fl
            n_paths += 1
            apps = [e for e in events if e[0] == "append" and e[1] in (hit, miss)]
            stores = [e for e in events if e[0] == "store"]
            both = cval and rval
            tag = f"charge={'value' if cval else 'None'},radius={'value' if rval else 'None'}" + (
                "," + ",".join(f"{u}={v}" for u, v in zip(unknown, extra)) if unknown else "")
            want = hit if both else miss
            ok = len(apps) == 1 and apps[0][1] == want
            r.add(f"partition|{tag}", ok,
                  f"atom appended to {[a[1] for a in apps]}; exactly [{want!r}] required "
                  f"({'both parameters found' if both else 'a parameter is missing'})", where)
            if both:
                attrs = {s[1].split(".")[-1]: s[2] for s in stores}
                ok2 = attrs.get("ffcharge") == cname and attrs.get("radius") == rname
                r.add(f"stores|{tag}", ok2, f"stores on the hit path: {attrs}; required ffcharge={cname}, radius={rname}",
                      where)
            else:
                r.add(f"stores|{tag}", not stores,
                      f"on a miss the atom's parameters must stay unset; stores seen: {stores}", where)
    r.info["paths"] = n_paths
    # whole program: who stores ffcharge/radius on structure atoms
    allowed = {
        "biomolecule.py::Biomolecule.apply_force_field": "the force-field assignment itself",
        "main.py::non_trivial": "ligand block: MOL2-derived parameters for HETATM ligand atoms (C16)",
        "structures.py::Atom.__init__": "initialised to None",
        "structures.py::Atom.from_pqr_line": "PQR reader: values read from a file, not assigned",
        "structures.py::Atom.from_qcd_line": "QCD reader: values read from a file, not assigned",
        "pdb.py::HETATM.__init__": "record attribute of pdb.HETATM (not copied by structures.Atom.__init__)",
        "ligand/mol2.py::Mol2Atom.__init__": "MOL2 atom, initialised to None",
        "ligand/mol2.py::Mol2Atom.assign_radius": "MOL2 atom radius from the ligand RADII tables (C16.R3)",
        "forcefield.py::ForcefieldAtom.__init__": "the table row object itself",
        "ligand/mol2.py::Mol2Molecule.assign_radii": "MOL2 atom radius from the ligand RADII tables (C16.R3)",
    }
    writers = {}
    for key, f in prog.funcs.items():
        for n in walk_no_defs(f.node):
            tgts = []
            if isinstance(n, ast.Assign):
                tgts = n.targets
            elif isinstance(n, (ast.AugAssign, ast.AnnAssign)):
                tgts = [n.target]
            for tg in tgts:
                for sub in ast.walk(tg):
                    if isinstance(sub, ast.Attribute) and sub.attr in ("ffcharge", "radius") and isinstance(sub.ctx, ast.Store):
                        writers.setdefault(key, []).append(n)
        for c in calls_in(f.node):
            if U(c.func) == "setattr" and len(c.args) >= 2 and isinstance(c.args[1], ast.Constant) \
                    and c.args[1].value in ("ffcharge", "radius"):
                writers.setdefault(key, []).append(c)
    for key, nodes in sorted(writers.items()):
        f = prog.funcs[key]
        ok = key in allowed
        r.add(f"writer|{key}", ok,
              f"stores ffcharge/radius: {allowed.get(key, 'NOT an accepted parameter writer')}",
              f"pdb2pqr/{f.module.rel}:{nodes[0].lineno} ({f.qual})")
    # structures.Atom.__init__ must not copy radius/ffcharge from the record
    ai = prog.func("structures.py", "Atom.__init__").node
    for n in walk_no_defs(ai):
        if isinstance(n, ast.Assign) and any(U(tg) in ("self.radius", "self.ffcharge") for tg in n.targets):
            isnone = isinstance(n.value, ast.Constant) and n.value.value is None
            r.add(f"init|{U(n.targets[0])}", isnone, f"Atom.__init__ sets {U(n.targets[0])} = {U(n.value)}; must be None "
                  "(no parameter may pre-exist the force-field assignment)",
                  f"pdb2pqr/structures.py:{n.lineno} (Atom.__init__)")


# ---------------------------------------------------------------------------------- R2
def rule_keys(prog, rep):
    """Decided on object models (any code shape); the syntactic formulation is kept as a fallback for shapes the
    interpreter cannot follow."""
    n_rules = len(rep.rules)
    try:
        rule_keys_model(prog, rep)
    except AnalysisError:
        del rep.rules[n_rules:]
        rule_keys_syntactic(prog, rep)


def rule_keys_model(prog, rep):
    from ..guards import Flow, Obj
    from ..objinterp import ObjRunner
    r = rep.rule("R2", "lookup keys are the unmodified residue state name and atom name", floor=4)
    where = "pdb2pqr/forcefield.py (Forcefield.get_params / get_names) and pdb2pqr/biomolecule.py (apply_force_field / apply_name_scheme)"

    def ffatom(res, name, q, rad, ffres=None, ffname=None):
        return Obj({"__class__": "ForcefieldAtom", "name": ffname or name, "resname": ffres or res, "charge": q, "radius": rad, "group": "G", "__id__": f"{res}:{name}"})

    table = {"ALA": {"CA": (0.1, 1.9), "N": (-0.4, 1.8)}, "NALA": {"CA": (0.2, 1.9), "N": (0.3, 1.8), "H2": (0.3, 0.6)},
             "DA5": {"P": (1.1, 2.1)}, "WAT": {"O": (-0.8, 1.7)}, "AL": {"CA": (9.0, 9.0)}, "ALAX": {"CA": (8.0, 8.0)}, "LIG": {"C1": (0.5, 1.5)}}
    fmap = {}
    for res, ats in table.items():
        fres = Obj({"__class__": "ForcefieldResidue", "name": res, "atoms": {}})
        for an, (q, rad) in ats.items():
            fres["atoms"][an] = ffatom(res, an, q, rad, ffres=res.lower() + "_ff", ffname=an.lower() + "_ff")
        fmap[res] = fres
    ff = Obj({"__class__": "Forcefield", "map": fmap, "name": "model"})
    run = ObjRunner(prog, "forcefield.py")
    probes = [("ALA", "CA", True), ("NALA", "H2", True), ("ALA", "H2", False), ("GLY", "CA", False), ("ala", "CA", False), (" ALA", "CA", False),
              ("ALA ", "CA", False), ("ALA", "ca", False), ("ALA", " CA", False), ("A", "CA", False), ("ALAXY", "CA", False), ("ALA", "C", False),
              ("NALAX", "CA", False)]
    bad = []
    try:
        for res, an, hit in probes:
            q = run.call(ff, "get_params", res, an)
            nm = run.call(ff, "get_names", res, an)
            want_q = table[res][an] if hit else (None, None)
            want_n = (res.lower() + "_ff", an.lower() + "_ff") if hit else (None, None)
            if tuple(q) != tuple(want_q):
                bad.append(f"get_params({res!r}, {an!r}) = {tuple(q)}, the table gives {want_q}")
            if tuple(nm) != tuple(want_n):
                bad.append(f"get_names({res!r}, {an!r}) = {tuple(nm)}, the table gives {want_n}")
    except Flow as fl:
        bad.append(f"lookup stops with {fl.value}")
    r.add("lookup|exact-keys-only", not bad,
          f"{len(probes)} probes: a hit returns the table's own values, and only the exact residue and atom names hit (no case folding, trimming, "
          "prefix or fallback)" if not bad else "; ".join(bad[:3]), where)

    # the keys the two consumers hand to the lookup, per residue family
    def res(cls, name, ffname, atoms):
        robj = Obj({"__class__": cls, "name": name, "ffname": ffname, "atoms": [], "is_n_term": True, "is_c_term": False, "charge": 0.0})
        for an in atoms:
            robj["atoms"].append(Obj({"__class__": "Atom", "name": an, "res_name": name, "residue": robj, "ffcharge": None, "radius": None, "__id__": f"{name}:{an}"}))
        return robj

    # (class, residue name, state name, atoms, key the lookup must use).  The second alanine is in a state the force field does
    # not define (CALA): its atoms must be misses, not quietly parameterised under the plain name.
    spec = [("ALA", "ALA", "NALA", ["N", "CA", "H2", "XX"], "NALA"), ("ALA", "ALA", "CALA", ["CA", "N"], "CALA"), ("ADE", "DA", "DA5", ["P"], "DA5"),
            ("WAT", "HOH", "WAT", ["O", "H1"], "WAT"), ("Residue", "LIG", "ZZZ", ["C1"], "LIG")]
    for meth, callee in (("apply_force_field", "get_params"), ("apply_name_scheme", "get_names")):
        seen = []

        def extra(runner, interp, call, args, kw, seen=seen, callee=callee):
            if isinstance(call.func, ast.Attribute) and call.func.attr == callee:
                seen.append((args[0], args[1]))
                return NotImplemented
            if U(call.func).endswith("noninteger_charge"):
                return None
            return NotImplemented

        run2 = ObjRunner(prog, "biomolecule.py", extra_hook=extra)
        fresh = [res(c_, n_, f_, ats) for c_, n_, f_, ats, _ in spec]
        bio = Obj({"__class__": "Biomolecule", "residues": fresh})
        try:
            out = run2.call(bio, meth, ff)
        except Flow as fl:
            raise AnalysisError(f"{meth} stops with {fl.value} on the model") from None
        flat = [(x, a, k_) for x, (_, _, _, _, k_) in zip(fresh, spec) for a in x["atoms"]]
        wrong = []
        if meth == "apply_force_field":
            # one lookup per atom, in order
            for (rk, ak), (x, a, k_) in zip(seen, flat):
                an = a["__id__"].split(":")[1]
                if rk != k_ or ak != an:
                    wrong.append(f"{x['name']}({x['ffname']}):{an} looked up as ({rk!r}, {ak!r}), expected ({k_!r}, {an!r})")
            okn = len(seen) == len(flat)
        else:
            # the naming scheme may look further keys up; the first lookup of every atom must be the state key
            firsts = {}
            for rk, ak in seen:
                firsts.setdefault(ak, rk)
            okn = len(seen) >= len(flat)
            for x, a, k_ in flat:
                pass
            keys = {rk for rk, _ in seen}
            extra_keys = keys - {k_ for _, _, k_ in flat}
            if extra_keys:
                wrong.append(f"lookups under keys {sorted(extra_keys)} that are no residue's state key")
        r.add(f"residue-key|{meth}", not wrong and okn,
              f"{len(seen)} lookups for {len(flat)} atoms; residue keys = the state name for amino acids, nucleotides and waters (also when the force "
              "field lacks it), the plain name otherwise; atom key = the atom's name" if not wrong and okn else f"{wrong[:3]} ({len(seen)} lookups for {len(flat)} atoms)",
              f"pdb2pqr/biomolecule.py ({meth})")
        if meth == "apply_force_field":
            hits, misses = out
            okp = True
            detail = []
            for x, a, k_ in flat:
                an = a["__id__"].split(":")[1]
                exp = table.get(k_, {}).get(an)
                in_h, in_m = sum(1 for y in hits if y is a), sum(1 for y in misses if y is a)
                if exp is not None and not (in_h == 1 and in_m == 0 and (a["ffcharge"], a["radius"]) == exp):
                    okp = False
                    detail.append(f"{x['ffname']}:{an}: expected hit with {exp}, got hits={in_h} misses={in_m} values={(a['ffcharge'], a['radius'])}")
                if exp is None and not (in_h == 0 and in_m == 1 and a["ffcharge"] is None and a["radius"] is None):
                    okp = False
                    detail.append(f"{x['ffname']}:{an}: expected miss, got hits={in_h} misses={in_m} values={(a['ffcharge'], a['radius'])}")
            r.add("partition|apply_force_field", okp, "every atom is on exactly one list; hits carry the table's values, misses carry none" if okp else "; ".join(detail[:3]),
                  "pdb2pqr/biomolecule.py (apply_force_field)")
    r.info["methods_interpreted"] = sorted(set(run.calls) | set(run2.calls))


def rule_keys_syntactic(prog, rep):
    r = rep.rule("R2", "lookup keys are the unmodified residue state name and atom name", floor=4)
    for meth in ("get_params", "get_names"):
        fi = prog.func("forcefield.py", f"Forcefield.{meth}")
        fn = fi.node
        params = [a.arg for a in fn.args.args][1:3]
        where = f"pdb2pqr/forcefield.py:{fn.lineno} (Forcefield.{meth})"
        if len(params) != 2:
            raise AnalysisError(f"Forcefield.{meth}: expected (self, resname, atomname)")
        rb = assigned_names(fn)
        rebound = [p for p in params if p in rb]
        r.add(f"params-unmodified|{meth}", not rebound,
              f"parameters {params} are never re-bound" if not rebound else f"{rebound} re-bound before the lookup", where)
        # every subscript into self.map / .atoms uses the bare parameter
        bad = []
        n_sub = 0
        for n in walk_no_defs(fn):
            if isinstance(n, ast.Subscript) and (U(n.value) == "self.map" or U(n.value).endswith(".atoms")):
                n_sub += 1
                want = params[0] if U(n.value) == "self.map" else params[1]
                if U(n.slice) != want:
                    bad.append(U(n))
            if isinstance(n, ast.Call) and isinstance(n.func, ast.Attribute) and n.func.attr in ("get", "get_atom", "get_residue") \
                    and n.args and U(n.func.value) in ("self.map", "self"):
                n_sub += 1
                if U(n.args[0]) not in params:
                    bad.append(U(n))
        r.add(f"subscripts|{meth}", not bad and n_sub >= 2,
              f"{n_sub} table subscripts, all keyed by the bare parameters" if not bad else
              f"subscripts with transformed keys: {bad}", where)
        # nothing but None / the table values is returned
        consts = [U(n.value) for n in walk_no_defs(fn) if isinstance(n, ast.Assign) and isinstance(n.value, ast.Constant)
                  and n.value.value is not None]
        r.add(f"no-default|{meth}", not consts, "initial/default results are None only" if not consts else
              f"non-None default values {consts}", where)
    # residue key at the two call sites
    for meth, callee in (("apply_force_field", "get_params"), ("apply_name_scheme", "get_names")):
        fi = prog.func("biomolecule.py", f"Biomolecule.{meth}")
        fn = fi.node
        where = f"pdb2pqr/biomolecule.py:{fn.lineno} (Biomolecule.{meth})"
        call = next((c for c in calls_in(fn) if U(c.func).endswith("." + callee)), None)
        if call is None or len(call.args) != 2:
            raise AnalysisError(f"{meth}: call to {callee}(resname, atomname) not found")
        a0, a1 = call.args
        defs = [s for s in iter_stmts(fn.body) if isinstance(s, ast.Assign) and U(s.targets[0]) == U(a0)]
        vals = sorted({U(s.value) for s in defs})
        okres = isinstance(a0, ast.Name) and vals == ["residue.ffname", "residue.name"]
        if okres:
            for s in defs:
                g = guards_of(s)
                if U(s.value) == "residue.ffname":
                    # the state name is used for the parameterised families unconditionally: no fallback to the plain name
                    okres &= len(g) == 1 and g[-1][1] is True and isinstance(g[-1][0], ast.Call) and U(g[-1][0].func) == "isinstance" \
                        and all(k in U(g[-1][0]) for k in ("Amino", "Nucleic"))
                else:
                    # either the else-arm of that test, or an unguarded default that the isinstance arm overrides later
                    ff = [d for d in defs if U(d.value) == "residue.ffname"]
                    okres &= (len(g) == 1 and g[-1][1] is False and isinstance(g[-1][0], ast.Call)) or \
                        (len(g) == 0 and bool(ff) and s.lineno < ff[0].lineno)
            # no later re-binding of the key
            okres &= len(defs) == 2
        r.add(f"residue-key|{meth}", okres,
              f"residue key is {vals} (ffname for the parameterised families incl. Amino and Nucleic, plain name otherwise)",
              where)
        atom_defs = [U(s.value) for s in iter_stmts(fn.body) if isinstance(s, ast.Assign) and U(s.targets[0]) == U(a1)]
        okatom = U(a1) == "atom.name" or atom_defs == ["atom.name"]
        r.add(f"atom-key|{meth}", okatom, f"atom key is {U(a1)} <- {atom_defs or 'direct'}", where)


# ---------------------------------------------------------------------------------- R3
def rule_columns(prog, rep):
    r = rep.rule("R3", "DAT columns 0..4 bind to resname, name, charge, radius, group", floor=5)
    # the DAT parser: the function of forcefield.py that constructs ForcefieldAtom objects from a split line
    cands = [f for k, f in prog.funcs.items() if f.module.rel == "forcefield.py" and any(U(c.func) == "ForcefieldAtom" for c in calls_in(f.node))
             and any(isinstance(c.func, ast.Attribute) and c.func.attr == "split" for c in calls_in(f.node))]
    if len(cands) != 1:
        raise AnalysisError(f"forcefield.py: expected one parameter-file parser constructing ForcefieldAtom, found {[f.qual for f in cands]}")
    fi = cands[0]
    fn = fi.node
    where = f"pdb2pqr/forcefield.py:{fn.lineno} ({fi.qual})"
    ctor = prog.func("forcefield.py", "ForcefieldAtom.__init__").node
    cparams = [a.arg for a in ctor.args.args][1:]
    # which local holds the split line
    split_names = [U(s.targets[0]) for s in iter_stmts(fn.body) if isinstance(s, ast.Assign)
                   and isinstance(s.value, ast.Call) and U(s.value.func).endswith(".split") and not s.value.args]
    if not split_names:
        raise AnalysisError("Forcefield.__init__: whitespace split of the DAT line not found")
    fields = split_names[0]
    # local name -> column index (through float())
    col = {}
    for s in iter_stmts(fn.body):
        if isinstance(s, ast.Assign) and len(s.targets) == 1:
            v = s.value
            conv = None
            if isinstance(v, ast.Call) and U(v.func) == "float" and v.args:
                conv = "float"
                v = v.args[0]
            if isinstance(v, ast.Subscript) and U(v.value) == fields and isinstance(v.slice, ast.Constant):
                col[U(s.targets[0])] = (v.slice.value, conv)
            tg = s.targets[0]
            if isinstance(tg, ast.Tuple) and isinstance(s.value, ast.Subscript) and U(s.value.value) == fields \
                    and isinstance(s.value.slice, ast.Slice):
                lo = s.value.slice.lower.value if s.value.slice.lower else 0
                for i, e in enumerate(tg.elts):
                    col[U(e)] = (lo + i, None)
    want = {"resname": 0, "name": 1, "charge": 2, "radius": 3, "group": 4}
    calls = [c for c in calls_in(fn) if U(c.func) == "ForcefieldAtom"]
    if not calls:
        raise AnalysisError("Forcefield.__init__: ForcefieldAtom(...) construction not found")
    for i, c in enumerate(calls):
        bound = {}
        for p, a in zip(cparams, c.args):
            bound[p] = a
        for k in c.keywords:
            bound[k.arg] = k.value
        for p, a in bound.items():
            txt = U(a)
            ci = None
            if txt in col:
                ci = col[txt]
            elif isinstance(a, ast.Call) and U(a.func) == "float" and isinstance(a.args[0], ast.Subscript) \
                    and U(a.args[0].value) == fields:
                ci = (a.args[0].slice.value, "float")
            elif isinstance(a, ast.Subscript) and U(a.value) == fields and isinstance(a.slice, ast.Constant):
                ci = (a.slice.value, None)
            ok = ci is not None and ci[0] == want.get(p)
            if p in ("charge", "radius"):
                ok = ok and ci[1] == "float"
            r.add(f"column|ctor{i}:{p}", ok,
                  f"ForcefieldAtom parameter {p!r} is fed from column {ci[0] if ci else '?'} of the DAT line "
                  f"(format: column {want.get(p)})", f"pdb2pqr/forcefield.py:{c.lineno} (Forcefield.__init__)")
        missing = [p for p in ("name", "charge", "radius", "resname") if p not in bound]
        if missing:
            r.bad(f"column|ctor{i}:missing", f"constructor call does not bind {missing}", where)
    # user-supplied files go through the very same parse loop and handler
    # (one parser function was established above); one XML parse site; the user-file parameters only select path values
    ff_funcs = [f for k, f in prog.funcs.items() if f.module.rel == "forcefield.py" and f.qual.startswith("Forcefield.")]
    sax_sites = [c for f in ff_funcs for c in calls_in(f.node) if U(c.func).endswith("parseString")]
    opens = [c for w in walk_no_defs(fn) if isinstance(w, ast.With) and any(U(x.func) == "ForcefieldAtom" for x in calls_in(w))
             for it_ in w.items for c in calls_in(it_.context_expr) if U(c.func) == "open"]
    steering = []
    for f in ff_funcs:
        params = {a.arg for a in f.node.args.args} & {"userff", "usernames"}
        for n in walk_no_defs(f.node):
            if isinstance(n, ast.If) and any(x in params for x in names_in(n.test)):
                arm_calls = [U(c.func) for st in n.body for c in calls_in(st)]
                steering += [f"{f.qual}:{n.lineno} {x}" for x in arm_calls if not x.startswith(("io.test_", "_LOGGER.", "str", "Path"))]
    r.add("user-files-same-path", len(sax_sites) == 1 and len(opens) == 1 and not steering,
          f"one parameter parser ({fi.qual}, {len(opens)} open), {len(sax_sites)} names-file parse site; the user-file parameters only select "
          f"which path is parsed (calls under a user-file test: {steering or 'none'})", where)
    # comment lines
    cm = [n for n in walk_no_defs(fn) if isinstance(n, ast.Call) and U(n.func).endswith(".startswith") and n.args
          and isinstance(n.args[0], ast.Constant) and n.args[0].value == "#"]
    r.add("comment-prefix", bool(cm), "comment lines are recognised by a '#' prefix test", where)
    # the residue a row is filed under is its own column-0 name
    gr = [c for c in calls_in(fn) if U(c.func) in ("self.get_residue", "ForcefieldResidue") and c.args]
    okfile = all(col.get(U(c.args[0]), (None,))[0] == 0 for c in gr) and bool(gr)
    r.add("filed-under-col0", okfile, "rows are filed under the residue name of column 0", where)


# ---------------------------------------------------------------------------------- R4
NAMES_FF = {"FFR": {"FA": 1, "FB": 2, "H1": 9, "1HB": 10, "O1'": 11, "C5*": 12, "OXT": 13}, "RESQ": {"FA": 4}, "XALA": {"N": 5}, "GLY": {"H": 6, "HA2": 7, "FA": 8}}
NAMES_REFERENCE = ["RES", "RESB", "XRES", "NALA", "NGLY", "GLY"]
NAMES_BLOCKS = [
    {"name": "RES", "use": "FFR", "atoms": [("CA1", "FA"), ("ZZ", "NOPE")]},
    {"name": "N(ALA|GLY)", "use": "X$group", "atoms": []},
    # two blocks that match no residue of the force field (one with, one without a source residue): their atom aliases must die with them
    {"name": "NOSUCH", "use": None, "atoms": [("ZQ", "H")]},
    {"name": "GHOST", "use": "NOFF", "atoms": [("ZR", "HA2"), ("ZS", "FA")]},
    {"name": "GLY", "use": None, "atoms": [("HA3", "HA2")]},
]


def names_expected():
    """The documented meaning of a .names file, applied to the model force field (atoms are identified by number)."""
    m = {r: dict(a) for r, a in NAMES_FF.items()}
    for blk in NAMES_BLOCKS:
        pat, use = blk["name"], blk["use"]
        if use is not None:
            for key in NAMES_REFERENCE:
                mm = re.fullmatch(pat, key)
                if not mm:
                    continue
                src = use.replace("$group", mm.group(1)) if "$group" in use else use
                if src not in m:
                    continue
                tgt = m.setdefault(key, {})
                tgt.update(m[src])
        for key in list(m):
            if blk["atoms"] and re.fullmatch(pat, key):
                for new, old in blk["atoms"]:
                    if old in m[key]:
                        m[key][new] = m[key][old]
    return m


def names_events():
    ev = []
    ws = ("chars", "\n    ")
    for blk in NAMES_BLOCKS:
        ev += [("start", "residue"), ws, ("start", "name"), ("chars", blk["name"]), ("end", "name"), ws]
        if blk["use"] is not None:
            ev += [("start", "useresname"), ("chars", blk["use"]), ("end", "useresname"), ws]
        for new, old in blk["atoms"]:
            ev += [("start", "atom"), ws, ("start", "name"), ("chars", new), ("end", "name"), ws,
                   ("start", "useatomname"), ("chars", old), ("end", "useatomname"), ws, ("end", "atom"), ws]
        ev += [("end", "residue"), ws]
    return ev


def rule_fullmatch(prog, rep):
    """The names handler is executed on object models: a model force field, a model definition map and the SAX event
    stream of a model names file that exercises every documented construct; the resulting alias structure is compared
    with the documented meaning."""
    from ..objinterp import ObjRunner
    r = rep.rule("R4", "names-file patterns are applied as full matches; aliasing copies every atom", floor=5)
    hc = prog.cls("forcefield.py", "ForcefieldHandler")
    where = f"pdb2pqr/forcefield.py:{hc.node.lineno} (ForcefieldHandler)"
    run = ObjRunner(prog, "forcefield.py")
    atoms = {}

    def atom(n):
        return atoms.setdefault(n, {"__class__": "ForcefieldAtom", "name": f"a{n}", "id": n})

    ffmap = {}
    for res, ats in NAMES_FF.items():
        ffmap[res] = {"__class__": "ForcefieldResidue", "name": res, "atoms": {a: atom(n) for a, n in ats.items()}}
    reference = {k: {"__class__": "DefinitionResidue", "name": k} for k in NAMES_REFERENCE}
    handler = run.new("ForcefieldHandler", ffmap, reference)
    meth = {"start": "startElement", "end": "endElement", "chars": "characters"}
    for kind, val in names_events():
        if kind == "start":
            run.call(handler, meth[kind], val, {})
        else:
            run.call(handler, meth[kind], val)
    got = {}
    for res, obj in ffmap.items():
        if not (isinstance(obj, dict) and isinstance(obj.get("atoms"), dict)):
            raise AnalysisError(f"names handler left a non-residue object under {res!r}")
        got[res] = {a: (x.get("id") if isinstance(x, dict) else None) for a, x in obj["atoms"].items()}
    want = names_expected()
    r.info["model"] = {"force_field": NAMES_FF, "definition_names": NAMES_REFERENCE, "names_blocks": NAMES_BLOCKS,
                       "methods_interpreted": sorted(set(run.calls))}

    def diff(keys):
        out = []
        for k in keys:
            if want.get(k) != got.get(k):
                out.append(f"{k}: expected {want.get(k)}, handler produced {got.get(k)}")
        return out

    aspects = {
        "residue-alias": (["RES"], "a <residue> block makes the canonical name an alias of the force field's residue: every atom entry is copied "
                          "and points at the very same parameter object; <useatomname> entries add the canonical atom name only when the "
                          "force-field atom exists"),
        "full-match": (["RESB", "XRES", "RESQ", "FFR"], "the <name> pattern must match a whole name: RESB (prefix), XRES (substring) and the "
                       "force-field entry RESQ are not touched by the pattern RES"),
        "group": (["NALA", "NGLY", "XALA"], "$group is replaced by the first capture group of the matched name and only existing source "
                  "residues are copied"),
        "no-state-leak": (["GLY"], "atom aliases of one <residue> block do not leak into the next - also when the block matched no residue of the "
                          "force field; a block without <useresname> only adds atom aliases"),
    }
    for key, (names, what) in aspects.items():
        d = diff(names)
        r.add(f"names|{key}", not d, what + (f" -- BUT {'; '.join(d)}" if d else ""), where)
    extra = sorted(set(got) - set(want))
    r.add("names|no-extra-entries", not extra, f"entries created beyond the documented meaning: {extra or 'none'}", where)


# ---------------------------------------------------------------------------------- R5
def rule_state_names(prog, rep, t, model):
    r = rep.rule("R5", "lookup name produced by set_state = the name PATCHES.xml gives the applied patch", floor=150)
    cells = amino_cells(model)
    newname = {p.name: p.newname for p in t.patch_list if p.newname}
    for c in cells:
        if c.pos == "N+C":
            continue  # C02.R5
        where = "pdb2pqr/aa.py (set_state)"
        # base (side-chain state) name
        base = c.res
        for p in c.patches:
            if p in ("ASH", "GLH", "HIP", "CYM", "CYX", "LYN", "TYM", "AR0"):
                base = p
        if c.state.startswith("in:"):
            from ..cells import INPUT_VARIANTS
            base = INPUT_VARIANTS[c.state[3:]][1]  # a variant named by the input file keeps its state
        if c.res == "HIS" and base == "HIS":
            a = set(c.atoms)
            base = "HIP" if {"HD1", "HE2"} <= a else "HID" if "HD1" in a else "HIE" if "HE2" in a else "?"
        term = [p for p in c.patches if p in newname and p not in ("PEPTIDE",)]
        want = base
        for p in term:
            want = newname[p].replace("*", want)
        key = f"name|{c.res}:{c.state}:{c.pos}"
        if c.lookup == want:
            r.ok(key, f"patches {c.patches} -> lookup {c.lookup!r}", where)
            continue
        # semantic discharge (e.g. N-terminal PRO, which receives the NEUTRAL-NTERM atom set because its N already
        # has two heavy neighbours, yet is looked up as NPRO): the departure from the PATCHES.xml name is accepted
        # only if the entry actually used is full and carries the valence-derived charge in at least one force
        # field, is never full with a wrong charge, and is never worse than the PATCHES.xml name would have been.
        from ..cells import Cell
        detail = []
        n_good = 0
        for ff in FFS:
            ffmap = t.ff(ff)
            st, miss, q = ff_status(ffmap, c)
            stw, _, _ = ff_status(ffmap, Cell(lookup=want, atoms=c.atoms))
            if st == "full" and abs(q - c.expected) <= 5e-4:
                n_good += 1
            elif st == "full":
                detail.append(f"{ff}: {c.lookup} sums {q:+.4f} != {c.expected:+d}")
            elif stw == "full":
                detail.append(f"{ff}: {c.lookup} is {st} (missing {miss[:3]}) although {want} is fully defined")
        r.add(key, n_good > 0 and not detail,
              f"patches {c.patches} (PATCHES.xml name {want!r}) but set_state yields {c.lookup!r}; accepted only if "
              f"that entry is full with the valence-derived charge {c.expected:+d} somewhere ({n_good} FF), never full "
              "with another charge and never worse than the PATCHES.xml name" + (f"; refuted: {detail[:3]}" if detail else ""),
              where)
    # nucleotides: suffix = patch newname
    for c in nucleic_cells(model):
        if c.pos == "5+3":
            continue
        # nucleotide terminal patches carry no newname; the convention (patches DA5, DA3, ... and the DAT rows)
        # is base + "5"/"3", and where PATCHES.xml defines that reference its atom set must be the patched one
        want = c.res + ("5" if "5TERM" in c.patches else "") + ("3" if "3TERM" in c.patches else "")
        ok = c.lookup == want
        note = ""
        if ok and want in t.map and want != c.res:
            diff = set(t.map[want].atoms) ^ set(c.atoms)
            ok = not diff
            note = f"; reference {want} atom set {'equals' if not diff else 'differs from'} the patched topology {sorted(diff)[:4]}"
        r.add(f"name|{c.res}:{c.pos}", ok, f"patches {c.patches} -> lookup {c.lookup!r} (convention: {want!r}){note}",
              "pdb2pqr/na.py (set_state)")
    # set_states visits every family that defines set_state
    ss = prog.func("biomolecule.py", "Biomolecule.set_states").node
    tests = [n for n in walk_no_defs(ss) if isinstance(n, ast.Call) and U(n.func) == "isinstance"]
    fams = U(tests[0].args[1]) if tests else ""
    calls = [c for c in calls_in(ss) if U(c.func).endswith(".set_state")]
    guarded_ok = bool(calls) and "Amino" in fams and "Nucleic" in fams
    r.add("set_states|families", guarded_ok,
          f"set_states calls set_state for isinstance {fams or '<none>'}; must include Amino and Nucleic",
          f"pdb2pqr/biomolecule.py:{ss.lineno} (Biomolecule.set_states)")
    # and it is called before apply_force_field in non_trivial, unconditionally
    nt = prog.func("main.py", "non_trivial").node
    order = [(U(c.func).split(".")[-1], c) for c in calls_in(nt) if U(c.func).split(".")[-1] in ("set_states", "apply_force_field")]
    order.sort(key=lambda x: (x[1].lineno, x[1].col_offset))
    names = [o[0] for o in order]
    top = all(getattr(ast_stmt(o[1]), "_parent", None) is nt for o in order)
    r.add("set_states|order", names == ["set_states", "apply_force_field"] and top,
          f"non_trivial calls {names} at top level (state naming precedes parameter lookup on every path)",
          f"pdb2pqr/main.py:{nt.lineno} (non_trivial)")


def ast_stmt(node):
    while node is not None and not isinstance(node, ast.stmt):
        node = getattr(node, "_parent", None)
    return node


# ---------------------------------------------------------------------------------- R6
def rule_coverage(prog, rep, t, model):
    r = rep.rule("R6", "coverage report: every lookup name x force field is full, partial or absent (informational; "
                       "normative in C06.R1/C12.R5)", floor=6)
    cells = amino_cells(model) + nucleic_cells(model)
    summary = {}
    partial = []
    for ff in FFS:
        ffmap = t.ff(ff)
        counts = {"full": 0, "partial": 0, "absent": 0}
        seen = set()
        for c in cells:
            if c.pos in ("N+C", "5+3"):
                continue
            sig = (c.lookup, tuple(sorted(c.atoms)))
            if sig in seen:
                continue
            seen.add(sig)
            st, miss, q = ff_status(ffmap, c)
            counts[st] += 1
            if st == "partial":
                partial.append(f"{ff}:{c.lookup} missing {miss[:4]}")
        summary[ff] = counts
        r.ok(f"cov|{ff}", f"{len(seen)} lookup names classified: {counts}")
    r.info["summary"] = summary
    r.info["partial_cells"] = partial


def rule_state_from_current_atoms(prog, rep):
    """set_state names the force-field residue from the atoms the residue has when it is called - repair and hydrogen addition run between
    construction and naming.  Each nucleotide class is built on model records with and without the 2'-hydroxyl oxygen; then the oxygen is added
    to (removed from) the one built without (with) it: residues with the same atoms must get the same name, whatever their history."""
    from ..guards import Flow, Obj
    from ..objinterp import ObjRunner
    r = rep.rule("R9", "the state name follows the atoms present when set_state runs, not the atoms the residue was built from", floor=4)

    def record(name, resname, k):
        return Obj({"__class__": "ATOM", "serial": k, "name": name, "alt_loc": "", "res_name": resname, "chain_id": "A", "res_seq": 7, "ins_code": "",
                    "x": 1.0 * k, "y": 2.0, "z": 3.0, "occupancy": 1.0, "temp_factor": 0.0, "seg_id": "", "element": name[0], "charge": "", "mol2charge": None})

    base = ["P", "OP1", "OP2", "O5'", "C5'", "C4'", "O4'", "C3'", "O3'", "C2'", "C1'", "N9", "N1"]
    for cls, resname in (("ADE", "A"), ("CYT", "C"), ("GUA", "G"), ("THY", "T"), ("URA", "U")):
        ci = next(iter(prog.classes_by_name.get(cls, [])), None)
        if ci is None or prog.find_method(ci, "set_state") is None:
            continue
        where = f"pdb2pqr/{ci.module.rel} ({cls}.set_state)"

        def extra(runner, interp, call, args, kw):
            if isinstance(call.func, ast.Attribute) and call.func.attr == "record_type" and not args:
                recv = interp.ev(call.func.value)
                if isinstance(recv, dict) and recv.get("__class__") in ("ATOM", "HETATM"):
                    return recv["__class__"]
            return NotImplemented

        names = {}
        try:
            for label, start, change in (("built with O2'", True, None), ("built without O2'", False, None),
                                          ("built without O2', O2' added since", False, "add"), ("built with O2', O2' removed since", True, "remove")):
                atoms = base + (["O2'"] if start else [])
                ref = Obj({"__class__": "DefinitionResidue", "name": resname, "altnames": {},
                           "map": {n_: Obj({"__class__": "DefinitionAtom", "name": n_, "bonds": []}) for n_ in base + ["O2'"]}})
                run = ObjRunner(prog, ci.module.rel, extra_hook=extra)
                res = run.new(cls, [record(n_, resname, k) for k, n_ in enumerate(atoms, start=1)], ref)
                if change == "add":
                    run.call(res, "create_atom", "O2'", [0.0, 0.0, 0.0])
                elif change == "remove":
                    run.call(res, "remove_atom", "O2'")
                run.call(res, "set_state")
                names[label] = res.get("ffname")
        except Flow as fl:
            r.bad(f"history|{cls}", f"{cls}: construction / set_state stops with {fl.value} on the model records", where)
            continue
        ok = names["built with O2'"] == names["built without O2', O2' added since"] and names["built without O2'"] == names["built with O2', O2' removed since"]
        r.add(f"history|{cls}", ok, f"{cls}: state names {names}" + ("" if ok else " - residues with the same atoms are named differently depending on how they were built"), where)


# ---------------------------------------------------------------------------------- R10
def rule_files_read(prog, rep, rid="R10"):
    """Forcefield.__init__ is evaluated on a model file system for every combination of built-in / user-supplied parameter file and built-in /
    user-supplied names file: the parameter rows come from the user's file when one is given and from the bundled table otherwise, and the
    names are resolved through the user's names file whenever one is given (whichever parameter file is in use), through the bundled one
    otherwise.  What is decided: which files are opened and which text reaches the names parser."""
    from ..fsmodel import PKG_ROOT as pkg
    from ..guards import Flow, Obj
    from ..objinterp import ObjRunner
    from .shared import FileSystemModel
    r = rep.rule(rid, "the parameter file and the names file that are read are the ones the options select", floor=4)
    fi = prog.func("forcefield.py", "Forcefield.__init__")
    where = f"pdb2pqr/forcefield.py:{fi.node.lineno} (Forcefield.__init__)"
    files = {f"{pkg}/dat/AMBER.DAT": "ALA N -0.4157 1.8240\n", f"{pkg}/dat/AMBER.names": "<bundled-amber-names/>",
             f"{pkg}/dat/PARSE.DAT": "ALA N -0.4000 1.5000\n", f"{pkg}/dat/PARSE.names": "<bundled-parse-names/>",
             "/work/mine.dat": "ALA N -0.1111 1.1111\n", "/work/mine.names": "<user-names/>", "/work/other.names": "<other-user-names/>"}
    cases = [
        ("built-in force field", ("amber", None, None), f"{pkg}/dat/AMBER.DAT", "<bundled-amber-names/>"),
        ("built-in force field with the user's names file", ("amber", None, "/work/mine.names"), f"{pkg}/dat/AMBER.DAT", "<user-names/>"),
        ("another built-in force field with another user names file", ("parse", None, "/work/other.names"), f"{pkg}/dat/PARSE.DAT", "<other-user-names/>"),
        ("user parameter file and user names file", ("mine", "/work/mine.dat", "/work/mine.names"), "/work/mine.dat", "<user-names/>"),
        ("user parameter file named like a built-in force field, user names file", ("parse", "/work/mine.dat", "/work/other.names"), "/work/mine.dat", "<other-user-names/>"),
    ]
    for label, (ff, userff, usernames), want_dat, want_names in cases:
        fs = FileSystemModel(dict(files))
        parsed = []

        def extra(runner, interp, call, args, kw, fs=fs, parsed=parsed):
            name = U(call.func)
            if name.endswith("parseString") and args:
                parsed.append(args[0])
                return None
            if name.endswith("make_parser"):
                return None
            return fs.hook(runner, interp, call, args, kw)

        run = ObjRunner(prog, "forcefield.py", extra_hook=extra)
        run.module_env("io.py")["__file__"] = f"{pkg}/io.py"
        definition = Obj({"__class__": "Definition", "map": {}, "patches": []})
        key = f"files|{label}"
        try:
            obj = run.new("Forcefield", ff, definition, userff, usernames)
        except Flow as fl:
            r.bad(key, f"Forcefield({ff!r}, userff={userff!r}, usernames={usernames!r}) stops with {fl.value}", where)
            continue
        opened = [p for p, mode in fs.opened if "w" not in mode and "a" not in mode]
        dat_read = [p for p in opened if p.lower().endswith(".dat")]
        rows = sorted(obj["map"]) if isinstance(obj.get("map"), dict) else None
        ok = dat_read == [want_dat] and parsed == [want_names]
        r.add(key, ok, f"Forcefield({ff!r}, userff={userff!r}, usernames={usernames!r}): parameter file(s) read {dat_read} (expected {want_dat}), "
              f"text handed to the names parser {parsed} (expected {want_names!r}); residues loaded {rows}", where)
