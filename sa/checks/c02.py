"""C02 -- every residue carries the formal charge of its protonation and terminal state.

Decided statically: the charge table of every fully parameterised (residue x position x
state x force field) cell; one terminal patch per chain end on every path of
assign_termini; idempotence of terminal patches; the integrality guard is a must-pass with a
meaningful tolerance; every terminus-flag combination the producer can leave on a residue is
consumed by set_state into a full cell.
"""
from __future__ import annotations

import ast
import copy

from ..cells import Model, amino_cells, ff_status, nucleic_cells, final_atoms
from ..core import AnalysisError, U, guards_of, iter_stmts, try_fold, walk_no_defs
from ..tables import AMINO, FFS, NUCLEIC, Tables, apply_patch

TOL = 5e-4  # residue.charge is rounded to 4 decimals; tables are written to 4-6 decimals
N_PATCHES = {"NTERM", "NEUTRAL-NTERM", "5TERM"}
C_PATCHES = {"CTERM", "NEUTRAL-CTERM", "3TERM"}


TERMINI_SHAPES = {
    "A": ["ALA"], "AA": ["ALA", "GLY"], "AAA": ["SER", "ALA", "GLY"], "P..": ["PRO", "ALA", "ALA"],
    "AAW": ["ALA", "GLY", "WAT"], "AAL": ["ALA", "GLY", "LIG"], "AAWW": ["ALA", "GLY", "WAT", "WAT"],
    "NN": ["DA", "DT"], "NNN": ["DA", "DC", "DG"], "N": ["DA"], "RR": ["RA", "RU"], "NNW": ["DA", "DT", "WAT"],
    "W": ["WAT"], "WW": ["WAT", "WAT"], "AAX": ["ALA", "GLY", "NME?"],
    # an amide cap followed by hetero groups of the same chain; an unknown residue inside a (possibly cyclic) peptide
    "AAXW": ["ALA", "GLY", "NME?", "WAT"], "AAXL": ["ALA", "GLY", "NME?", "LIG"], "AUA": ["ALA", "LIG", "GLY"], "AUUA": ["SER", "LIG", "LIG", "ALA"],
}


def build_chain(prog, model, names):
    chain = []
    for n in names:
        if n in ("LIG", "NME?"):
            chain.append({"__class__": prog.cls("residue.py", "Residue"), "name": n.rstrip("?"), "map": {},
                          "patches": [], "__ref__": None, "__removed__": []})
        else:
            chain.append(model.residue(n))
    return chain


def check(prog, rep):
    from . import shared
    t = Tables(prog.root)
    model = Model(prog, t)
    rep.explanation = (
        "charge sum of every fully parameterised cell (20 amino acids x 5 positions x protonation states, 8 "
        "nucleotides x 3 positions, water) in the 6 built-in force fields vs the formal charge obtained by valence "
        "counting on the patched topology; path/decision analysis of assign_termini, set_state and the integrality "
        "guard in non_trivial"
    )
    rep.exhaustive = True
    rep.trusted += ["sa.tables (independent table model)", "chemistry table: side-chain formal charge from the atom set "
                    "(7 rows) and valence counting for termini"]
    rep.not_decided += ["that atoms carry their table charge at run time when the structure is not fully "
                        "parameterised (C01.R1 covers the assignment itself)", "ligand charges (C16)"]

    # ------------------------------------------------------------------ R1
    r1 = rep.rule("R1", "charge sum of every fully parameterised cell equals the formal charge", floor=400)
    cells = amino_cells(model)
    seen = set()
    for ff in FFS:
        ffmap = t.ff(ff)
        for c in cells:
            if c.pos == "N+C":
                continue  # R5
            st, miss, q = ff_status(ffmap, c)
            if st != "full":
                continue
            sig = (ff, c.lookup, tuple(sorted(c.atoms)), c.expected)
            if sig in seen:
                continue
            first = (ff, c.lookup) not in {(a, b) for a, b, _, _ in seen}
            seen.add(sig)
            # one obligation per entry; a second cell that reaches the same entry with another formal charge gets its own key
            key = f"charge|{ff}:{c.lookup}" if first else f"charge|{ff}:{c.lookup}|{c.res}:{c.state}:{c.pos}"
            r1.add(key, abs(q - c.expected) <= TOL,
                   f"{ff.upper()} {c.lookup}: sum of {len(c.atoms)} atom charges = {q:+.4f}, formal charge of "
                   f"{c.res} state {c.state} at position {c.pos} = {c.expected:+d}",
                   f"pdb2pqr/dat/{ff.upper()}.DAT")
    ncells = nucleic_cells(model)
    r1.info["amino_cells"] = len(cells)
    r1.info["nucleic_cells"] = len(ncells)
    for ff in FFS:
        ffmap = t.ff(ff)
        stat = {}
        for c in ncells:
            if c.pos == "5+3":
                continue
            st, miss, q = ff_status(ffmap, c)
            stat[(c.res, c.pos)] = (st, q, c.lookup)
            if st == "full" and c.pos == "mid":
                r1.add(f"charge|{ff}:{c.lookup}", abs(q + 1) <= TOL,
                       f"{ff.upper()} {c.lookup}: internal nucleotide sums to {q:+.4f}, expected -1 (one phosphate)",
                       f"pdb2pqr/dat/{ff.upper()}.DAT")
        for a in NUCLEIC:
            for b in NUCLEIC:
                if a[0] != b[0]:
                    continue  # DNA with DNA, RNA with RNA
                s5, q5, l5 = stat[(a, "5")]
                s3, q3, l3 = stat[(b, "3")]
                if s5 == "full" and s3 == "full":
                    r1.add(f"pair|{ff}:{l5}+{l3}", abs(q5 + q3 + 1) <= TOL,
                           f"{ff.upper()} strand ends {l5} ({q5:+.4f}) + {l3} ({q3:+.4f}) = {q5 + q3:+.4f}, expected -1",
                           f"pdb2pqr/dat/{ff.upper()}.DAT")
        if "WAT" in ffmap:
            w = ffmap["WAT"]
            wat = [a for a in t.map["WAT"].atoms]
            if all(a in w for a in wat):
                q = sum(w[a].charge for a in wat)
                r1.add(f"charge|{ff}:WAT", abs(q) <= TOL, f"{ff.upper()} WAT sums to {q:+.4f}, expected 0")

    # ------------------------------------------------------------------ R2
    r2 = rep.rule("R2", "exactly one terminal patch per chain end on every path of assign_termini; none if cyclic",
                  floor=40)
    fi = prog.func("biomolecule.py", "Biomolecule.assign_termini")
    where = f"pdb2pqr/biomolecule.py:{fi.node.lineno} (Biomolecule.assign_termini)"
    shapes = TERMINI_SHAPES
    for sname, names in shapes.items():
        for nn in (False, True):
            for nc in (False, True):
                for dist, cyc in ((3.8, False), (1.33, True)):
                    chain = build_chain(prog, model, names)
                    it = model.assign_termini(chain, neutraln=nn, neutralc=nc, dist=dist)
                    first = chain[0]
                    polymer = [r for r in chain if r["name"] not in ("WAT", "LIG", "NME")]
                    # an amide cap (NME/NH2) behind the last polymer residue means there is no free C-terminus
                    capped = any(r["name"] in ("NME", "NH2") for r in chain)
                    has_nc = "N" in chain[0]["map"] and "C" in chain[-1]["map"]
                    key = f"termini|{sname}:neutraln={int(nn)}:neutralc={int(nc)}:{'cyclic' if cyc else 'open'}"
                    problems = []
                    if cyc and has_nc:
                        if any(r["patches"] for r in chain):
                            problems.append("cyclic chain (N-C below the threshold) received terminal patches")
                    else:
                        for i, r in enumerate(chain):
                            np_ = [p for p in r["patches"] if p in N_PATCHES]
                            cp_ = [p for p in r["patches"] if p in C_PATCHES]
                            is_first = r is first and r in polymer
                            is_last = polymer and r is polymer[-1]
                            want_n = 1 if is_first else 0
                            want_c = 1 if (is_last and not capped) else 0
                            if len(np_) != want_n:
                                problems.append(f"residue {i} ({r['name']}) has N/5' patches {np_}, expected {want_n}")
                            if len(cp_) != want_c:
                                problems.append(f"residue {i} ({r['name']}) has C/3' patches {cp_}, expected {want_c}")
                            if is_first and np_:
                                exp = "5TERM" if r["name"] in NUCLEIC else (
                                    "NEUTRAL-NTERM" if (nn or len(t.heavy_neighbours(t.map[r["name"]], "N")) > 1) else "NTERM")
                                if np_[0] != exp:
                                    problems.append(f"first residue got {np_[0]}, expected {exp}")
                            if is_last and cp_:
                                exp = "3TERM" if r["name"] in NUCLEIC else ("NEUTRAL-CTERM" if nc else "CTERM")
                                if cp_[0] != exp:
                                    problems.append(f"last polymer residue got {cp_[0]}, expected {exp}")
                    r2.add(key, not problems, "; ".join(problems) or
                           f"patches per residue: {[r['patches'] for r in chain]}", where)
    # cyclic threshold: decided by evaluation at the two ends of the admissible interval - a chain whose first N and last C are 1.346 A apart (the
    # largest amide bond the code itself states) is cyclic, one whose ends are further apart than a peptide bond can be (PEPTIDE_DIST) is open
    consts = prog.module_constants("config.py")
    pd = consts.get("PEPTIDE_DIST")
    hi = pd if isinstance(pd, (int, float)) else 1.7
    verdicts = {}
    for d in (1.346, hi + 0.001):
        chain = build_chain(prog, model, TERMINI_SHAPES["AAA"])
        model.assign_termini(chain, neutraln=False, neutralc=False, dist=d)
        verdicts[d] = any(r_["patches"] for r_ in chain)
    r2.add("cyclic-threshold", not verdicts[1.346] and verdicts[hi + 0.001],
           f"ends 1.346 A apart: {'terminal patches applied (treated as open)' if verdicts[1.346] else 'cyclic, no termini'}; ends {hi + 0.001:.3f} A apart "
           f"(beyond PEPTIDE_DIST={hi}): {'open, termini applied' if verdicts[hi + 0.001] else 'treated as cyclic'}", where)

    # ------------------------------------------------------------------ R3
    r3 = rep.rule("R3", "terminal patches are idempotent on the reference (re-invocation after a hidden-chain split)",
                  floor=40)
    for pname in ("NTERM", "NEUTRAL-NTERM", "CTERM", "NEUTRAL-CTERM"):
        P = t.patches.get(pname)
        if P is None:
            raise AnalysisError(f"PATCHES.xml: patch {pname} not found")
        for R in AMINO:
            once = apply_patch(t.map[R], P)
            twice = apply_patch(once, P)
            same = list(once.atoms) == list(twice.atoms) and all(
                once.atoms[a].bonds == twice.atoms[a].bonds for a in once.atoms)
            r3.add(f"idem|{pname}:{R}", same, f"{pname} applied twice to {R} "
                                               f"{'equals' if same else 'differs from'} applying it once",
                   "pdb2pqr/dat/PATCHES.xml")
    for pname in ("5TERM", "3TERM"):
        P = t.patches.get(pname)
        if P is None:
            raise AnalysisError(f"PATCHES.xml: patch {pname} not found")
        for R in NUCLEIC:
            once = apply_patch(t.map[R], P)
            twice = apply_patch(once, P)
            same = list(once.atoms) == list(twice.atoms) and all(
                once.atoms[a].bonds == twice.atoms[a].bonds for a in once.atoms)
            r3.add(f"idem|{pname}:{R}", same, f"{pname} applied twice to {R} "
                                               f"{'equals' if same else 'differs from'} applying it once",
                   "pdb2pqr/dat/PATCHES.xml")

    # ------------------------------------------------------------------ R4
    r4 = rep.rule("R4", "integrality guard on the total charge is a must-pass of non_trivial", floor=4)
    check_guard(prog, r4)

    # ------------------------------------------------------------------ R5
    r5 = rep.rule("R5", "every terminus-flag combination assign_termini can leave on one residue is consumed by "
                        "set_state into a full cell carrying both terminal charges", floor=2)
    full_both = 0
    bad_cells = []
    for ff in FFS:
        ffmap = t.ff(ff)
        for c in cells:
            if c.pos != "N+C" or c.state != "default":
                continue
            # only meaningful where the FF defines both ends of this residue
            if f"N{c.res}" not in ffmap or f"C{c.res}" not in ffmap:
                continue
            st, miss, q = ff_status(ffmap, c)
            if st == "full" and abs(q - c.expected) <= TOL:
                full_both += 1
            else:
                bad_cells.append(f"{ff}:{c.res}->{c.lookup} {st} missing={miss[:3]}")
    r5.add("flags|amino:N+C", not bad_cells,
           f"single-residue chain: both flags set, set_state names the residue like an N-terminus; "
           f"{len(bad_cells)} cell(s) not full/integral, e.g. {bad_cells[:3]}" if bad_cells else
           f"{full_both} single-residue cells full and integral",
           "pdb2pqr/aa.py (Amino.set_state)")
    bad_na = []
    for ff in FFS:
        ffmap = t.ff(ff)
        for c in ncells:
            if c.pos != "5+3":
                continue
            if f"{c.res}5" not in ffmap or f"{c.res}3" not in ffmap:
                continue
            st, miss, q = ff_status(ffmap, c)
            if st != "full":
                bad_na.append(f"{ff}:{c.lookup} {st}")
    r5.add("flags|nucleic:5+3", not bad_na,
           f"single-nucleotide strand: lookup name has both suffixes; {len(bad_na)} cell(s) not parameterised, "
           f"e.g. {bad_na[:3]}" if bad_na else "all single-nucleotide cells full", "pdb2pqr/na.py (Nucleic.set_state)")

    shared.rule_patch_isolation(prog, rep, "R6")
    shared.rule_no_mutation_while_iterating(prog, rep, "R7", ["biomolecule.py::Biomolecule.set_termini", "biomolecule.py::Biomolecule.assign_termini",
                                                               "biomolecule.py::Biomolecule.__init__", "biomolecule.py::Biomolecule.update_bonds"])
    from . import c07
    from .shared import rule_hidden_chains_model
    rep.guarded(rule_hidden_chains_model, prog, rep, "R9")
    # chain ends are found per chain identifier: the mmCIF reader must hand the identifier on whole (or refuse the row), never cut it
    from .c10 import rule_no_item_is_cut
    rep.guarded(rule_no_item_is_cut, prog, rep, "R10")
    # the terminus flags are set once, by assign_termini, and read by set_state, update_bonds, the titration code and the movers
    rep.guarded(shared.rule_who_may_write, prog, rep, "R11", "the terminus flags of a residue are written only by constructors and by assign_termini",
                {"is_n_term", "is_c_term", "is5term", "is3term"},
                {"biomolecule.py::Biomolecule.assign_termini": "decides the chain ends (C02.R2 evaluates it on every chain shape)"}, 4, "terminus flags")
    if not c07.ingestion_decided_on_models(prog, rep, "R8", only=("no chain identifiers",)):
        shared.rule_ter_chain_count(prog, rep, "R8")  # shape-based fallback


def check_guard(prog, r4):
    _check_guard(prog, r4)
    # the guard must come after every statement that assigns parameters (force field AND ligand block)
    nt = prog.func("main.py", "non_trivial").node
    gidx = None
    last_assign = -1
    for i, st in enumerate(nt.body):
        txt = U(st)
        if isinstance(st, ast.If) and any(isinstance(s, ast.Raise) for s in st.body) and ("charge_err" in U(st.test) or "noninteger_charge(" in U(st.test)):
            gidx = i
        if ".ffcharge =" in txt or "apply_force_field(" in txt or "assign_parameters(" in txt:
            last_assign = i
    r4.add("guard|after-all-assignments", gidx is not None and gidx > last_assign,
           f"the integrality guard is statement {gidx} of non_trivial, the last statement assigning charges is statement {last_assign}: "
           + ("every assigned charge is checked" if gidx is not None and gidx > last_assign else
              "charges assigned after the check (ligand parameters) are never verified, and a non-integral result is written"),
           f"pdb2pqr/main.py:{nt.lineno} (non_trivial)")


def _check_guard(prog, r4):
    nt = prog.func("main.py", "non_trivial")
    consts = prog.module_constants("config.py")
    body = nt.node.body
    where0 = f"pdb2pqr/main.py:{nt.node.lineno} (non_trivial)"
    # locate: if <v>: raise ...   where v = noninteger_charge(<total>)
    guard = None
    for idx, st in enumerate(body):
        if isinstance(st, ast.If) and any(isinstance(s, ast.Raise) for s in st.body):
            tnames = {n.id for n in ast.walk(st.test) if isinstance(n, ast.Name)}
            # find the defining assignment of the tested name among earlier top-level statements
            for prev in reversed(body[:idx]):
                if isinstance(prev, ast.Assign) and isinstance(prev.value, ast.Call) \
                        and U(prev.value.func).split(".")[-1] == "noninteger_charge" \
                        and any(isinstance(tg, ast.Name) and tg.id in tnames for tg in prev.targets):
                    guard = (idx, st, prev)
                    break
            test_ = st.test.value if isinstance(st.test, ast.NamedExpr) else st.test   # if (err := noninteger_charge(total)): raise
            if isinstance(test_, ast.Call) and U(test_.func).split(".")[-1] == "noninteger_charge":
                guard = (idx, st, st)
        if guard:
            break
    if guard is None:
        r4.bad("guard|present", "non_trivial has no top-level 'if noninteger_charge(total): raise' guard: a "
                                "non-integral total charge no longer fails the run", where0)
        return
    idx, ifst, assign = guard
    where = f"pdb2pqr/main.py:{ifst.lineno} (non_trivial)"
    r4.ok("guard|present", f"guard {U(ifst.test)!r} -> raise at top level of non_trivial", where)
    # must-pass: no return before it at any depth
    early = [s for s in iter_stmts(body[:idx]) if isinstance(s, ast.Return)]
    r4.add("guard|must-pass", not early,
           "no return statement precedes the guard, so every normal exit of non_trivial passes it" if not early else
           f"a return at line {early[0].lineno} leaves non_trivial before the charge guard", where)
    # raise is unconditional inside the if-body and not swallowed
    uncond = isinstance(ifst.body[-1], ast.Raise) or any(isinstance(s, ast.Raise) for s in ifst.body)
    in_try = False
    p = getattr(ifst, "_parent", None)
    while p is not None and p is not nt.node:
        if isinstance(p, ast.Try):
            in_try = True
        p = getattr(p, "_parent", None)
    r4.add("guard|raises", uncond and not in_try, "the guard body raises and is not inside a try block", where)
    # what is summed: the argument must accumulate residue.charge over all biomolecule.residues
    call = assign.value if isinstance(assign, ast.Assign) else (ifst.test.value if isinstance(ifst.test, ast.NamedExpr) else ifst.test)
    arg = call.args[0] if call.args else None
    ok_sum = False
    detail = "argument of noninteger_charge is not a plain accumulator name"
    if isinstance(arg, ast.Name):
        acc = arg.id
        for st in body[:idx]:
            if isinstance(st, ast.For):
                it = U(st.iter)
                adds = [s for s in iter_stmts(st.body) if isinstance(s, ast.AugAssign) and U(s.target) == acc
                        and isinstance(s.op, ast.Add)]
                if adds:
                    uncond_add = all(getattr(s, "_parent", None) is st for s in adds)
                    tgt = U(st.target)
                    val = adds[0].value
                    src_ok = False
                    if U(val) == f"{tgt}.charge":
                        src_ok = True
                    elif isinstance(val, ast.Name):
                        for s2 in st.body:
                            if isinstance(s2, ast.Assign) and U(s2.targets[0]) == val.id and U(s2.value) == f"{tgt}.charge":
                                src_ok = True
                    ok_sum = it.endswith(".residues") and "[" not in it and uncond_add and src_ok
                    detail = (f"accumulator {acc!r} sums {U(val)} over {it} "
                              f"({'unconditionally' if uncond_add else 'CONDITIONALLY'})")
        if U(call.func).split(".")[-1] != "noninteger_charge":
            ok_sum = False
    r4.add("guard|sums-all-residues", ok_sum, detail, where)
    # tolerance
    fn = prog.func("utilities.py", "noninteger_charge")
    tol = None
    args = fn.node.args
    if len(args.args) >= 2 and args.defaults:
        tol = try_fold(args.defaults[-1], consts)
    kw = [k for k in call.keywords if k.arg == "error_tol"]
    if kw:
        tol = try_fold(kw[0].value, consts)
    elif len(call.args) > 1:
        tol = try_fold(call.args[1], consts)
    r4.add("guard|tolerance", isinstance(tol, (int, float)) and 0 < abs(tol) <= 0.05,
           f"integrality tolerance folds to {tol!r}; must be a positive constant <= 0.05 e", where)
    # the test inside noninteger_charge: abs(x - round(x)) > tol
    cmp_ok = False
    ret_nonempty = False
    for n in ast.walk(fn.node):
        if isinstance(n, ast.If) and isinstance(n.test, ast.Compare) and isinstance(n.test.ops[0], (ast.Gt, ast.GtE)):
            left = n.test.left
            ltxt = U(left)
            for s in fn.node.body:
                if isinstance(s, ast.Assign) and U(s.targets[0]) == ltxt:
                    ltxt = U(s.value)
            if "round(" in ltxt and "abs(" in ltxt and "-" in ltxt:
                cmp_ok = True
                ret_nonempty = any(isinstance(s, ast.Return) and not (isinstance(s.value, ast.Constant) and not s.value.value)
                                   for s in n.body)
    r4.add("guard|predicate", cmp_ok and ret_nonempty,
           "noninteger_charge returns a truthy description when abs(x - round(x)) exceeds the tolerance",
           f"pdb2pqr/utilities.py:{fn.node.lineno} (noninteger_charge)")
